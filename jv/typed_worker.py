"""S2 worker - runs mypy (the repository's own dev dependency, as a library) over src/joserfc of the
given repo and dumps, for every expression of every package module, the classes its inferred type may
denote.  Runs in its own process (mypy teardown is slow; we leave with os._exit)."""
from __future__ import annotations
import json
import os
import sys


def main() -> None:
    repo, out = sys.argv[1], sys.argv[2]
    os.chdir(repo)
    from mypy import build, nodes
    from mypy.options import Options
    from mypy.find_sources import create_source_list
    from mypy import types as mt

    opts = Options()
    opts.preserve_asts = True
    opts.export_types = True
    opts.incremental = False
    opts.cache_dir = os.devnull
    opts.follow_imports = "normal"
    srcs = create_source_list(["src/joserfc"], opts)
    res = build.build(srcs, opts)

    SKIP = {"node", "info", "analyzed", "type", "unanalyzed_type", "original_def", "impl", "defn", "var", "ref",
            "type_annotation", "names", "imports", "alias_deps", "plugin_deps", "module_refs"}

    def attrs(n):
        a = getattr(type(n), "__mypyc_attrs__", None)
        if a:
            return [x for x in a if x != "__dict__"]
        return [x for x in dir(type(n)) if not x.startswith("_")]

    def walk(root):
        seen = set()
        stack = [root]
        while stack:
            n = stack.pop()
            if id(n) in seen:
                continue
            seen.add(id(n))
            if isinstance(n, nodes.Expression):
                yield n
            for a in attrs(n):
                if a in SKIP:
                    continue
                try:
                    v = getattr(n, a)
                except Exception:
                    continue
                if isinstance(v, nodes.Node):
                    stack.append(v)
                elif isinstance(v, (list, tuple)):
                    for x in v:
                        if isinstance(x, nodes.Node):
                            stack.append(x)
                        elif isinstance(x, (list, tuple)):
                            for y in x:
                                if isinstance(y, nodes.Node):
                                    stack.append(y)

    def describe(t, depth=0):
        """-> (classes:set[str], any:bool, is_type_obj:bool, callable:bool)"""
        classes, any_, typeobj, call = set(), False, False, False
        t = mt.get_proper_type(t)
        if depth > 6 or t is None:
            return classes, True, False, False
        if isinstance(t, mt.Instance):
            classes.add(t.type.fullname)
            if t.last_known_value is not None:
                pass
        elif isinstance(t, mt.UnionType):
            for it in t.items:
                c, a, ty, ca = describe(it, depth + 1)
                classes |= c
                any_ |= a
                typeobj |= ty
                call |= ca
        elif isinstance(t, mt.AnyType):
            any_ = True
        elif isinstance(t, mt.TypeVarType):
            c, a, ty, ca = describe(t.upper_bound, depth + 1)
            if t.values:
                for v in t.values:
                    c2, a2, _, _ = describe(v, depth + 1)
                    c |= c2
                    a |= a2
            classes |= c
            any_ |= a
            if c == {"builtins.object"}:
                any_ = True
        elif isinstance(t, mt.TypeType):
            c, a, _, _ = describe(t.item, depth + 1)
            classes |= c
            any_ |= a
            typeobj = True
        elif isinstance(t, mt.CallableType):
            call = True
            if t.is_type_obj():
                r = mt.get_proper_type(t.ret_type)
                if isinstance(r, mt.Instance):
                    classes.add(r.type.fullname)
                    typeobj = True
        elif isinstance(t, mt.Overloaded):
            call = True
            it = t.items[0]
            if it.is_type_obj():
                r = mt.get_proper_type(it.ret_type)
                if isinstance(r, mt.Instance):
                    classes.add(r.type.fullname)
                    typeobj = True
        elif isinstance(t, mt.TupleType):
            # a NamedTuple class of the package: its own name too (attribute reads on it resolve against that class)
            fb = getattr(t, "partial_fallback", None)
            fn_ = getattr(getattr(fb, "type", None), "fullname", "") if fb is not None else ""
            if fn_ and fn_ != "builtins.tuple":
                classes.add(fn_)
            classes.add("builtins.tuple")
        elif isinstance(t, mt.TypedDictType):
            classes.add("builtins.dict")
        elif isinstance(t, mt.LiteralType):
            c, a, _, _ = describe(t.fallback, depth + 1)
            classes |= c
        elif isinstance(t, mt.NoneType):
            classes.add("builtins.None")
        elif isinstance(t, (mt.UninhabitedType, mt.DeletedType)):
            pass
        else:
            any_ = True
        return classes, any_, typeobj, call

    result = {"errors": len(res.errors), "diagnostics": [str(e) for e in res.errors][:500], "modules": {}}
    for name, f in res.files.items():
        if not (name == "joserfc" or name.startswith("joserfc.")):
            continue
        tab = {}
        for e in walk(f):
            t = res.types.get(e)
            if t is None:
                continue
            if e.line is None or e.line < 0 or e.end_line is None:
                continue
            c, a, ty, ca = describe(t)
            key = f"{e.line}:{e.column}:{e.end_line}:{e.end_column}"
            ent = {"c": sorted(c)}
            if a:
                ent["a"] = 1
            if ty:
                ent["t"] = 1
            if ca:
                ent["f"] = 1
            prev = tab.get(key)
            if prev is None:
                tab[key] = ent
        result["modules"][name] = tab
    tmp = out + ".tmp%d" % os.getpid()
    with open(tmp, "w") as fh:
        json.dump(result, fh)
    os.replace(tmp, out)
    sys.stdout.flush()
    os._exit(0)


if __name__ == "__main__":
    try:
        main()
    except SystemExit:
        raise
    except BaseException as e:  # noqa
        import traceback
        traceback.print_exc()
        sys.stderr.flush()
        os._exit(3)
