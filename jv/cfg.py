"""S4 - statement-level control-flow graphs with short-circuit splitting, dominators,
must-pass-through queries and bounded path enumeration.  Pure ast; no third-party graph library."""
from __future__ import annotations
import ast
from dataclasses import dataclass, field
from typing import Callable, Dict, Iterable, Iterator, List, Optional, Sequence, Set, Tuple

from .program import AnalysisError, FunctionInfo, walk_no_nested_top


@dataclass(eq=False)
class CNode:
    idx: int
    kind: str  # entry | exit | raise | stmt | test | loop | handler | join
    ast: Optional[ast.AST] = None  # stmt for 'stmt'/'loop', expr for 'test', ExceptHandler for 'handler'
    stmt: Optional[ast.stmt] = None  # enclosing statement (for tests: the If/While/Assert)
    negated: bool = False  # (unused; `not` is handled by swapping edges)

    @property
    def lineno(self) -> int:
        return getattr(self.ast, "lineno", 0) if self.ast is not None else 0

    def __repr__(self) -> str:
        txt = ""
        if self.ast is not None:
            try:
                txt = ast.unparse(self.ast).split("\n")[0][:60]
            except Exception:
                txt = type(self.ast).__name__
        return f"<{self.idx}:{self.kind} {txt}>"


class CFG:
    def __init__(self, fn: FunctionInfo):
        self.fn = fn
        self.nodes: List[CNode] = []
        self.succ: Dict[CNode, List[Tuple[CNode, str]]] = {}
        self.pred: Dict[CNode, List[Tuple[CNode, str]]] = {}
        self.entry = self._new("entry")
        self.exit = self._new("exit")
        self.raise_exit = self._new("raise")
        self._expr_node: Dict[int, CNode] = {}
        self._loop_stack: List[Tuple[CNode, CNode]] = []  # (continue target, break target)
        self._try_stack: List[List[CNode]] = []  # handler nodes of enclosing trys (innermost last)
        self._try_catch_all: List[bool] = []
        ends = self._build_block(fn.body, [(self.entry, "next")])
        for n, lab in ends:
            self._edge(n, self.exit, lab if lab != "next" else "fall")
        self._idom: Optional[Dict[CNode, Optional[CNode]]] = None

    # ------------------------------------------------------------------ construction
    def _new(self, kind: str, node: Optional[ast.AST] = None, stmt: Optional[ast.stmt] = None) -> CNode:
        n = CNode(len(self.nodes), kind, node, stmt)
        self.nodes.append(n)
        self.succ[n] = []
        self.pred[n] = []
        return n

    def _edge(self, a: CNode, b: CNode, label: str) -> None:
        if (b, label) not in self.succ[a]:
            self.succ[a].append((b, label))
            self.pred[b].append((a, label))

    def _connect(self, ends: List[Tuple[CNode, str]], target: CNode) -> None:
        for n, lab in ends:
            self._edge(n, target, lab)

    def _register_exprs(self, cn: CNode, root: ast.AST) -> None:
        for sub in walk_no_nested_top(root):
            self._expr_node.setdefault(id(sub), cn)

    def _add_exc_edges(self, cn: CNode) -> None:
        """a node inside a try body may transfer to the handlers of the enclosing try statements"""
        for depth in range(len(self._try_stack) - 1, -1, -1):
            for h in self._try_stack[depth]:
                self._edge(cn, h, "exc")
            if self._try_catch_all[depth]:
                return
        # may propagate out of the function
        if self._try_stack:
            self._edge(cn, self.raise_exit, "exc")

    def _raise_targets(self, cn: CNode) -> None:
        for depth in range(len(self._try_stack) - 1, -1, -1):
            for h in self._try_stack[depth]:
                self._edge(cn, h, "exc")
            if self._try_catch_all[depth]:
                return
        self._edge(cn, self.raise_exit, "raise")

    def _build_cond(self, e: ast.expr, stmt: ast.stmt, ins: List[Tuple[CNode, str]]
                    ) -> Tuple[List[Tuple[CNode, str]], List[Tuple[CNode, str]]]:
        """returns (true_ends, false_ends)"""
        if isinstance(e, ast.BoolOp):
            if isinstance(e.op, ast.And):
                cur = ins
                false_all: List[Tuple[CNode, str]] = []
                for v in e.values:
                    t, f = self._build_cond(v, stmt, cur)
                    false_all.extend(f)
                    cur = t
                return cur, false_all
            else:
                cur = ins
                true_all: List[Tuple[CNode, str]] = []
                for v in e.values:
                    t, f = self._build_cond(v, stmt, cur)
                    true_all.extend(t)
                    cur = f
                return true_all, cur
        if isinstance(e, ast.UnaryOp) and isinstance(e.op, ast.Not):
            t, f = self._build_cond(e.operand, stmt, ins)
            return f, t
        cn = self._new("test", e, stmt)
        self._register_exprs(cn, e)
        self._connect(ins, cn)
        if self._try_stack:
            self._add_exc_edges(cn)
        return [(cn, "true")], [(cn, "false")]

    def _build_block(self, body: Sequence[ast.stmt], ins: List[Tuple[CNode, str]]) -> List[Tuple[CNode, str]]:
        cur = ins
        for st in body:
            cur = self._build_stmt(st, cur)
        return cur

    def _build_stmt(self, st: ast.stmt, ins: List[Tuple[CNode, str]]) -> List[Tuple[CNode, str]]:
        if isinstance(st, ast.If):
            t, f = self._build_cond(st.test, st, ins)
            ends = self._build_block(st.body, t)
            ends_else = self._build_block(st.orelse, f) if st.orelse else f
            return ends + ends_else
        if isinstance(st, ast.While):
            head = self._new("join", None, st)
            self._connect(ins, head)
            t, f = self._build_cond(st.test, st, [(head, "next")])
            after = self._new("join", None, st)
            self._loop_stack.append((head, after))
            ends = self._build_block(st.body, t)
            self._loop_stack.pop()
            self._connect(ends, head)
            # constant-true loops have no false exit
            if not (isinstance(st.test, ast.Constant) and st.test.value):
                oe = self._build_block(st.orelse, f) if st.orelse else f
                self._connect(oe, after)
            return [(after, "next")]
        if isinstance(st, (ast.For, ast.AsyncFor)):
            head = self._new("loop", st, st)
            self._register_exprs(head, st.iter)
            self._register_exprs(head, st.target)
            self._connect(ins, head)
            if self._try_stack:
                self._add_exc_edges(head)
            after = self._new("join", None, st)
            self._loop_stack.append((head, after))
            ends = self._build_block(st.body, [(head, "iter")])
            self._loop_stack.pop()
            self._connect(ends, head)
            oe = self._build_block(st.orelse, [(head, "done")]) if st.orelse else [(head, "done")]
            self._connect(oe, after)
            return [(after, "next")]
        if isinstance(st, ast.Try):
            handlers = [self._new("handler", h, st) for h in st.handlers]
            catch_all = any(h.type is None or (isinstance(h.type, ast.Name) and h.type.id in ("BaseException",))
                            for h in st.handlers)
            self._try_stack.append(handlers)
            self._try_catch_all.append(catch_all)
            ends = self._build_block(st.body, ins)
            self._try_stack.pop()
            self._try_catch_all.pop()
            if st.orelse:
                ends = self._build_block(st.orelse, ends)
            all_ends = list(ends)
            for hn, h in zip(handlers, st.handlers):
                if h.type is not None:
                    self._register_exprs(hn, h.type)
                all_ends.extend(self._build_block(h.body, [(hn, "next")]))
            if st.finalbody:
                all_ends = self._build_block(st.finalbody, all_ends)
            return all_ends
        if isinstance(st, (ast.With, ast.AsyncWith)):
            cn = self._new("stmt", st, st)
            for it in st.items:
                self._register_exprs(cn, it.context_expr)
                if it.optional_vars is not None:
                    self._register_exprs(cn, it.optional_vars)
            self._connect(ins, cn)
            if self._try_stack:
                self._add_exc_edges(cn)
            return self._build_block(st.body, [(cn, "next")])
        if isinstance(st, ast.Return):
            cn = self._new("stmt", st, st)
            self._register_exprs(cn, st)
            self._connect(ins, cn)
            if self._try_stack:
                self._add_exc_edges(cn)
            self._edge(cn, self.exit, "return")
            return []
        if isinstance(st, ast.Raise):
            cn = self._new("stmt", st, st)
            self._register_exprs(cn, st)
            self._connect(ins, cn)
            self._raise_targets(cn)
            return []
        if isinstance(st, ast.Assert):
            t, f = self._build_cond(st.test, st, ins)
            fail = self._new("stmt", st, st)  # the implicit `raise AssertionError`
            self._connect(f, fail)
            self._raise_targets(fail)
            return t
        if isinstance(st, ast.Break):
            cn = self._new("stmt", st, st)
            self._connect(ins, cn)
            if not self._loop_stack:
                raise AnalysisError("break outside loop")
            self._edge(cn, self._loop_stack[-1][1], "break")
            return []
        if isinstance(st, ast.Continue):
            cn = self._new("stmt", st, st)
            self._connect(ins, cn)
            if not self._loop_stack:
                raise AnalysisError("continue outside loop")
            self._edge(cn, self._loop_stack[-1][0], "continue")
            return []
        if isinstance(st, ast.Match):
            raise AnalysisError(f"match statement not modelled ({self.fn.loc(st)})")
        # simple statement (incl. nested def / class / import / global)
        cn = self._new("stmt", st, st)
        if not isinstance(st, (ast.FunctionDef, ast.AsyncFunctionDef, ast.ClassDef)):
            self._register_exprs(cn, st)
        else:
            self._expr_node[id(st)] = cn
        self._connect(ins, cn)
        if self._try_stack:
            self._add_exc_edges(cn)
        return [(cn, "next")]

    # ------------------------------------------------------------------ queries
    def node_of(self, e: ast.AST) -> Optional[CNode]:
        return self._expr_node.get(id(e))

    def stmt_nodes(self) -> Iterator[CNode]:
        for n in self.nodes:
            if n.kind in ("stmt", "test", "loop", "handler"):
                yield n

    def returns(self) -> List[CNode]:
        return [n for n in self.nodes if n.kind == "stmt" and isinstance(n.ast, ast.Return)]

    def raises(self) -> List[CNode]:
        return [n for n in self.nodes if n.kind == "stmt" and isinstance(n.ast, (ast.Raise, ast.Assert))]

    def normal_exits(self) -> List[Tuple[CNode, str]]:
        """(node, label) pairs that lead to the normal exit: return statements and fall-through ends"""
        return list(self.pred[self.exit])

    def reachable(self, start: CNode, blocked: Iterable[CNode] = (), follow_exc: bool = True,
                  edge_filter: Optional[Callable[[CNode, CNode, str], bool]] = None) -> Set[CNode]:
        """nodes reachable from start; `blocked` nodes can be reached but their *normal* out-edges are cut
        (their exception edges remain: a blocked statement that raises did not complete)"""
        blocked_set = set(blocked)
        seen = {start}
        stack = [start]
        while stack:
            n = stack.pop()
            for s, lab in self.succ[n]:
                if n in blocked_set and lab != "exc":
                    continue
                if not follow_exc and lab == "exc":
                    continue
                if edge_filter is not None and not edge_filter(n, s, lab):
                    continue
                if s not in seen:
                    seen.add(s)
                    stack.append(s)
        return seen

    def must_pass(self, start: CNode, target: CNode, through: Iterable[CNode],
                  edge_filter: Optional[Callable[[CNode, CNode, str], bool]] = None) -> bool:
        """every path start ->* target completes one of `through` first"""
        thr = set(through)
        if target in thr:
            thr = thr - {target}
        if start in thr:
            return True
        return target not in self.reachable(start, thr, edge_filter=edge_filter)

    def path_avoiding(self, start: CNode, target: CNode, through: Iterable[CNode],
                      edge_filter: Optional[Callable[[CNode, CNode, str], bool]] = None) -> Optional[List[CNode]]:
        """a witness path start ->* target that completes none of `through` (None if there is none)"""
        thr = set(through) - {target}
        prev: Dict[CNode, Optional[CNode]] = {start: None}
        stack = [start]
        while stack:
            n = stack.pop(0)
            if n is target:
                out = []
                cur: Optional[CNode] = n
                while cur is not None:
                    out.append(cur)
                    cur = prev[cur]
                return list(reversed(out))
            for s, lab in self.succ[n]:
                if n in thr and lab != "exc":
                    continue
                if edge_filter is not None and not edge_filter(n, s, lab):
                    continue
                if s not in prev:
                    prev[s] = n
                    stack.append(s)
        return None

    # dominators (simple iterative algorithm; graphs are tiny)
    def _compute_dom(self) -> None:
        order = self._rpo()
        idx = {n: i for i, n in enumerate(order)}
        idom: Dict[CNode, Optional[CNode]] = {n: None for n in order}
        idom[self.entry] = self.entry

        def intersect(a: CNode, b: CNode) -> CNode:
            while a is not b:
                while idx[a] > idx[b]:
                    a = idom[a]  # type: ignore[assignment]
                while idx[b] > idx[a]:
                    b = idom[b]  # type: ignore[assignment]
            return a
        changed = True
        while changed:
            changed = False
            for n in order[1:]:
                preds = [p for p, _ in self.pred[n] if p in idx and idom[p] is not None]
                if not preds:
                    continue
                new = preds[0]
                for p in preds[1:]:
                    new = intersect(p, new)
                if idom[n] is not new:
                    idom[n] = new
                    changed = True
        self._idom = idom

    def _rpo(self) -> List[CNode]:
        seen: Set[CNode] = set()
        out: List[CNode] = []

        def dfs(n: CNode) -> None:
            stack = [(n, iter(self.succ[n]))]
            seen.add(n)
            while stack:
                node, it = stack[-1]
                adv = False
                for s, _ in it:
                    if s not in seen:
                        seen.add(s)
                        stack.append((s, iter(self.succ[s])))
                        adv = True
                        break
                if not adv:
                    out.append(node)
                    stack.pop()
        dfs(self.entry)
        return list(reversed(out))

    def dominates(self, a: CNode, b: CNode) -> bool:
        if self._idom is None:
            self._compute_dom()
        assert self._idom is not None
        if b not in self._idom or self._idom[b] is None:
            return False  # unreachable
        cur: Optional[CNode] = b
        while True:
            if cur is a:
                return True
            nxt = self._idom.get(cur)  # type: ignore[arg-type]
            if nxt is None or nxt is cur:
                return cur is a
            cur = nxt

    def is_reachable(self, n: CNode) -> bool:
        return n in self.reachable(self.entry)

    # ------------------------------------------------------------------ paths
    def paths(self, max_paths: int = 20000, max_visits: int = 2) -> List[List[Tuple[CNode, str]]]:
        """all entry -> (exit|raise) paths as lists of (node, outgoing label); every node at most
        `max_visits` times per path (loops: zero and one+ iterations)"""
        out: List[List[Tuple[CNode, str]]] = []
        stack: List[Tuple[CNode, List[Tuple[CNode, str]], Dict[int, int]]] = [(self.entry, [], {})]
        while stack:
            n, path, cnt = stack.pop()
            if n is self.exit or n is self.raise_exit:
                out.append(path + [(n, "end")])
                if len(out) > max_paths:
                    raise AnalysisError(f"too many paths in {self.fn.short}")
                continue
            c = cnt.get(n.idx, 0)
            if c >= max_visits:
                continue
            cnt2 = dict(cnt)
            cnt2[n.idx] = c + 1
            for s, lab in self.succ[n]:
                stack.append((s, path + [(n, lab)], cnt2))
        return out

    def guards_of(self, target: CNode) -> List[List[Tuple[CNode, bool]]]:
        """for each acyclic-ish path entry ->* target: the list of (test node, outcome) on it"""
        res: List[List[Tuple[CNode, bool]]] = []
        stack: List[Tuple[CNode, List[Tuple[CNode, bool]], frozenset]] = [(self.entry, [], frozenset())]
        guard = 0
        while stack:
            n, conds, seen = stack.pop()
            guard += 1
            if guard > 200000:
                raise AnalysisError(f"guard enumeration exploded in {self.fn.short}")
            if n is target:
                res.append(conds)
                continue
            if n.idx in seen:
                continue
            seen2 = seen | {n.idx}
            for s, lab in self.succ[n]:
                if n.kind == "test" and lab in ("true", "false"):
                    stack.append((s, conds + [(n, lab == "true")], seen2))
                elif n.kind == "loop" and lab in ("iter", "done"):
                    stack.append((s, conds + [(n, lab == "iter")], seen2))
                else:
                    stack.append((s, conds, seen2))
        return res


_cfg_cache: Dict[int, CFG] = {}


def cfg_of(fn: FunctionInfo) -> CFG:
    c = _cfg_cache.get(id(fn))
    if c is None:
        c = CFG(fn)
        _cfg_cache[id(fn)] = c
    return c
