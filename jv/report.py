"""Findings, obligations, evidence files, known findings and replay files."""
from __future__ import annotations
import ast
import json
import os
import time
from dataclasses import dataclass, field
from typing import Any, Dict, List, Optional

from .program import AnalysisError, FunctionInfo, norm

VERIF = os.path.dirname(os.path.dirname(os.path.abspath(__file__)))
EVIDENCE_DIR = os.path.join(VERIF, "evidence")
REPLAY_DIR = os.path.join(EVIDENCE_DIR, "replay")
KNOWN_FILE = os.path.join(VERIF, "known_findings.json")


@dataclass
class Finding:
    prop: str
    rule: str
    function: str  # short qualified name of the function holding the construct ('' for tables)
    construct: str  # normalised text of the offending construct / table cell
    message: str
    loc: str = ""
    detail: Dict[str, Any] = field(default_factory=dict)

    @property
    def key(self) -> str:
        return f"{self.prop}|{self.rule}|{self.function}|{self.construct}"

    def to_json(self) -> Dict[str, Any]:
        return {"property": self.prop, "rule": self.rule, "function": self.function, "construct": self.construct,
                "message": self.message, "loc": self.loc, "detail": self.detail, "key": self.key}


@dataclass
class Obligation:
    rule: str
    instance: str
    ok: bool
    nontrivial: bool = True
    detail: str = ""

    def to_json(self) -> Dict[str, Any]:
        d = {"rule": self.rule, "instance": self.instance, "verdict": "discharged" if self.ok else "VIOLATED"}
        if self.detail:
            d["how"] = self.detail
        return d


class Ctx:
    """what a rule module writes to"""

    def __init__(self, prop: str, tier: str, engine: Any):
        self.prop = prop
        self.tier = tier
        self.eng = engine
        self.findings: List[Finding] = []
        self.obligations: List[Obligation] = []
        self.instances: Dict[str, Dict[str, int]] = {}
        self.audit: List[str] = []
        self.assumptions: List[str] = []
        self.extra: Dict[str, Any] = {}
        self.errors: List[str] = []
        self._alias = None  # rule-id rewriting while a rule of another property is run on behalf of this one

    def _r(self, rule: str) -> str:
        return self._alias(rule) if self._alias else rule

    def guard_as(self, alias, rule_fn, *args, **kw):
        """run a rule module of another property as a clause of this one; its obligations are reported under `alias(rule)`"""
        prev = self._alias
        self._alias = alias if callable(alias) else (lambda r, _a=alias: f"{_a}[{r}]")
        try:
            return self.guard(rule_fn, *args, **kw)
        finally:
            self._alias = prev

    def guard(self, rule_fn, *args, **kw):
        """run one rule; an AnalysisError in it is recorded (exit 2 unless a violation is found elsewhere)
        instead of masking the other rules of the property"""
        try:
            return rule_fn(self, *args, **kw)
        except AnalysisError as e:
            self.errors.append(f"{getattr(rule_fn, '__name__', 'rule')}: {e}")
            return None

    # -- obligations -------------------------------------------------------------------------------------
    def ok(self, rule: str, instance: str, detail: str = "", nontrivial: bool = True) -> None:
        self.obligations.append(Obligation(self._r(rule), instance, True, nontrivial, detail))

    def fail(self, rule: str, fn: Optional[FunctionInfo], node: Optional[ast.AST], message: str,
             construct: Optional[str] = None, **detail: Any) -> None:
        fshort = fn.short if fn is not None else ""
        cons = construct if construct is not None else (norm(node) if node is not None else "")
        if len(cons) > 200:
            cons = cons[:200]
        loc = fn.loc(node) if fn is not None else ""
        rule = self._r(rule)
        f = Finding(self.prop, rule, fshort, cons, message, loc, detail)
        if any(x.key == f.key for x in self.findings):
            return
        self.findings.append(f)
        self.obligations.append(Obligation(rule, f"{fshort} :: {cons}", False, True, message))

    def check(self, cond: bool, rule: str, fn: Optional[FunctionInfo], node: Optional[ast.AST], instance: str,
              message: str, detail: str = "", construct: Optional[str] = None) -> bool:
        if cond:
            self.ok(rule, instance, detail)
        else:
            self.fail(rule, fn, node, message, construct=construct)
        return cond

    def check_folded(self, value: Any, cond: bool, rule: str, fn: Optional[FunctionInfo], node: Optional[ast.AST], instance: str,
                     message: str, detail: str = "", construct: Optional[str] = None) -> bool:
        """like check(), but a value the folder could not decide is an ANALYSIS-ERROR, never a verdict"""
        if type(value).__name__ == "Unknown":
            self.errors.append(f"{rule}: {instance}: not foldable ({value!r})")
            return False
        return self.check(cond, rule, fn, node, instance, message, detail, construct)

    def count(self, rule: str, found: int, minimum: int, what: str = "") -> None:
        """instance minimum confirmed by hand: fewer instances => the rule would pass vacuously => exit 2"""
        rule = self._r(rule)
        # `minimum` is what was counted by hand on the reference tree; merging duplicated code legitimately removes a few sites, so the run is
        # only called vacuous when more than a quarter of them is gone (small counts: at most one)
        confirmed = minimum
        minimum = minimum if minimum <= 1 else (minimum - 1 if minimum <= 4 else -(-minimum * 3 // 4))
        self.instances[rule] = {"found": found, "min": minimum, "confirmed": confirmed}
        if found < minimum:
            raise AnalysisError(f"{self.prop} {rule}: only {found} instance(s) of {what or 'the rule'} found, "
                                f"{minimum} confirmed by hand - anchors moved or resolution lost")

    def note(self, text: str) -> None:
        self.audit.append(text)

    def assume(self, text: str) -> None:
        if text not in self.assumptions:
            self.assumptions.append(text)


def load_known() -> List[Dict[str, Any]]:
    if not os.path.exists(KNOWN_FILE):
        return []
    with open(KNOWN_FILE) as fh:
        data = json.load(fh)
    return data.get("findings", [])


def match_known(f: Finding, known: List[Dict[str, Any]]) -> Optional[Dict[str, Any]]:
    for k in known:
        if k.get("status", "known") != "known":
            continue  # fixed entries suppress nothing
        if k.get("property") == f.prop and k.get("rule") == f.rule and k.get("function") == f.function \
                and k.get("construct") == f.construct:
            return k
    return None


def write_replay(f: Finding, n: int) -> str:
    os.makedirs(REPLAY_DIR, exist_ok=True)
    path = os.path.join(REPLAY_DIR, f"{f.prop}-{n}.json")
    with open(path, "w") as fh:
        json.dump(f.to_json(), fh, indent=1, sort_keys=True)
    return path


def write_evidence(ctx: Ctx, wall: float, seed: int, known_hits: List[Dict[str, Any]], violations: int,
                   error: Optional[str] = None) -> str:
    os.makedirs(EVIDENCE_DIR, exist_ok=True)
    obligations = len(ctx.obligations)
    discharged = sum(1 for o in ctx.obligations if o.ok)
    distinct = len({(o.rule, o.instance) for o in ctx.obligations if o.nontrivial})
    samples = [o.to_json() for o in ctx.obligations[:12]]
    bad = [o.to_json() for o in ctx.obligations if not o.ok]
    rules = sorted({o.rule for o in ctx.obligations})
    ev = {
        "property_id": ctx.prop,
        "tier": ctx.tier,
        "seed": seed,
        "level": "other",
        "coverage": {
            "explanation": "static analysis of the current working tree of the repository: every obligation below is "
                           "a structural clause (necessary condition of the property) decided exactly on the resolved "
                           "program (call graph, CFG dominance / must-pass-through, value-flow slices, folded "
                           "constant tables); no code of the repository was executed",
            "obligations": obligations,
            "discharged": discharged,
            "evaluations": max(obligations, 1),
            "distinct_nontrivial": distinct,
            "rule": "one evaluation = one rule instance (rule x site) discovered on this run; an instance is "
                    "non-trivial when its verdict needed a path, slice or folded table of at least two elements; "
                    "distinct = distinct (rule, site) pairs",
            "samples": samples + bad[:20],
            "rules": rules,
            "rule_instances": ctx.instances,
            "violated": bad,
            "exhaustive": True,
            **ctx.eng.substrate_facts(),
            **ctx.extra,
        },
        "assumptions": ctx.assumptions or ["CPython semantics of the constructs used",
                                           "documented behaviour of cryptography / pycryptodome / zlib / stdlib"],
        "wall_s": round(wall, 3),
        "violations": violations,
        "known_findings": [k.get("what", "") for k in known_hits],
        "audit": ctx.audit,
    }
    if error:
        ev["analysis_error"] = error
    path = os.path.join(EVIDENCE_DIR, f"{ctx.prop}.json")
    tmp = path + ".tmp%d" % os.getpid()
    with open(tmp, "w") as fh:
        json.dump(ev, fh, indent=1, sort_keys=False, default=str)
    os.replace(tmp, path)
    return path
