"""S3 - whole-program call graph: direct names via S1, method calls via receiver types (S2) plus
class-hierarchy analysis, property reads, callable parameters, function-valued attributes."""
from __future__ import annotations
import ast
from dataclasses import dataclass, field
from typing import Dict, Iterable, List, Optional, Set, Tuple

from .program import (AnalysisError, ClassInfo, Ext, FunctionInfo, Module, Program, PKG, fn_nodes)
from .typed import Types, TypeDesc

BUILTIN_FUNCS = {
    "len", "isinstance", "issubclass", "str", "bytes", "int", "float", "bool", "list", "dict", "set", "tuple", "frozenset",
    "sorted", "all", "any", "enumerate", "zip", "iter", "next", "getattr", "setattr", "hasattr", "callable", "range",
    "min", "max", "sum", "abs", "repr", "print", "type", "super", "map", "filter", "reversed", "bytearray", "object",
    "ValueError", "TypeError", "KeyError", "RuntimeError", "NotImplementedError", "AssertionError", "Exception",
    "BaseException", "DeprecationWarning", "UserWarning", "id", "hash", "ord", "chr", "format", "vars", "divmod", "pow",
    "round", "memoryview", "open", "property", "staticmethod", "classmethod", "IndexError", "AttributeError",
    "OverflowError", "StopIteration", "UnicodeError", "UnicodeDecodeError", "UnicodeEncodeError", "LookupError",
    "ArithmeticError", "ZeroDivisionError", "OSError", "RecursionError", "MemoryError", "Warning", "hex", "bin", "oct",
    "slice", "complex", "input", "locals", "globals", "exec", "eval", "compile", "delattr", "dir", "isinstance",
}


@dataclass(eq=False)
class CallSite:
    fn: FunctionInfo  # caller
    node: ast.AST  # ast.Call, or ast.Attribute for a property read
    callees: List[FunctionInfo] = field(default_factory=list)
    ext: List[str] = field(default_factory=list)  # canonical external names
    kind: str = "direct"  # direct | method | cha | property | ctor | param | attrfn | ext | unresolved | super
    attr: Optional[str] = None  # method / attribute name for attribute calls
    recv_classes: Tuple[str, ...] = ()

    @property
    def name(self) -> str:
        if self.attr:
            return self.attr
        if isinstance(self.node, ast.Call) and isinstance(self.node.func, ast.Name):
            return self.node.func.id
        return "?"

    def __repr__(self) -> str:
        return f"<call {self.name} in {self.fn.short}:{getattr(self.node, 'lineno', 0)} -> " \
               f"{[c.short for c in self.callees] + self.ext} [{self.kind}]>"


# positional parameter order of a few external callables the rules look at (so that `hmac.new(k, m, digestmod=h)` and `hmac.new(k, m, h)` are one spelling)
EXTERNAL_POSITIONAL = {
    "hmac.new": ["key", "msg", "digestmod"],
    "base64.b64decode": ["s", "altchars"],
    "int.from_bytes": ["bytes", "byteorder"],
    "cryptography.hazmat.primitives.keywrap.aes_key_wrap": ["wrapping_key", "key_to_wrap", "backend"],
    "cryptography.hazmat.primitives.keywrap.aes_key_unwrap": ["wrapping_key", "wrapped_key", "backend"],
    "cryptography.hazmat.primitives.asymmetric.padding.MGF1": ["algorithm"],
    "cryptography.hazmat.primitives.asymmetric.padding.OAEP": ["mgf", "algorithm", "label"],
    "cryptography.hazmat.primitives.ciphers.Cipher": ["algorithm", "mode"],
}

# ... and of those the reference tree calls with keywords: positional arguments are rewritten as keywords
EXTERNAL_KEYWORD = {
    "cryptography.hazmat.primitives.asymmetric.padding.PSS": ["mgf", "salt_length"],
    "cryptography.hazmat.primitives.kdf.concatkdf.ConcatKDFHash": ["algorithm", "length", "otherinfo", "backend"],
    "cryptography.hazmat.primitives.kdf.pbkdf2.PBKDF2HMAC": ["algorithm", "length", "salt", "iterations", "backend"],
    "cryptography.hazmat.primitives.asymmetric.rsa.generate_private_key": ["public_exponent", "key_size", "backend"],
    "cryptography.hazmat.primitives.asymmetric.ec.generate_private_key": ["curve", "backend"],
}


class CallGraph:
    def __init__(self, prog: Program, types: Types):
        self.prog = prog
        self.types = types
        self.sites: Dict[FunctionInfo, List[CallSite]] = {}
        self.site_of: Dict[int, CallSite] = {}
        self.callers: Dict[FunctionInfo, List[CallSite]] = {}
        self._fullname_to_class: Dict[str, ClassInfo] = {c.fullname: c for c in prog.classes.values()}
        self._param_calls: List[CallSite] = []
        self._attrfn_calls: List[CallSite] = []
        self.stats = {"direct": 0, "method": 0, "cha": 0, "property": 0, "ctor": 0, "param": 0, "attrfn": 0,
                      "ext": 0, "unresolved": 0, "super": 0}
        for fn in list(prog.all_functions()):
            self._scan(fn)
        self._resolve_attr_functions()
        self._resolve_param_calls()
        self._positionalise()
        for fn, sites in self.sites.items():
            for s in sites:
                self.stats[s.kind] = self.stats.get(s.kind, 0) + 1
                for c in s.callees:
                    self.callers.setdefault(c, []).append(s)

    def _positionalise(self) -> None:
        """C20 of the canonicalisation (needs resolved callees): `f(a, b, flag=True)` -> `f(a, b, True)` when every callee of the site takes `flag` as the next
        positional parameter.  Keyword arguments are moved only while they follow the parameter order without a gap, so the order in which the arguments
        are evaluated does not change; rules that look at `call.args[i]` then see one spelling."""
        for fn, sites in self.sites.items():
            for s in sites:
                call = s.node
                if isinstance(call, ast.Call) and call.args and s.ext and not s.callees and len(s.ext) == 1 and s.ext[0] in EXTERNAL_KEYWORD \
                        and not any(isinstance(a, ast.Starred) for a in call.args) and len(call.args) <= len(EXTERNAL_KEYWORD[s.ext[0]]):
                    names = EXTERNAL_KEYWORD[s.ext[0]]
                    call.keywords = [ast.keyword(arg=n_, value=a) for n_, a in zip(names, call.args)] + call.keywords
                    call.args = []
                    continue
                if not isinstance(call, ast.Call) or not call.keywords or any(isinstance(a, ast.Starred) for a in call.args) or any(k.arg is None for k in call.keywords):
                    continue
                if s.ext and not s.callees and len(s.ext) == 1 and s.ext[0] in EXTERNAL_POSITIONAL:
                    pos = EXTERNAL_POSITIONAL[s.ext[0]]
                    while call.keywords and len(call.args) < len(pos) and call.keywords[0].arg == pos[len(call.args)]:
                        call.args.append(call.keywords.pop(0).value)
                    continue
                if not s.callees or s.ext:
                    continue
                orders = []
                for c in s.callees:
                    pos = list(c.pos_params)
                    if c.self_name is not None and (s.kind in ("method", "cha", "ctor", "super", "attrfn") or (s.kind == "direct" and c.is_classmethod)):
                        pos = pos[1:]
                    if c.node.args.vararg is not None:
                        pos = pos[: len(call.args)]  # nothing may be appended in front of *args
                    orders.append(pos)
                if any(o != orders[0] for o in orders):
                    continue
                pos = orders[0]
                moved = False
                while call.keywords and len(call.args) < len(pos) and call.keywords[0].arg == pos[len(call.args)]:
                    call.args.append(call.keywords.pop(0).value)
                    moved = True
                if moved:
                    self.stats["positionalised"] = self.stats.get("positionalised", 0) + 1

    # ------------------------------------------------------------------ helpers
    def class_by_fullname(self, fullname: str) -> Optional[ClassInfo]:
        return self._fullname_to_class.get(fullname)

    def _methods_for(self, ci: ClassInfo, name: str, dynamic: bool = True) -> List[FunctionInfo]:
        """method `name` as seen from static class ci: the inherited definition plus overriding subclasses"""
        out: List[FunctionInfo] = []
        f = ci.lookup(name)
        if f is not None:
            out.append(f)
        if dynamic:
            for sub in ci.all_subclasses():
                g = sub.methods.get(name)
                if g is not None and g not in out:
                    out.append(g)
        return out

    @staticmethod
    def _accepts(c: FunctionInfo, call: ast.Call) -> bool:
        a = c.node.args
        if any(isinstance(x, ast.Starred) for x in call.args) or any(k.arg is None for k in call.keywords):
            return True
        pos = [x.arg for x in a.posonlyargs + a.args]
        if pos and not c.is_staticmethod:
            pos = pos[1:]  # self / cls
        npos = len(call.args)
        if npos > len(pos) and a.vararg is None:
            return False
        names = set(pos) | {x.arg for x in a.kwonlyargs}
        for k in call.keywords:
            if k.arg not in names and a.kwarg is None:
                return False
        ndef = len(a.defaults)
        required = pos[: len(pos) - ndef] if ndef else pos
        given = set(pos[:npos]) | {k.arg for k in call.keywords}
        if any(r not in given for r in required):
            return False
        for x, d in zip(a.kwonlyargs, a.kw_defaults):
            if d is None and x.arg not in given:
                return False
        return True

    def _cha_by_name(self, name: str) -> List[FunctionInfo]:
        out = []
        for c in self.prog.classes.values():
            f = c.methods.get(name)
            if f is not None:
                out.append(f)
        return out

    def local_names(self, fn: FunctionInfo) -> Set[str]:
        cached = fn.__dict__.get("_locals")
        if cached is not None:
            return cached
        names: Set[str] = set(fn.params)
        declared_global: Set[str] = set()
        for n in fn_nodes(fn):
            if isinstance(n, ast.Name) and isinstance(n.ctx, (ast.Store, ast.Del)):
                names.add(n.id)
            elif isinstance(n, ast.ExceptHandler) and n.name:
                names.add(n.name)
            elif isinstance(n, (ast.Global, ast.Nonlocal)):
                declared_global.update(n.names)
        names -= declared_global
        fn.__dict__["_locals"] = names
        fn.__dict__["_globals_declared"] = declared_global
        return names

    def resolve_name(self, fn: FunctionInfo, name: str):
        """resolve a bare name used inside fn: nested function, enclosing function's nested, module symbol"""
        f: Optional[FunctionInfo] = fn
        while f is not None:
            if name in f.nested:
                return f.nested[name]
            if name in self.local_names(f) and f.name != "<module>":
                return ("local", f, name)
            f = f.parent
        return self.prog.resolve_symbol(fn.module, name, fn=fn)

    # ------------------------------------------------------------------ scanning
    def _scan(self, fn: FunctionInfo) -> None:
        sites: List[CallSite] = []
        self.sites[fn] = sites
        nodes = list(fn_nodes(fn))
        if fn.name == "<module>":
            # class bodies execute at import time as well
            extra = []
            for c in fn.module.classes:
                for st in c.node.body:
                    if isinstance(st, (ast.FunctionDef, ast.AsyncFunctionDef)):
                        for d in st.decorator_list:
                            extra.extend(ast.walk(d))
                        for d in st.args.defaults + [x for x in st.args.kw_defaults if x is not None]:
                            extra.extend(ast.walk(d))
                        continue
                    from .program import walk_no_nested_top
                    extra.extend(walk_no_nested_top(st))
            nodes.extend(extra)
        call_funcs = {id(n.func) for n in nodes if isinstance(n, ast.Call)}
        for n in nodes:
            if isinstance(n, ast.Call):
                s = self._resolve_call(fn, n)
                sites.append(s)
                self.site_of[id(n)] = s
            elif isinstance(n, ast.Attribute) and isinstance(n.ctx, ast.Load) and id(n) not in call_funcs:
                s2 = self._resolve_property(fn, n)
                if s2 is not None:
                    sites.append(s2)
                    self.site_of[id(n)] = s2
            elif isinstance(n, ast.Attribute) and isinstance(n.ctx, ast.Load) and id(n) in call_funcs:
                # x.prop(...) where prop is a property returning a callable: register the property read too
                pass

    def _recv_classes(self, fn: FunctionInfo, recv: ast.expr) -> Tuple[List[ClassInfo], List[str], bool, bool]:
        """-> (repo classes, external class names, is_any, is_typeobj)"""
        # self / cls
        if isinstance(recv, ast.Name) and fn.cls is not None and recv.id == fn.self_name:
            return [fn.cls], [], False, fn.is_classmethod
        if isinstance(recv, ast.Name) and fn.parent is not None:
            # closure over self of the enclosing method
            p = fn.parent
            while p is not None:
                if p.cls is not None and recv.id == p.self_name:
                    return [p.cls], [], False, p.is_classmethod
                p = p.parent
        r = None
        if isinstance(recv, (ast.Name, ast.Attribute)):
            if not (isinstance(recv, ast.Name) and isinstance(self.resolve_name(fn, recv.id), tuple)
                    and self.resolve_name(fn, recv.id)[0] == "local"):
                r = self.prog.resolve_expr(fn.module, recv, fn) if not isinstance(recv, ast.Name) else self.resolve_name(fn, recv.id)
        if isinstance(r, ClassInfo):
            return [r], [], False, True
        td: TypeDesc = self.types.of(fn.module, recv)
        repo: List[ClassInfo] = []
        ext: List[str] = []
        for c in td.classes:
            ci = self._fullname_to_class.get(c)
            if ci is not None:
                repo.append(ci)
            elif c != "builtins.None":
                ext.append(c)
        return repo, ext, td.any or not td.classes, td.typeobj

    def _resolve_call(self, fn: FunctionInfo, call: ast.Call) -> CallSite:
        f = call.func
        site = CallSite(fn, call)
        if isinstance(f, ast.Name):
            r = self.resolve_name(fn, f.id)
            if isinstance(r, FunctionInfo):
                site.callees = [r]
                site.kind = "direct"
            elif isinstance(r, ClassInfo):
                init = r.lookup("__init__")
                site.callees = [init] if init is not None else []
                site.kind = "ctor"
                site.recv_classes = (r.fullname,)
            elif isinstance(r, Ext):
                site.ext = [r.name]
                site.kind = "ext"
            elif isinstance(r, tuple) and r[0] == "local" and r[1].cls is not None and r[1].is_classmethod \
                    and f.id == r[1].self_name:
                inits: List[FunctionInfo] = []
                for c in [r[1].cls] + r[1].cls.all_subclasses():
                    i_ = c.lookup("__init__")
                    if i_ is not None and i_ not in inits:
                        inits.append(i_)
                site.callees = inits
                site.kind = "ctor"
                site.recv_classes = tuple(c.fullname for c in [r[1].cls] + r[1].cls.all_subclasses())
            elif isinstance(r, tuple) and r[0] == "local":
                site.kind = "param"
                site.attr = None
                self._param_calls.append(site)
            elif isinstance(r, tuple) and r[0] == "var":
                site.kind = "unresolved"
                site.ext = [f"var:{r[1].short}.{r[2]}"]
            elif f.id in BUILTIN_FUNCS:
                site.ext = [f"builtins.{f.id}"]
                site.kind = "ext"
            else:
                site.kind = "unresolved"
                site.ext = [f"?{f.id}"]
            return site
        if isinstance(f, ast.Attribute):
            site.attr = f.attr
            # super().m(...)
            if isinstance(f.value, ast.Call) and isinstance(f.value.func, ast.Name) and f.value.func.id == "super":
                cls = fn.cls or (fn.parent.cls if fn.parent else None)
                if cls is not None:
                    start = cls
                    if f.value.args:
                        r0 = self.prog.resolve_expr(fn.module, f.value.args[0], fn)
                        if isinstance(r0, ClassInfo):
                            start = r0
                    # dynamic: any class whose MRO contains start, the next definition after start
                    targets: List[FunctionInfo] = []
                    for c in [cls] + cls.all_subclasses():
                        if start in c.mro:
                            i = c.mro.index(start)
                            for nxt in c.mro[i + 1:]:
                                if f.attr in nxt.methods:
                                    if nxt.methods[f.attr] not in targets:
                                        targets.append(nxt.methods[f.attr])
                                    break
                    site.callees = targets
                    site.kind = "super"
                    if not targets:
                        site.ext = [f"builtins.object.{f.attr}"]
                    return site
            # module-qualified / class-qualified / dotted external
            r = self.prog.resolve_expr(fn.module, f, fn) if self._is_static_chain(fn, f) else None
            if isinstance(r, FunctionInfo):
                site.callees = [r]
                # Class.method(...) where Class has subclasses: classmethods dispatched statically
                site.kind = "direct"
                return site
            if isinstance(r, ClassInfo):
                init = r.lookup("__init__")
                site.callees = [init] if init is not None else []
                site.kind = "ctor"
                site.recv_classes = (r.fullname,)
                return site
            if isinstance(r, Ext):
                site.ext = [r.name]
                site.kind = "ext"
                return site
            repo, ext, is_any, typeobj = self._recv_classes(fn, f.value)
            site.recv_classes = tuple(c.fullname for c in repo) + tuple(ext)
            callees: List[FunctionInfo] = []
            for ci in repo:
                ms = self._methods_for(ci, f.attr)
                if not ms:
                    # not a method: function-valued attribute or property returning a callable
                    continue
                for m_ in ms:
                    if m_ not in callees:
                        callees.append(m_)
            if repo and not callees:
                # attribute holding a callable (reg.validate(...)) or constructor through Type[...] attr
                site.kind = "attrfn"
                self._attrfn_calls.append(site)
                return site
            site.callees = callees
            site.ext = [f"{c}.{f.attr}" for c in ext]
            if callees or ext:
                site.kind = "method" if callees else "ext"
                if is_any and not callees and not ext:
                    pass
                return site
            # Any / unknown receiver: CHA by name over the repo, else external by attribute name
            cha = self._cha_by_name(f.attr)
            # a candidate that cannot take this call's arguments (too many positional arguments, unknown keyword, required parameter left out)
            # is not a target of it: an untyped `op_key.encrypt(cek, padding)` is not JWEEncModel.encrypt(plaintext, cek, iv, aad)
            cha = [c for c in cha if self._accepts(c, call)]
            if cha:
                site.callees = cha
                site.kind = "cha"
            else:
                site.ext = [f"?.{f.attr}"]
                site.kind = "ext"
            return site
        # call of a call result / subscript etc.
        if isinstance(f, ast.Call) and isinstance(f.func, ast.Name) and f.func.id == "getattr" and len(f.args) >= 2:
            vals = self._getattr_values(fn, f)
            site.callees = [v for v in vals if isinstance(v, FunctionInfo)]
            site.ext = [v.name for v in vals if isinstance(v, Ext)]
            if site.callees or site.ext:
                site.kind = "attrfn" if site.callees else "ext"
                return site
        site.kind = "ext"
        try:
            site.ext = ["dyn:" + ast.unparse(f)[:60]]
        except Exception:  # pragma: no cover
            site.ext = ["dyn:?"]
        return site

    def _const_prefix(self, e: ast.expr) -> Optional[str]:
        if isinstance(e, ast.Constant) and isinstance(e.value, str):
            return e.value
        if isinstance(e, ast.JoinedStr) and e.values and isinstance(e.values[0], ast.Constant):
            return str(e.values[0].value)
        if isinstance(e, ast.BinOp) and isinstance(e.op, ast.Add):
            return self._const_prefix(e.left)
        return None

    def _getattr_values(self, fn: FunctionInfo, call: ast.Call) -> list:
        """getattr(self, "<prefix>" + x [, default]) / getattr(module, f"<prefix>{x}")"""
        target, name = call.args[0], call.args[1]
        prefix = self._const_prefix(name)
        if prefix is None:
            return []
        exact = isinstance(name, ast.Constant)
        out: list = []
        if isinstance(target, ast.Name):
            owner = fn
            while owner is not None and not (owner.cls is not None and target.id == owner.self_name):
                owner = owner.parent
            if owner is not None and owner.cls is not None:
                for c in owner.cls.mro + owner.cls.all_subclasses():
                    for nm, m_ in c.methods.items():
                        if (nm == prefix if exact else nm.startswith(prefix)) and m_ not in out:
                            out.append(m_)
                    for nm, v in c.class_attrs.items():
                        if nm == prefix if exact else nm.startswith(prefix):
                            r = self.prog.resolve_expr(c.module, v)
                            if isinstance(r, (FunctionInfo, Ext)) and r not in out:
                                out.append(r)
                return out
            r = self.resolve_name(fn, target.id)
            if isinstance(r, Ext):
                return [Ext(f"{r.name}.{prefix}" + ("" if exact else "*"))]
        return out

    def _is_static_chain(self, fn: FunctionInfo, e: ast.expr) -> bool:
        """a dotted chain rooted at a module-level (non-local) name"""
        while isinstance(e, ast.Attribute):
            e = e.value
        if not isinstance(e, ast.Name):
            return False
        r = self.resolve_name(fn, e.id)
        if isinstance(r, tuple) and r[0] == "local":
            return False
        if fn.cls is not None and e.id == fn.self_name:
            return False
        return r is not None and not (isinstance(r, tuple) and r[0] == "var")

    def _resolve_property(self, fn: FunctionInfo, attr: ast.Attribute) -> Optional[CallSite]:
        if self._is_static_chain(fn, attr):
            r = self.prog.resolve_expr(fn.module, attr, fn)
            if isinstance(r, FunctionInfo) and r.is_property:
                pass
            else:
                return None
        repo, ext, is_any, typeobj = self._recv_classes(fn, attr.value)
        cands: List[FunctionInfo] = []
        if repo:
            for ci in repo:
                for m_ in self._methods_for(ci, attr.attr):
                    if m_.is_property and m_ not in cands:
                        cands.append(m_)
        elif is_any and not ext:
            for m_ in self._cha_by_name(attr.attr):
                if m_.is_property and m_ not in cands:
                    cands.append(m_)
        if not cands:
            return None
        return CallSite(fn, attr, cands, [], "property", attr.attr, tuple(c.fullname for c in repo))

    # ------------------------------------------------------------------ function-valued attributes
    def _resolve_attr_functions(self) -> None:
        """`reg.validate(x)`: the attribute is assigned in the class' methods from constructor parameters /
        module-level tables; collect the function values that flow there"""
        cache: Dict[Tuple[str, str], List[FunctionInfo]] = {}
        for site in self._attrfn_calls:
            out: List[FunctionInfo] = []
            for cname in site.recv_classes:
                ci = self._fullname_to_class.get(cname)
                if ci is None:
                    continue
                key = (cname, site.attr or "")
                if key not in cache:
                    cache[key] = self._attr_function_values(ci, site.attr or "")
                for f in cache[key]:
                    if f not in out:
                        out.append(f)
            site.callees = out
            if not out:
                exts = []
                for cname in site.recv_classes:
                    ci = self._fullname_to_class.get(cname)
                    if ci is not None:
                        for v in self._attr_ext_values(ci, site.attr or ""):
                            if v not in exts:
                                exts.append(v)
                if exts:
                    site.kind = "ext"
                    site.ext = exts
                else:
                    site.kind = "unresolved"
                    site.ext = [f"?attr.{site.attr}"]

    def _func_values(self, fn: FunctionInfo, e: ast.expr, depth: int = 0) -> List[FunctionInfo]:
        """functions an expression may evaluate to (names, table lookups, conditional expressions,
        calls of factories returning closures)"""
        if depth > 5:
            return []
        out: List[FunctionInfo] = []
        if isinstance(e, ast.IfExp):
            return self._func_values(fn, e.body, depth + 1) + self._func_values(fn, e.orelse, depth + 1)
        if isinstance(e, ast.Name):
            r = self.resolve_name(fn, e.id)
            if isinstance(r, FunctionInfo):
                return [r]
            if isinstance(r, tuple) and r[0] == "var":
                for v in self.prog.var_values(r[1], r[2]):
                    out.extend(self._func_values(r[1].body_fn, v, depth + 1))
            if not out and e.id not in fn.params and isinstance(fn.node, (ast.FunctionDef, ast.AsyncFunctionDef)):
                # a local: every value assigned to it in this function (`v = table[x]` / `v = given` on the two arms of a test)
                for n_ in ast.walk(fn.node):
                    if isinstance(n_, ast.Assign) and any(isinstance(t_, ast.Name) and t_.id == e.id for t_ in n_.targets):
                        out.extend(self._func_values(fn, n_.value, depth + 1))
            return out
        if isinstance(e, ast.Subscript):
            base = e.value
            if isinstance(base, ast.Name):
                r = self.resolve_name(fn, base.id)
                if isinstance(r, tuple) and r[0] == "var":
                    for v in self.prog.var_values(r[1], r[2]):
                        if isinstance(v, ast.Dict):
                            for val in v.values:
                                out.extend(self._func_values(r[1].body_fn, val, depth + 1))
            return out
        if isinstance(e, ast.Call) and isinstance(e.func, ast.Name) and e.func.id == "getattr" and len(e.args) >= 2:
            return [v for v in self._getattr_values(fn, e) if isinstance(v, FunctionInfo)]
        if isinstance(e, ast.Call):
            s = self.site_of.get(id(e)) or self._resolve_call(fn, e)
            for c in s.callees:
                # factory returning a nested function
                for n in fn_nodes(c):
                    if isinstance(n, ast.Return) and isinstance(n.value, ast.Name) and n.value.id in c.nested:
                        out.append(c.nested[n.value.id])
            return out
        if isinstance(e, ast.Lambda):
            return out
        return out

    def _attr_function_values(self, ci: ClassInfo, attr: str) -> List[FunctionInfo]:
        out: List[FunctionInfo] = []
        for c in ci.mro + ci.all_subclasses():
            for m_ in c.methods.values():
                sn = m_.self_name
                if sn is None:
                    continue
                for n in fn_nodes(m_):
                    if isinstance(n, (ast.Assign, ast.AnnAssign)):
                        targets = n.targets if isinstance(n, ast.Assign) else [n.target]
                        for t in targets:
                            if isinstance(t, ast.Attribute) and t.attr == attr and isinstance(t.value, ast.Name) \
                                    and t.value.id == sn and n.value is not None:
                                out.extend(self._flow_values(m_, n.value))
        seen: List[FunctionInfo] = []
        for f in out:
            if f not in seen:
                seen.append(f)
        return seen

    def _attr_ext_values(self, ci: ClassInfo, attr: str) -> List[str]:
        out: List[str] = []
        for c in ci.mro + ci.all_subclasses():
            if attr in c.class_attrs:
                r = self.prog.resolve_expr(c.module, c.class_attrs[attr])
                if isinstance(r, Ext):
                    out.append(r.name)
            for m_ in c.methods.values():
                sn = m_.self_name
                if sn is None:
                    continue
                for n in fn_nodes(m_):
                    if isinstance(n, (ast.Assign, ast.AnnAssign)):
                        targets = n.targets if isinstance(n, ast.Assign) else [n.target]
                        for t in targets:
                            if isinstance(t, ast.Attribute) and t.attr == attr and isinstance(t.value, ast.Name) \
                                    and t.value.id == sn and n.value is not None:
                                v = n.value
                                if isinstance(v, ast.Call) and isinstance(v.func, ast.Name) and v.func.id == "getattr":
                                    out.extend(x.name for x in self._getattr_values(m_, v) if isinstance(x, Ext))
                                else:
                                    r = self.prog.resolve_expr(m_.module, v, m_) if isinstance(v, (ast.Name, ast.Attribute)) else None
                                    if isinstance(r, Ext):
                                        out.append(r.name)
        uniq: List[str] = []
        for x in out:
            if x not in uniq:
                uniq.append(x)
        return uniq

    def _flow_values(self, m_: FunctionInfo, e: ast.expr) -> List[FunctionInfo]:
        out = list(self._func_values(m_, e))
        # parameters of the constructor: look at every construction site
        pnames = [n.id for n in ast.walk(e) if isinstance(n, ast.Name) and n.id in m_.params]
        if pnames and m_.name == "__init__" and m_.cls is not None:
            for fn2, sites in self.sites.items():
                for s in sites:
                    if s.kind == "ctor" and m_ in s.callees and isinstance(s.node, ast.Call):
                        for p in pnames:
                            a = self.arg_for_param(s, m_, p)
                            if a is not None:
                                out.extend(self._func_values(fn2, a))
        return out

    # ------------------------------------------------------------------ callable parameters
    def arg_for_param(self, site: CallSite, callee: FunctionInfo, pname: str) -> Optional[ast.expr]:
        """actual argument expression bound to parameter `pname` of `callee` at this call site"""
        call = site.node
        if not isinstance(call, ast.Call):
            return None
        pos = callee.pos_params
        offset = 0
        if callee.self_name is not None:
            # bound call: receiver is the implicit first argument unless called through the class with explicit self
            if site.kind in ("method", "cha", "ctor", "super", "attrfn") or (
                    site.kind == "direct" and callee.is_classmethod):
                offset = 1
            elif site.kind == "direct" and isinstance(call.func, ast.Attribute) and callee.cls is not None:
                # Class.method(args) for a staticmethod handled by self_name None; instance method via class: explicit self
                offset = 0
        if pname in pos:
            i = pos.index(pname) - offset
            if 0 <= i < len(call.args) and not any(isinstance(a, ast.Starred) for a in call.args[: i + 1]):
                return call.args[i]
        for kw in call.keywords:
            if kw.arg == pname:
                return kw.value
        return None

    def param_for_arg(self, site: CallSite, callee: FunctionInfo, arg: ast.expr) -> Optional[str]:
        call = site.node
        if not isinstance(call, ast.Call):
            return None
        for p in callee.params:
            if self.arg_for_param(site, callee, p) is arg:
                return p
        return None

    def _resolve_param_calls(self) -> None:
        """p(...) where p is a parameter / local bound to a callable: bind through call sites (fixed point)"""
        # values of a local callable name inside fn
        def local_callable_values(fn: FunctionInfo, name: str, seen: Set[Tuple[int, str]]) -> List[FunctionInfo]:
            key = (id(fn), name)
            if key in seen:
                return []
            seen.add(key)
            out: List[FunctionInfo] = []
            # assigned locally?
            for n in fn_nodes(fn):
                if isinstance(n, ast.Assign):
                    for t in n.targets:
                        if isinstance(t, ast.Name) and t.id == name:
                            out.extend(self._func_values(fn, n.value))
            if name in fn.params:
                for caller, sites in self.sites.items():
                    for s in sites:
                        if fn in s.callees and isinstance(s.node, ast.Call):
                            a = self.arg_for_param(s, fn, name)
                            if a is None:
                                continue
                            if isinstance(a, ast.Name):
                                r = self.resolve_name(caller, a.id)
                                if isinstance(r, FunctionInfo):
                                    out.append(r)
                                elif isinstance(r, tuple) and r[0] == "local":
                                    out.extend(local_callable_values(r[1], a.id, seen))
                            else:
                                out.extend(self._func_values(caller, a))
            return out
        for site in self._param_calls:
            call = site.node
            assert isinstance(call, ast.Call) and isinstance(call.func, ast.Name)
            r = self.resolve_name(site.fn, call.func.id)
            owner = r[1] if isinstance(r, tuple) else site.fn
            vals = local_callable_values(owner, call.func.id, set())
            uniq: List[FunctionInfo] = []
            for v in vals:
                if v not in uniq:
                    uniq.append(v)
            site.callees = uniq
            if not uniq:
                site.ext = [f"callable:{call.func.id}"]

    # ------------------------------------------------------------------ reachability
    def reachable(self, roots: Iterable[FunctionInfo], stop: Iterable[FunctionInfo] = ()) -> List[FunctionInfo]:
        stop_set = set(stop)
        seen: List[FunctionInfo] = []
        seen_ids: Set[int] = set()
        stack = list(roots)
        while stack:
            f = stack.pop()
            if id(f) in seen_ids:
                continue
            seen_ids.add(id(f))
            seen.append(f)
            if f in stop_set:
                continue
            for s in self.sites.get(f, []):
                for c in s.callees:
                    if id(c) not in seen_ids:
                        stack.append(c)
            # a closure defined in f may be invoked later: it is reached through its call sites only
        return seen

    def calls_in(self, fn: FunctionInfo) -> List[CallSite]:
        return self.sites.get(fn, [])

    def find_calls(self, fn: FunctionInfo, attr: Optional[str] = None, callee: Optional[FunctionInfo] = None,
                   ext: Optional[str] = None) -> List[CallSite]:
        out = []
        for s in self.sites.get(fn, []):
            if attr is not None and s.name != attr:
                continue
            if callee is not None and callee not in s.callees:
                continue
            if ext is not None and not any(x == ext or x.endswith("." + ext) for x in s.ext):
                continue
            out.append(s)
        return out

    def transitive_callers(self, fn: FunctionInfo) -> List[FunctionInfo]:
        seen: List[FunctionInfo] = []
        stack = [fn]
        while stack:
            f = stack.pop()
            for s in self.callers.get(f, []):
                if s.fn not in seen:
                    seen.append(s.fn)
                    stack.append(s.fn)
        return seen
