"""S9 - exception flow: may-escape exception classes per function.

explicit raise / assert / re-raise, repo callees through the call graph (fixed point), external callees through
the throws table, filtered by enclosing try/except handlers using the exception class hierarchy.  Flow-insensitive
inside a try body, handler-sensitive.  Every escaping class carries its *origin* (function, construct)."""
from __future__ import annotations
import ast
from dataclasses import dataclass
from typing import Dict, FrozenSet, Iterable, List, Optional, Set, Tuple

from .program import ClassInfo, Ext, FunctionInfo, Program, norm, walk_no_nested_top
from .callgraph import CallGraph, CallSite
from .cfg import cfg_of
from .spec import throws as TH


@dataclass(frozen=True)
class Esc:
    exc: str  # canonical class name (repo: errors:DecodeError, builtin: ValueError, ext: zlib.error)
    origin_fn: str
    origin: str  # normalised construct that raises
    line: int

    def __repr__(self) -> str:
        return f"{self.exc}@{self.origin_fn}:{self.line}"


class ExcFlow:
    def __init__(self, prog: Program, cg: CallGraph):
        self.prog = prog
        self.cg = cg
        self._sum: Dict[int, Set[Esc]] = {}
        self._in_progress: Set[int] = set()
        self.unclassified: Set[str] = set()
        self.guarded: List[str] = []
        self._changed = False
        self.stop: Set[FunctionInfo] = set()  # functions treated as not raising (documented cuts)
        self._round_done: Set[int] = set()

    # ------------------------------------------------------------------ hierarchy
    def canon(self, name: str) -> str:
        return TH.ALIASES.get(name, name[9:] if name.startswith("builtins.") else name)

    def ancestors(self, exc: str) -> List[str]:
        exc = self.canon(exc)
        out = [exc]
        if ":" in exc:  # repo class
            ci = self.prog.classes.get("joserfc." + exc)
            if ci is not None:
                for c in ci.mro[1:]:
                    out.append(c.short)
                for c in ci.mro:
                    for b in c.ext_bases:
                        for a in self.ancestors(b):
                            if a not in out:
                                out.append(a)
            return out
        stack = list(TH.EXC_BASES.get(exc, ["Exception"] if exc != "BaseException" else []))
        while stack:
            b = stack.pop(0)
            if b not in out:
                out.append(b)
                stack.extend(TH.EXC_BASES.get(b, []))
        return out

    def is_allowed(self, exc: str) -> bool:
        anc = self.ancestors(exc)
        return "errors:JoseError" in anc or "ValueError" in anc

    def _raised_classes(self, fn: FunctionInfo, e: ast.expr) -> List[str]:
        """the class(es) a raise statement names.  A local that was bound from a table of classes (`_, _, error_cls = RULES[name]`; a dispatch table
        refactoring) stands for the classes at that position of the table - the selected row when the key folds, every row otherwise."""
        ex = e.func if isinstance(e, ast.Call) else e
        if isinstance(ex, ast.Name) and ex.id not in fn.params:
            r = self.prog.resolve_expr(fn.module, ex, fn)
            if not isinstance(r, (ClassInfo, Ext)):
                got = self._local_class_values(fn, ex.id)
                if got:
                    return got
        return [self.class_name(fn, e)]

    def _local_class_values(self, fn: FunctionInfo, name: str) -> List[str]:
        from .fold import Folder, ClassVal, ExtVal, is_unknown
        from .program import fn_nodes
        F = self.__dict__.get("_folder")
        if F is None:
            F = self.__dict__["_folder"] = Folder(self.prog)
        out: List[str] = []

        def names_of(v) -> Optional[List[str]]:
            if isinstance(v, ClassVal):
                return [v.cls.short]
            if isinstance(v, ExtVal) and not v.called:
                return [self.canon(v.name)]
            return None
        for n in fn_nodes(fn):
            if not isinstance(n, ast.Assign) or len(n.targets) != 1:
                continue
            t = n.targets[0]
            idx = None
            if isinstance(t, ast.Name) and t.id == name:
                idx = ()
            elif isinstance(t, (ast.Tuple, ast.List)):
                for i, x in enumerate(t.elts):
                    if isinstance(x, ast.Name) and x.id == name:
                        idx = (i,)
            if idx is None:
                continue
            try:
                v = F.expr(n.value, {}, fn.module)
            except Exception:
                return []
            rows = [v]
            if is_unknown(v) and isinstance(n.value, ast.Subscript):
                try:
                    tab = F.expr(n.value.value, {}, fn.module)  # the key does not fold: every row of the table
                except Exception:
                    return []
                rows = list(tab.values()) if isinstance(tab, dict) else (list(tab) if isinstance(tab, (list, tuple)) else [])
                if not rows:
                    return []
            for row in rows:
                el = row
                for i in idx:
                    if not isinstance(el, (tuple, list)) or i >= len(el):
                        return []
                    el = el[i]
                nm = names_of(el)
                if nm is None:
                    return []
                out.extend(x for x in nm if x not in out)
        return out

    def class_name(self, fn: FunctionInfo, e: ast.expr) -> str:
        if isinstance(e, ast.Call):
            e = e.func
        r = self.prog.resolve_expr(fn.module, e, fn) if isinstance(e, (ast.Name, ast.Attribute)) else None
        if isinstance(r, ClassInfo):
            return r.short
        if isinstance(r, Ext):
            return self.canon(r.name)
        if isinstance(e, ast.Name):
            return self.canon(e.id)
        return norm(e)

    # ------------------------------------------------------------------ externals
    def ext_throws(self, fn: FunctionInfo, site: CallSite) -> List[str]:
        out: List[str] = []
        for name in site.ext:
            hit = None
            if name.endswith("hmac.compare_digest") and isinstance(site.node, ast.Call):
                # bytes-like arguments never raise; two str arguments raise TypeError unless both are ASCII (type-directed: cg.types)
                tys = [self.cg.types.of(fn.module, a) for a in site.node.args] if self.cg.types is not None else []
                if not tys or any(t.any or not t.classes or any(c in ("builtins.str", "builtins.object") for c in t.classes) for t in tys):
                    out.append("TypeError")
                continue
            for suffix, excs, guard in TH.THROWS:
                if name == suffix or name.endswith("." + suffix) or name.endswith(suffix):
                    hit = (excs, guard)
                    break
            if hit is None:
                if name.startswith(TH.SILENT_PREFIXES) or name.endswith(TH.SILENT_SUFFIXES) or name.startswith(("dyn:", "callable:", "?")):
                    continue
                self.unclassified.add(name)
                continue
            excs, guard = hit
            for x in excs:
                if x.startswith("*"):
                    if guard and self._range_guarded(fn, site, guard):
                        self.guarded.append(f"{fn.short}: {name} ({x[1:]} excluded by a dominating range check of `{guard}`)")
                        continue
                    x = x[1:]
                out.append(x)
        return out

    def _range_guarded(self, fn: FunctionInfo, site: CallSite, argname: str) -> bool:
        """the argument `argname` of the constructor that produced the receiver (or of this call) is bounded on both sides by
        dominating comparisons whose out-of-range edge raises"""
        call = site.node
        target: Optional[ast.expr] = None
        if isinstance(call, ast.Call):
            for k in call.keywords:
                if k.arg == argname:
                    target = k.value
            if target is None and isinstance(call.func, ast.Attribute) and isinstance(call.func.value, ast.Name):
                # kdf.derive(...): look at the constructor call bound to the receiver
                rn = call.func.value.id
                for n in walk_no_nested_top(fn.node):
                    if isinstance(n, ast.Assign) and any(isinstance(t, ast.Name) and t.id == rn for t in n.targets) and isinstance(n.value, ast.Call):
                        for k in n.value.keywords:
                            if k.arg == argname:
                                target = k.value
            if target is None and isinstance(call.func, ast.Attribute) and isinstance(call.func.value, ast.Call):
                # PBKDF2HMAC(...).derive(...): the constructor call is the receiver itself
                for k in call.func.value.keywords:
                    if k.arg == argname:
                        target = k.value
        if target is None:
            return False
        txt = norm(target)
        cfg = cfg_of(fn)
        cn = cfg.node_of(call)
        if cn is None:
            return False
        lo = hi = False
        for t in cfg.nodes:
            if t.kind != "test" or not isinstance(t.ast, ast.Compare) or not cfg.dominates(t, cn):
                continue
            c = t.ast
            operands = [c.left] + list(c.comparators)
            ops = list(c.ops)
            for i, op in enumerate(ops):
                a, b = operands[i], operands[i + 1]
                for x, y, o in ((a, b, op), (b, a, _flip(op))):
                    if norm(x) != txt:
                        continue
                    v = self._const_int(fn, y)
                    if v is None:
                        continue
                    # x o v
                    bad_true = None
                    if isinstance(o, (ast.Lt, ast.LtE)):
                        bad_true = "lo" if (v >= 1 if isinstance(o, ast.Lt) else v >= 0) else None
                    elif isinstance(o, (ast.Gt, ast.GtE)):
                        bad_true = "hi" if v < 2 ** 31 else None
                    if bad_true is None:
                        continue
                    # out-of-range (test true) must only raise
                    from .rules.common import can_reach_exit, succ_by_label
                    if len(ops) == 1 and not can_reach_exit(cfg, succ_by_label(cfg, t, "true")):
                        if bad_true == "lo":
                            lo = True
                        else:
                            hi = True
        return lo and hi

    def _const_int(self, fn: FunctionInfo, e: ast.expr) -> Optional[int]:
        if isinstance(e, ast.Constant) and isinstance(e.value, int) and not isinstance(e.value, bool):
            return e.value
        try:
            from .fold import Folder
            f = self.__dict__.setdefault("_folder", Folder(self.prog))
            env = {}
            if fn.cls is not None and fn.self_name:
                from .fold import ClassVal
                env[fn.self_name] = ClassVal(fn.cls)
            v = f.expr(e, env, fn.module)
            if isinstance(v, int) and not isinstance(v, bool):
                return v
        except Exception:
            return None
        return None

    # ------------------------------------------------------------------ summaries
    def escapes(self, fn: FunctionInfo) -> Set[Esc]:
        if fn in self.stop:
            return set()
        k = id(fn)
        if k in self._round_done or k in self._in_progress:
            return self._sum.get(k, set())
        self._in_progress.add(k)
        try:
            res = self._block(fn, fn.body, None, None)
        finally:
            self._in_progress.discard(k)
        self._round_done.add(k)
        if res != self._sum.get(k):
            self._changed = True
            self._sum[k] = res
        return res

    def solve(self, roots: Iterable[FunctionInfo]) -> int:
        roots = list(roots)
        rounds = 0
        for _ in range(20):
            rounds += 1
            self._changed = False
            self._round_done = set()
            for r in roots:
                self.escapes(r)
            if not self._changed:
                break
        return rounds

    def summary(self, fn: FunctionInfo) -> Set[Esc]:
        return self._sum.get(id(fn), set())

    # ------------------------------------------------------------------ statements
    def _block(self, fn, body: List[ast.stmt], caught: Optional[Set[Esc]], hname: Optional[str]) -> Set[Esc]:
        out: Set[Esc] = set()
        for st in body:
            out |= self._stmt(fn, st, caught, hname)
        return out

    def _stmt(self, fn, st: ast.stmt, caught: Optional[Set[Esc]], hname: Optional[str]) -> Set[Esc]:
        if isinstance(st, (ast.FunctionDef, ast.AsyncFunctionDef, ast.ClassDef)):
            return set()
        if isinstance(st, ast.Try):
            inner = self._block(fn, st.body, caught, hname)
            out: Set[Esc] = set()
            per_handler: List[Set[Esc]] = [set() for _ in st.handlers]
            for e in inner:
                anc = self.ancestors(e.exc)
                took = False
                for i, h in enumerate(st.handlers):
                    names = self._handler_classes(fn, h)
                    if "*" in names or any(n in anc for n in names):
                        per_handler[i].add(e)
                        took = True
                        break
                if not took:
                    out.add(e)
            for i, h in enumerate(st.handlers):
                out |= self._block(fn, h.body, per_handler[i], h.name)
            out |= self._block(fn, st.orelse, caught, hname)
            out |= self._block(fn, st.finalbody, caught, hname)
            return out
        if isinstance(st, ast.Raise):
            out = self._exprs(fn, st, caught, hname)
            if st.exc is None:
                return out | (caught or set())
            if isinstance(st.exc, ast.Name) and hname is not None and st.exc.id == hname:
                return out | (caught or set())
            cands = self._raised_classes(fn, st.exc)
            for cname in cands:
                out.add(Esc(cname, fn.short, norm(st)[:80], st.lineno))
            return out
        if isinstance(st, ast.Assert):
            out = self._exprs(fn, st, caught, hname)
            out.add(Esc("AssertionError", fn.short, norm(st)[:80], st.lineno))
            return out
        if isinstance(st, (ast.If, ast.While)):
            out = self._exprs(fn, st.test, caught, hname)
            dead = self._dead_branch(fn, st.test) if isinstance(st, ast.If) else None
            if dead != "true":
                out |= self._block(fn, st.body, caught, hname)
            if dead != "false":
                out |= self._block(fn, st.orelse, caught, hname)
            return out
        if isinstance(st, (ast.For, ast.AsyncFor)):
            out = self._exprs(fn, st.iter, caught, hname)
            out |= self._block(fn, st.body, caught, hname)
            out |= self._block(fn, st.orelse, caught, hname)
            return out
        if isinstance(st, (ast.With, ast.AsyncWith)):
            out = set()
            for it in st.items:
                out |= self._exprs(fn, it.context_expr, caught, hname)
            out |= self._block(fn, st.body, caught, hname)
            return out
        return self._exprs(fn, st, caught, hname)

    def _dead_branch(self, fn, test: ast.AST) -> Optional[str]:
        """'true' / 'false' when the type-checked program shows that branch of `[not] isinstance(x, T)` cannot be taken (a defensive check that never
        triggers: the static type of x is exactly one of the builtin classes tested for); None otherwise"""
        neg = False
        t = test
        if isinstance(t, ast.UnaryOp) and isinstance(t.op, ast.Not):
            t, neg = t.operand, True
        if not (isinstance(t, ast.Call) and isinstance(t.func, ast.Name) and t.func.id == "isinstance" and len(t.args) == 2) or self.cg.types is None:
            return None
        cls = t.args[1].elts if isinstance(t.args[1], ast.Tuple) else [t.args[1]]
        names = {f"builtins.{c.id}" for c in cls if isinstance(c, ast.Name) and c.id in ("bytes", "str", "dict", "list", "int", "tuple", "bool", "bytearray", "float")}
        if len(names) != len(cls):
            return None
        td = self.cg.types.of(fn.module, t.args[0])
        if td.any or not td.classes or getattr(td, "optional", False) or not all(c in names for c in td.classes):
            return None
        return "true" if neg else "false"

    def _handler_classes(self, fn, h: ast.ExceptHandler) -> List[str]:
        if h.type is None:
            return ["*"]
        elts = h.type.elts if isinstance(h.type, ast.Tuple) else [h.type]
        return [self.class_name(fn, e) for e in elts]

    def _exprs(self, fn, root: ast.AST, caught, hname) -> Set[Esc]:
        out: Set[Esc] = set()
        for n in walk_no_nested_top(root):
            site = self.cg.site_of.get(id(n))
            if site is None:
                continue
            for c in site.callees:
                if c.is_abstract:
                    continue
                out |= self.escapes(c)
            if site.ext and isinstance(n, ast.Call):
                for x in self.ext_throws(fn, site):
                    out.add(Esc(self.canon(x), fn.short, norm(n)[:80], getattr(n, "lineno", 0)))
        return out


def _flip(op: ast.cmpop) -> ast.cmpop:
    return {ast.Lt: ast.Gt, ast.LtE: ast.GtE, ast.Gt: ast.Lt, ast.GtE: ast.LtE}.get(type(op), type(op))()
