"""S5 - path-condition truth tables for small decision functions.

Every entry->exit path of the CFG is a conjunction of branch literals over *atoms* (recognised test
expressions).  For each of the 2^k assignments we collect the outcomes of the consistent paths and compare
them with a specified boolean function.  No solver: paths are conjunctions, matching is set inclusion."""
from __future__ import annotations
import ast
import itertools
from dataclasses import dataclass
from typing import Callable, Dict, List, Optional, Sequence, Tuple

from .program import AnalysisError, FunctionInfo, norm
from .cfg import CFG, CNode, cfg_of


@dataclass
class PathOutcome:
    literals: Dict[str, bool]  # atom name -> required truth value
    kind: str  # 'return' | 'raise' | 'fall'
    node: Optional[CNode]
    exc: str = ""  # name of the raised class (unparsed constructor)
    unknown: List[str] = None  # type: ignore[assignment]


AtomFn = Callable[[ast.AST], Optional[Tuple[str, bool]]]
"""maps a test expression to (atom name, polarity) - polarity False means the expression is the negation"""


def raised_name(st: ast.AST) -> str:
    if isinstance(st, ast.Assert):
        return "AssertionError"
    if isinstance(st, ast.Raise):
        e = st.exc
        if e is None:
            return "<reraise>"
        if isinstance(e, ast.Call):
            e = e.func
        return norm(e)
    return "?"


def _pure_expr(e: ast.AST) -> bool:
    if isinstance(e, (ast.Constant, ast.Name)):
        return True
    if isinstance(e, ast.Attribute):
        return _pure_expr(e.value)
    if isinstance(e, ast.Subscript):
        return _pure_expr(e.value) and _pure_expr(e.slice)
    if isinstance(e, (ast.Tuple, ast.List)):
        return all(_pure_expr(x) for x in e.elts)
    if isinstance(e, ast.Compare):
        return _pure_expr(e.left) and all(_pure_expr(c) for c in e.comparators)
    if isinstance(e, ast.BoolOp):
        return all(_pure_expr(v) for v in e.values)
    if isinstance(e, ast.UnaryOp):
        return _pure_expr(e.operand)
    if isinstance(e, ast.Call) and isinstance(e.func, ast.Name) and e.func.id in ("isinstance", "len", "bool", "callable", "hasattr", "getattr"):
        return all(_pure_expr(a) for a in e.args)
    if isinstance(e, ast.Call) and isinstance(e.func, ast.Attribute) and e.func.attr == "get" and not e.keywords and 1 <= len(e.args) <= 2 \
            and all(isinstance(a, ast.Constant) for a in e.args):
        return _pure_expr(e.func.value)  # mapping.get(<constant>[, <constant>]) reads, it does not write
    return False


def _subst(e: ast.AST, env: Dict[str, ast.AST]) -> ast.AST:
    import copy

    class S(ast.NodeTransformer):
        def visit_Name(self, n: ast.Name):
            if isinstance(n.ctx, ast.Load) and n.id in env:
                return copy.deepcopy(env[n.id])
            return n
    return S().visit(copy.deepcopy(e))


def _bind(env: Dict[str, ast.AST], target: ast.AST, value: ast.AST, params) -> None:
    if isinstance(target, ast.Name):
        v = _subst(value, env) if env else value
        if _pure_expr(v) and target.id not in params and not any(isinstance(x, ast.Name) and x.id == target.id for x in ast.walk(v)):
            env[target.id] = v
        else:
            env.pop(target.id, None)
        # a binding that mentions a name re-bound later would go stale: drop bindings that mention this target
        for k in [k for k, vv in env.items() if k != target.id and any(isinstance(x, ast.Name) and x.id == target.id for x in ast.walk(vv))]:
            env.pop(k, None)
    elif isinstance(target, ast.Tuple) and isinstance(value, ast.Tuple) and len(target.elts) == len(value.elts):
        vals = [_subst(v, env) if env else v for v in value.elts]
        for t_, v in zip(target.elts, vals):
            if isinstance(t_, ast.Name) and _pure_expr(v) and t_.id not in params:
                env[t_.id] = v
            elif isinstance(t_, ast.Name):
                env.pop(t_.id, None)
    else:
        for x in ast.walk(target):
            if isinstance(x, ast.Name):
                env.pop(x.id, None)


def outcomes(fn: FunctionInfo, atom_of: AtomFn, max_nodes: int = 60) -> List[PathOutcome]:
    cfg = cfg_of(fn)
    params = set(fn.params)
    if len(cfg.nodes) > max_nodes:
        raise AnalysisError(f"decision function {fn.short} too large for a truth table ({len(cfg.nodes)} nodes)")
    res: List[PathOutcome] = []
    for path in cfg.paths(max_visits=1):
        lits: Dict[str, bool] = {}
        unknown: List[str] = []
        consistent = True
        last_stmt: Optional[CNode] = None
        env: Dict[str, ast.AST] = {}  # locals bound on this path to a pure expression (path-sensitive: `permitted = self.allowed` on one branch)
        for n, lab in path:
            if n.kind == "stmt" and isinstance(n.ast, ast.Assign) and len(n.ast.targets) == 1:
                _bind(env, n.ast.targets[0], n.ast.value, params)
            elif n.kind == "stmt" and isinstance(n.ast, (ast.AugAssign, ast.AnnAssign, ast.For, ast.With, ast.Delete)):
                for x in ast.walk(n.ast):
                    if isinstance(x, ast.Name) and isinstance(x.ctx, (ast.Store, ast.Del)):
                        env.pop(x.id, None)
            if n.kind == "test" and lab in ("true", "false"):
                t_ast = _subst(n.ast, env) if env else n.ast
                a = atom_of(t_ast)  # type: ignore[arg-type]
                if a is None and t_ast is not n.ast:
                    a = atom_of(n.ast)  # type: ignore[arg-type]
                if a is None:
                    unknown.append(norm(n.ast))
                    continue
                name, pol = a
                val = (lab == "true") == pol
                if name in lits and lits[name] != val:
                    consistent = False
                    break
                lits[name] = val
            if n.kind == "stmt":
                last_stmt = n
        if not consistent:
            continue
        end, _ = path[-1]
        if end is cfg.exit:
            kind = "return" if last_stmt is not None and isinstance(last_stmt.ast, ast.Return) else "fall"
            res.append(PathOutcome(lits, kind, last_stmt, "", unknown))
        else:
            res.append(PathOutcome(lits, "raise", last_stmt, raised_name(last_stmt.ast) if last_stmt is not None else "?", unknown))
    return res


def truth_table(fn: FunctionInfo, atoms: Sequence[str], atom_of: AtomFn) -> Dict[Tuple[bool, ...], List[PathOutcome]]:
    outs = outcomes(fn, atom_of)
    table: Dict[Tuple[bool, ...], List[PathOutcome]] = {}
    for vals in itertools.product([False, True], repeat=len(atoms)):
        env = dict(zip(atoms, vals))
        table[vals] = [o for o in outs if all(env.get(k, v) == v for k, v in o.literals.items())]
    return table


@dataclass
class CallView:
    literals: Dict[str, bool]
    unknown: List[str]
    call: ast.Call  # the call as written
    args: List[ast.AST]  # positional arguments with the locals bound on this path substituted
    keywords: Dict[str, ast.AST]
    node: CNode


def call_views(fn: FunctionInfo, atom_of: AtomFn, pred: Callable[[ast.Call], bool], max_nodes: int = 80) -> Tuple[List[CallView], int]:
    """Path-sensitive view of selected call sites: for every consistent entry->exit path, every call accepted by `pred` with its
    arguments rewritten by the pure local bindings in force on that path (parameters re-bound on the path included).  Returns the
    views and the number of consistent paths that reach an exit WITHOUT passing any such call."""
    cfg = cfg_of(fn)
    if len(cfg.nodes) > max_nodes:
        raise AnalysisError(f"{fn.short} too large for a path view ({len(cfg.nodes)} nodes)")
    views: List[CallView] = []
    without = 0
    for path in cfg.paths(max_visits=1):
        lits: Dict[str, bool] = {}
        unknown: List[str] = []
        env: Dict[str, ast.AST] = {}
        consistent = True
        mine: List[CallView] = []
        for n, lab in path:
            if n.ast is not None and n.kind in ("stmt", "test"):
                for c in ast.walk(n.ast):
                    if isinstance(c, ast.Call) and pred(c):
                        mine.append(CallView(lits, unknown, c, [_subst(a, env) for a in c.args], {k.arg: _subst(k.value, env) for k in c.keywords if k.arg}, n))
            if n.kind == "stmt" and isinstance(n.ast, ast.Assign) and len(n.ast.targets) == 1:
                _bind(env, n.ast.targets[0], n.ast.value, ())
            elif n.kind == "stmt" and isinstance(n.ast, ast.AnnAssign) and n.ast.value is not None:
                _bind(env, n.ast.target, n.ast.value, ())
            elif n.kind == "stmt" and isinstance(n.ast, (ast.AugAssign, ast.AnnAssign, ast.For, ast.With, ast.Delete)):
                for x in ast.walk(n.ast):
                    if isinstance(x, ast.Name) and isinstance(x.ctx, (ast.Store, ast.Del)):
                        env.pop(x.id, None)
            if n.kind == "test" and lab in ("true", "false"):
                t_ast = _subst(n.ast, env) if env else n.ast
                a = atom_of(t_ast)  # type: ignore[arg-type]
                if a is None:
                    unknown.append(norm(t_ast))
                    continue
                name, pol = a
                val = (lab == "true") == pol
                if name in lits and lits[name] != val:
                    consistent = False
                    break
                lits[name] = val
        if not consistent:
            continue
        end, _ = path[-1]
        if end is cfg.exit and not mine:
            without += 1
        views.extend(mine)
    return views, without
