"""S5 - path-condition truth tables for small decision functions.

Every entry->exit path of the CFG is a conjunction of branch literals over *atoms* (recognised test
expressions).  For each of the 2^k assignments we collect the outcomes of the consistent paths and compare
them with a specified boolean function.  No solver: paths are conjunctions, matching is set inclusion."""
from __future__ import annotations
import ast
import itertools
from dataclasses import dataclass
from typing import Callable, Dict, List, Optional, Sequence, Tuple

from .program import AnalysisError, FunctionInfo, norm
from .cfg import CFG, CNode, cfg_of


@dataclass
class PathOutcome:
    literals: Dict[str, bool]  # atom name -> required truth value
    kind: str  # 'return' | 'raise' | 'fall'
    node: Optional[CNode]
    exc: str = ""  # name of the raised class (unparsed constructor)
    unknown: List[str] = None  # type: ignore[assignment]


AtomFn = Callable[[ast.AST], Optional[Tuple[str, bool]]]
"""maps a test expression to (atom name, polarity) - polarity False means the expression is the negation"""


def raised_name(st: ast.AST) -> str:
    if isinstance(st, ast.Assert):
        return "AssertionError"
    if isinstance(st, ast.Raise):
        e = st.exc
        if e is None:
            return "<reraise>"
        if isinstance(e, ast.Call):
            e = e.func
        return norm(e)
    return "?"


def outcomes(fn: FunctionInfo, atom_of: AtomFn, max_nodes: int = 60) -> List[PathOutcome]:
    cfg = cfg_of(fn)
    if len(cfg.nodes) > max_nodes:
        raise AnalysisError(f"decision function {fn.short} too large for a truth table ({len(cfg.nodes)} nodes)")
    res: List[PathOutcome] = []
    for path in cfg.paths(max_visits=1):
        lits: Dict[str, bool] = {}
        unknown: List[str] = []
        consistent = True
        last_stmt: Optional[CNode] = None
        for n, lab in path:
            if n.kind == "test" and lab in ("true", "false"):
                a = atom_of(n.ast)  # type: ignore[arg-type]
                if a is None:
                    unknown.append(norm(n.ast))
                    continue
                name, pol = a
                val = (lab == "true") == pol
                if name in lits and lits[name] != val:
                    consistent = False
                    break
                lits[name] = val
            if n.kind == "stmt":
                last_stmt = n
        if not consistent:
            continue
        end, _ = path[-1]
        if end is cfg.exit:
            kind = "return" if last_stmt is not None and isinstance(last_stmt.ast, ast.Return) else "fall"
            res.append(PathOutcome(lits, kind, last_stmt, "", unknown))
        else:
            res.append(PathOutcome(lits, "raise", last_stmt, raised_name(last_stmt.ast) if last_stmt is not None else "?", unknown))
    return res


def truth_table(fn: FunctionInfo, atoms: Sequence[str], atom_of: AtomFn) -> Dict[Tuple[bool, ...], List[PathOutcome]]:
    outs = outcomes(fn, atom_of)
    table: Dict[Tuple[bool, ...], List[PathOutcome]] = {}
    for vals in itertools.product([False, True], repeat=len(atoms)):
        env = dict(zip(atoms, vals))
        table[vals] = [o for o in outs if all(env.get(k, v) == v for k, v in o.literals.items())]
    return table
