"""Exact inlining of helper functions that the rule catalogue cannot know (C10 of the canonicalisation, runs before canon.py).

The rules speak about the functions of the reference tree (jv/spec/reference_functions.txt: every function of joserfc as of the commit the
rules were confirmed on).  A function that is NOT in that list is new: an "extract helper" refactoring, or a helper that a change introduced.
No rule can name it, so instead of treating its calls as opaque the engine replaces them by the helper's body, when that can be done exactly:

  * the helper is a module-level function of the same module (or a staticmethod-free plain def), without decorators, *args / **kwargs,
    nested definitions, yield, global / nonlocal, and it does not call itself;
  * its body is structured with returns in tail position only (guard style `if c: return A` followed by more code is rewritten to
    if / else first); no return inside a loop, try or with;
  * expression mode: the body is a single `return E` - the call is replaced by E with parameters substituted, when every argument is pure
    (names, attribute chains, constants, subscripts of those) or its parameter occurs exactly once in E and no other argument is impure;
  * statement mode: the call is the whole value of an assignment / return / expression statement, or the first thing evaluated in an `if`
    test / assignment value / return value - then the body is spliced in front of the statement, `return e` becomes an assignment to
    the target (or to a fresh temporary), the callee's locals are renamed apart, parameters are substituted (pure arguments of parameters
    that are never re-bound) or bound to fresh names in argument order.

Evaluation order and the set of evaluated expressions are unchanged by construction.  Copied nodes keep the positions they have in the
helper's body (the typed layer looks types up by position inside the same module); synthetic statements take the call's position.
Anything that does not fit stays a call."""
from __future__ import annotations
import ast
import copy
import os
from typing import Dict, List, Optional, Set, Tuple

_REF: Optional[Set[str]] = None


def reference_functions() -> Set[str]:
    global _REF
    if _REF is None:
        p = os.path.join(os.path.dirname(os.path.abspath(__file__)), "spec", "reference_functions.txt")
        with open(p) as fh:
            _REF = {ln.split("\t")[0].strip() for ln in fh if ln.strip() and not ln.startswith("#")}
    return _REF


def _pure(e: ast.AST) -> bool:
    if isinstance(e, ast.Constant):
        return True
    if isinstance(e, ast.Name):
        return True
    if isinstance(e, ast.Attribute):
        return _pure(e.value)
    if isinstance(e, ast.Subscript):
        return _pure(e.value) and isinstance(e.slice, ast.Constant)
    if isinstance(e, ast.Tuple) and isinstance(e.ctx, ast.Load):  # a display of constants (rows of a table handed to a helper)
        return all(isinstance(x, ast.Constant) or (isinstance(x, ast.Tuple) and all(isinstance(y, ast.Constant) for y in x.elts)) for x in e.elts)
    return False


_QUIET_CALLS = {"isinstance", "len", "str", "repr", "bool", "list", "set", "sorted", "tuple", "format", "type", "callable", "hasattr", "getattr", "int", "bytes"}


def _quiet(fn: ast.FunctionDef) -> bool:
    """the function body has no store to an attribute / subscript, no del, and calls only builtins of the list above, exception constructors in a raise, and
    `.get` / `.keys` / `.items` / `.startswith` / `.endswith` readers - nothing that could modify an object an argument expression reads"""
    raised = {id(x.exc) for x in ast.walk(fn) if isinstance(x, ast.Raise) and x.exc is not None}
    for x in ast.walk(fn):
        if isinstance(x, (ast.Attribute, ast.Subscript)) and isinstance(x.ctx, (ast.Store, ast.Del)):
            return False
        if isinstance(x, (ast.AugAssign, ast.Delete, ast.With, ast.Await)):
            return False
        if isinstance(x, ast.Call) and id(x) not in raised:
            if isinstance(x.func, ast.Name) and x.func.id in _QUIET_CALLS:
                continue
            if isinstance(x.func, ast.Attribute) and x.func.attr in ("get", "keys", "items", "values", "startswith", "endswith", "format", "join", "copy"):
                continue
            return False
    return True


class _Unsupported(Exception):
    pass


def _always_leaves(body: List[ast.stmt]) -> bool:
    """every path through body ends in return / raise"""
    if not body:
        return False
    last = body[-1]
    if isinstance(last, (ast.Return, ast.Raise)):
        return True
    if isinstance(last, ast.If):
        return _always_leaves(last.body) and _always_leaves(last.orelse)
    if isinstance(last, ast.Try) and not last.finalbody:
        return (_always_leaves(last.body) or (bool(last.orelse) and _always_leaves(last.orelse))) and all(_always_leaves(h.body) for h in last.handlers)
    return False


def _has_return(nodes: List[ast.stmt]) -> bool:
    return any(isinstance(x, ast.Return) for n in nodes for x in ast.walk(n))


def _structure(body: List[ast.stmt]) -> List[ast.stmt]:
    """rewrite guard-style early returns into if / else so that every return is in tail position; raise _Unsupported otherwise"""
    out: List[ast.stmt] = []
    for i, st in enumerate(body):
        rest = body[i + 1:]
        if isinstance(st, ast.Return):
            if rest:
                raise _Unsupported("code after return")
            out.append(st)
            return out
        if isinstance(st, ast.If):
            if _has_return([st]):
                b = _structure(st.body)
                if rest and _always_leaves(st.body) and not st.orelse:
                    o = _structure(rest)
                    new = ast.If(test=st.test, body=b, orelse=o)
                    out.append(ast.copy_location(new, st))
                    return out
                o = _structure(st.orelse) if st.orelse else []
                if rest:
                    if _always_leaves(st.body) and _always_leaves(st.orelse):
                        raise _Unsupported("dead code after if")
                    if st.orelse and _always_leaves(st.orelse) and not _has_return(st.body):
                        # if c: S else: return  ; rest   ->  if c: S; rest else: return
                        new = ast.If(test=st.test, body=b + _structure(rest), orelse=o)
                        out.append(ast.copy_location(new, st))
                        return out
                    # a return somewhere inside an arm that can also fall through: what follows is the tail of BOTH arms (tail duplication, exact)
                    if sum(1 for r_ in rest for _ in ast.walk(r_)) <= 250 and not any(isinstance(x, (ast.FunctionDef, ast.ClassDef, ast.Lambda)) for r_ in rest for x in ast.walk(r_)):
                        b2 = _structure(list(st.body) + [copy.deepcopy(r_) for r_ in rest])
                        o2 = _structure(list(st.orelse) + [copy.deepcopy(r_) for r_ in rest])
                        out.append(ast.copy_location(ast.If(test=st.test, body=b2, orelse=o2), st))
                        return out
                    raise _Unsupported("return in a non-tail if")
                new = ast.If(test=st.test, body=b, orelse=o)
                out.append(ast.copy_location(new, st))
                return out
            out.append(st)
            continue
        if isinstance(st, ast.Try) and _has_return([st]) and rest and not st.finalbody and not _has_return(st.body) and not _has_return(st.orelse) \
                and st.handlers and all(_always_leaves(h.body) for h in st.handlers):
            # every handler leaves: what follows the statement runs exactly when the body (and else part) completed, i.e. it is the tail of the else part
            st = ast.copy_location(ast.Try(body=st.body, handlers=st.handlers, orelse=list(st.orelse) + list(rest), finalbody=[]), st)
            rest = []
            nt = ast.Try(body=st.body, handlers=[ast.copy_location(ast.ExceptHandler(type=h.type, name=h.name, body=_structure(h.body)), h) for h in st.handlers],
                         orelse=_structure(st.orelse), finalbody=[])
            out.append(ast.copy_location(nt, st))
            return out
        if isinstance(st, ast.Try) and _has_return([st]):
            # a try statement in tail position whose returns are in tail position of its parts: `return e` inside the try body stays inside it
            if rest or _has_return(st.finalbody) or (st.orelse and _always_leaves(st.body)):
                raise _Unsupported("try with return not in tail position")
            nt = ast.Try(body=_structure(st.body), handlers=[ast.copy_location(ast.ExceptHandler(type=h.type, name=h.name, body=_structure(h.body)), h) for h in st.handlers],
                         orelse=_structure(st.orelse) if st.orelse else [], finalbody=st.finalbody)
            out.append(ast.copy_location(nt, st))
            return out
        if isinstance(st, (ast.For, ast.While, ast.Try, ast.With, ast.AsyncFor, ast.AsyncWith, ast.Match)) and _has_return([st]):
            raise _Unsupported("return inside loop / try / with")
        out.append(st)
    return out


def _static_generator(fn: ast.FunctionDef) -> bool:
    """a new generator whose body is nothing but `yield <name>` / `yield from <name>` statements enumerates a fixed sequence: it becomes
    `return (*a, b, c)` - the same elements in the same order (the operands are plain names / attribute chains, so evaluating them up front
    instead of one by one changes nothing a caller can see short of re-binding them during the iteration)"""
    if fn.decorator_list:
        return False
    body = list(fn.body)
    if body and isinstance(body[0], ast.Expr) and isinstance(body[0].value, ast.Constant) and isinstance(body[0].value.value, str):
        body = body[1:]
    if not body:
        return False
    elts: List[ast.expr] = []
    for st in body:
        if not (isinstance(st, ast.Expr) and isinstance(st.value, (ast.Yield, ast.YieldFrom)) and st.value.value is not None and _pure(st.value.value)):
            return False
        v = st.value.value
        elts.append(ast.Starred(value=v, ctx=ast.Load()) if isinstance(st.value, ast.YieldFrom) else v)
    ret = ast.copy_location(ast.Return(value=ast.Tuple(elts=elts, ctx=ast.Load())), body[0])
    ast.fix_missing_locations(ret)
    fn.body = [ret]
    return True


_YIELD = "__jv_yield"


def _generator_skeleton(fn: ast.FunctionDef) -> Optional[ast.FunctionDef]:
    """a new generator whose yields are all statements (`yield e` / `yield from e`), which never returns early: a copy of it in which every
    `yield e` is the placeholder `__jv_yield = e` (and `yield from e` a loop around one).  Splicing that copy into a `for x in gen(...): BODY`
    statement and putting `x = <placeholder value>; BODY` at each placeholder is the loop exactly - the body runs where the generator is
    suspended - provided BODY neither breaks nor continues."""
    ys = [x for x in ast.walk(fn) if isinstance(x, (ast.Yield, ast.YieldFrom))]
    if not ys or any(isinstance(x, ast.Return) for x in ast.walk(fn)):
        return None
    cp = copy.deepcopy(fn)
    ok = [True]

    class Y(ast.NodeTransformer):
        def visit_Expr(self, node: ast.Expr):
            v = node.value
            if isinstance(v, ast.Yield):
                val = v.value if v.value is not None else ast.Constant(value=None)
                if any(isinstance(x, (ast.Yield, ast.YieldFrom)) for x in ast.walk(val)):
                    ok[0] = False
                return ast.copy_location(ast.Assign(targets=[ast.Name(id=_YIELD, ctx=ast.Store())], value=val, type_comment=None), node)
            if isinstance(v, ast.YieldFrom):
                if any(isinstance(x, (ast.Yield, ast.YieldFrom)) for x in ast.walk(v.value)):
                    ok[0] = False
                inner = ast.Assign(targets=[ast.Name(id=_YIELD, ctx=ast.Store())], value=ast.Name(id=_YIELD + "_from", ctx=ast.Load()), type_comment=None)
                return ast.copy_location(ast.For(target=ast.Name(id=_YIELD + "_from", ctx=ast.Store()), iter=v.value, body=[inner], orelse=[], type_comment=None), node)
            return node

        def visit_Lambda(self, node):
            return node

    cp = Y().visit(cp)
    if not ok[0] or any(isinstance(x, (ast.Yield, ast.YieldFrom)) for x in ast.walk(cp)):
        return None  # a yield used as an expression (its value is what send() passes in)
    ast.fix_missing_locations(cp)
    return cp


def _inlinable(fn: ast.FunctionDef, method: bool = False) -> Optional[List[ast.stmt]]:
    decs = [ast.unparse(d) for d in fn.decorator_list]
    if (decs and not (method and decs in (["staticmethod"], ["classmethod"]))) or fn.args.kwarg or fn.args.posonlyargs:
        return None
    if fn.args.vararg is not None:
        # `*rest` is fine when the body only ever spreads it into calls again (`mode_cls(*rest)`): the call site's arguments are written there
        va = fn.args.vararg.arg
        spreads = {id(x.value) for c in ast.walk(fn) if isinstance(c, ast.Call) for x in c.args if isinstance(x, ast.Starred) and isinstance(x.value, ast.Name) and x.value.id == va}
        if any(isinstance(x, ast.Name) and x.id == va and id(x) not in spreads for b in fn.body for x in ast.walk(b)) or fn.args.kwonlyargs:
            return None
    for d in fn.args.defaults + [k for k in fn.args.kw_defaults if k is not None]:
        if not isinstance(d, ast.Constant):
            return None
    body = list(fn.body)
    if body and isinstance(body[0], ast.Expr) and isinstance(body[0].value, ast.Constant) and isinstance(body[0].value.value, str):
        body = body[1:]
    if not body:
        return None
    for x in ast.walk(fn):
        if x is not fn and isinstance(x, (ast.FunctionDef, ast.AsyncFunctionDef, ast.Lambda, ast.ClassDef, ast.Yield, ast.YieldFrom, ast.Global, ast.Nonlocal, ast.Await)):
            return None
        if isinstance(x, ast.Call) and isinstance(x.func, ast.Name) and x.func.id == fn.name:
            return None
        if isinstance(x, ast.Call) and isinstance(x.func, ast.Attribute) and x.func.attr == fn.name:
            return None
        if method and isinstance(x, ast.Call) and isinstance(x.func, ast.Name) and x.func.id == "super":
            return None
        if isinstance(x, ast.Name) and x.id in ("locals", "vars", "globals"):
            return None
    try:
        return _structure(body)
    except _Unsupported:
        return None


class _Subst(ast.NodeTransformer):
    def __init__(self, mapping: Dict[str, ast.expr], rename: Dict[str, str]):
        self.mapping = mapping
        self.rename = rename

    def visit_Name(self, node: ast.Name):
        if node.id in self.mapping and isinstance(node.ctx, ast.Load):
            return copy.deepcopy(self.mapping[node.id])
        if node.id in self.rename:
            nn = ast.copy_location(ast.Name(id=self.rename[node.id], ctx=node.ctx), node)
            if hasattr(node, "_jv_module"):
                nn._jv_module = node._jv_module  # type: ignore[attr-defined]
            return nn
        return node

    def visit_ExceptHandler(self, node: ast.ExceptHandler):
        self.generic_visit(node)
        if node.name and node.name in self.rename:
            node.name = self.rename[node.name]
        return node


def _only_called(body: List[ast.stmt], p: str, lam: ast.Lambda) -> bool:
    """every use of parameter p in the helper body is a call `p(a1, ..)` with as many plain positional arguments (names / constants) as the lambda has
    plain parameters"""
    la = lam.args
    if la.vararg or la.kwarg or la.kwonlyargs or la.posonlyargs or la.defaults:
        return False
    if any(isinstance(x, (ast.Lambda, ast.NamedExpr, ast.Yield, ast.YieldFrom, ast.Await)) for x in ast.walk(lam.body)):
        return False
    uses = [x for st in body for x in ast.walk(st) if isinstance(x, ast.Name) and x.id == p]
    calls = [x for st in body for x in ast.walk(st) if isinstance(x, ast.Call) and isinstance(x.func, ast.Name) and x.func.id == p]
    if not uses or len(uses) != len(calls):
        return False
    return all(not c.keywords and len(c.args) == len(la.args) and all(isinstance(a, (ast.Name, ast.Constant)) for a in c.args) for c in calls)


class _SpreadStars(ast.NodeTransformer):
    """`f(*(a, b))` is `f(a, b)`"""
    def visit_Call(self, n: ast.Call):
        self.generic_visit(n)
        if any(isinstance(a, ast.Starred) and isinstance(a.value, ast.Tuple) for a in n.args):
            new_args: List[ast.expr] = []
            for a in n.args:
                if isinstance(a, ast.Starred) and isinstance(a.value, ast.Tuple):
                    new_args.extend(a.value.elts)
                else:
                    new_args.append(a)
            n.args = new_args
        return n


class _BetaCalls(ast.NodeTransformer):
    """`(lambda a: E)(x)` with plain names / constants as arguments is E with them in place"""
    def visit_Call(self, n: ast.Call):
        self.generic_visit(n)
        f = n.func
        if isinstance(f, ast.Lambda) and not n.keywords and len(n.args) == len(f.args.args) and all(isinstance(a, (ast.Name, ast.Constant)) for a in n.args) \
                and not (f.args.defaults or f.args.vararg or f.args.kwarg or f.args.kwonlyargs or f.args.posonlyargs):
            m = {q.arg: a for q, a in zip(f.args.args, n.args)}

            class S(ast.NodeTransformer):
                def visit_Name(self, x: ast.Name):
                    return ast.copy_location(copy.deepcopy(m[x.id]), x) if x.id in m and isinstance(x.ctx, ast.Load) else x
            return ast.copy_location(S().visit(copy.deepcopy(f.body)), n)
        return n


def _bind(fn: ast.FunctionDef, call: ast.Call, recv: Optional[ast.expr] = None) -> Optional[Dict[str, ast.expr]]:
    params = [a.arg for a in fn.args.args] + [a.arg for a in fn.args.kwonlyargs]
    pos = [a.arg for a in fn.args.args]
    if recv is not None:
        if not pos:
            return None
        call = ast.Call(func=call.func, args=[recv] + list(call.args), keywords=call.keywords)
    if any(isinstance(a, ast.Starred) for a in call.args) or any(k.arg is None for k in call.keywords) or (len(call.args) > len(pos) and fn.args.vararg is None):
        return None
    got: Dict[str, ast.expr] = {}
    if fn.args.vararg is not None:
        extra = list(call.args[len(pos):])
        if not all(isinstance(a, (ast.Name, ast.Constant)) for a in extra):
            return None
        got[fn.args.vararg.arg] = ast.Tuple(elts=extra, ctx=ast.Load())
        call = ast.Call(func=call.func, args=list(call.args[:len(pos)]), keywords=call.keywords)
    for p, a in zip(pos, call.args):
        got[p] = a
    for k in call.keywords:
        if k.arg not in params or k.arg in got:
            return None
        got[k.arg] = k.value
    nd = len(fn.args.defaults)
    for i, p in enumerate(pos):
        if p not in got:
            j = i - (len(pos) - nd)
            if j < 0:
                return None
            got[p] = fn.args.defaults[j]
    for a, d in zip(fn.args.kwonlyargs, fn.args.kw_defaults):
        if a.arg not in got:
            if d is None:
                return None
            got[a.arg] = d
    return got


def _tag(node: ast.AST, module: str) -> None:
    """nodes copied from another module remember where their positions (and types) belong"""
    for x in ast.walk(node):
        if not hasattr(x, "_jv_module"):
            x._jv_module = module  # type: ignore[attr-defined]


def _abs_from(module: str, is_pkg: bool, node: ast.ImportFrom) -> str:
    if node.level == 0:
        m = node.module or ""
        return m[len("joserfc."):] if m.startswith("joserfc.") else ("" if m == "joserfc" else "!" + m)
    base = module.split(".") if module else []
    if not is_pkg and base:
        base = base[:-1]
    if node.level > 1:
        base = base[: len(base) - (node.level - 1)]
    if node.module:
        base = base + node.module.split(".")
    return ".".join(base)


def module_bindings(tree: ast.Module, module: str, is_pkg: bool) -> Dict[str, Tuple[str, ...]]:
    """what each module-level name of a module denotes: ('ext', dotted) / ('pkg', module, name) / ('mod', module)"""
    out: Dict[str, Tuple[str, ...]] = {}
    for st in tree.body:
        if isinstance(st, ast.Import):
            for a in st.names:
                nm = a.asname or a.name.split(".")[0]
                out[nm] = ("ext", a.name if a.asname else a.name.split(".")[0])
        elif isinstance(st, ast.ImportFrom):
            tgt = _abs_from(module, is_pkg, st)
            for a in st.names:
                if tgt.startswith("!"):
                    out[a.asname or a.name] = ("ext", tgt[1:] + "." + a.name)
                else:
                    out[a.asname or a.name] = ("pkg", tgt, a.name)
        elif isinstance(st, (ast.FunctionDef, ast.AsyncFunctionDef, ast.ClassDef)):
            out[st.name] = ("pkg", module, st.name)
        elif isinstance(st, (ast.Assign, ast.AnnAssign)):
            tg = st.targets if isinstance(st, ast.Assign) else [st.target]
            for t_ in tg:
                for x in ast.walk(t_):
                    if isinstance(x, ast.Name):
                        out[x.id] = ("pkg", module, x.id)
    return out


def _free_globals(fn: ast.FunctionDef) -> Set[str]:
    params = {a.arg for a in fn.args.args + fn.args.kwonlyargs}
    stores = {x.id for x in ast.walk(fn) if isinstance(x, ast.Name) and isinstance(x.ctx, (ast.Store, ast.Del))}
    for x in ast.walk(fn):
        if isinstance(x, ast.ExceptHandler) and x.name:
            stores.add(x.name)
    import builtins
    return {x.id for b in fn.body for x in ast.walk(b) if isinstance(x, ast.Name) and isinstance(x.ctx, ast.Load)} - params - stores - set(dir(builtins))


FACTORIES: Dict[Tuple[str, str], Tuple[ast.FunctionDef, ast.FunctionDef]] = {}


def _closure_factory(fn: ast.FunctionDef) -> Optional[ast.FunctionDef]:
    """`def make(a, b): def g(x): ...; return g` - a function whose whole body defines one closure and returns it: the closure"""
    if fn.decorator_list or fn.args.vararg or fn.args.kwarg or fn.args.posonlyargs:
        return None
    for d in fn.args.defaults + [k for k in fn.args.kw_defaults if k is not None]:
        if not isinstance(d, ast.Constant):
            return None
    body = [st for st in fn.body if not (isinstance(st, ast.Expr) and isinstance(st.value, ast.Constant))]
    if len(body) != 2 or not isinstance(body[0], ast.FunctionDef) or not (isinstance(body[1], ast.Return) and isinstance(body[1].value, ast.Name) and body[1].value.id == body[0].name):
        return None
    g = body[0]
    if g.decorator_list or any(isinstance(x, (ast.Nonlocal, ast.Global, ast.Yield, ast.YieldFrom, ast.Await)) for x in ast.walk(g)):
        return None
    params = {a.arg for a in fn.args.args + fn.args.kwonlyargs}
    # the closure must not re-bind what it captured, nor shadow it by a parameter of its own
    if any(isinstance(x, ast.Name) and x.id in params and isinstance(x.ctx, (ast.Store, ast.Del)) for x in ast.walk(g)):
        return None
    if params & {a.arg for a in ast.walk(g.args) if isinstance(a, ast.arg)}:
        return None
    if any(isinstance(x, ast.Name) and x.id == g.name for st in g.body for x in ast.walk(st)):
        return None
    return g


def package_helpers(parsed: List[Tuple[str, ast.Module]], ambiguous: Set[str]):
    """(module-level helpers by (module short name, function name), unique new methods by name) over the whole package"""
    ref = reference_functions()
    funcs: Dict[Tuple[str, str], Tuple[ast.FunctionDef, List[ast.stmt]]] = {}
    meths: Dict[str, Tuple[str, ast.FunctionDef, List[ast.stmt]]] = {}
    ref_names = {r.split(".")[-1] for r in ref if "." in r.split(":")[-1]}
    FACTORIES.clear()
    for module, tree in parsed:
        for st in tree.body:
            if isinstance(st, ast.FunctionDef) and f"{module}:{st.name}" not in ref:
                _static_generator(st)
                b = _inlinable(st)
                if b is not None:
                    funcs[(module, st.name)] = (st, b)
                elif _closure_factory(st) is not None:
                    FACTORIES[(module, st.name)] = (st, _closure_factory(st))  # type: ignore[assignment]
        for c in ast.walk(tree):
            if isinstance(c, ast.ClassDef):
                for st in c.body:
                    if isinstance(st, ast.FunctionDef) and f"{module}:{c.name}.{st.name}" not in ref and st.name not in ambiguous and not st.name.startswith("__") \
                            and [ast.unparse(d_) for d_ in st.decorator_list] in ([], ["classmethod"]) and st.name not in ref_names \
                            and not any(hasattr(t_, st.name) for t_ in (dict, list, str, bytes, set, tuple, int, float, object, bytearray)):
                        b = _inlinable(st, method=True)
                        if b is not None:
                            meths[st.name] = (module, st, b)
    return funcs, meths


class Inliner:
    def __init__(self, tree: ast.Module, module: str, ambiguous: Optional[Set[str]] = None, pkg_funcs=None, pkg_meths=None, is_package: bool = False,
                 pkg_bindings: Optional[Dict[str, Dict[str, Tuple[str, ...]]]] = None, self_ambiguous: Optional[Set[str]] = None):
        self.tree = tree
        self.module = module
        self_amb = ambiguous if self_ambiguous is None else self_ambiguous
        self.counter = 0
        ref = reference_functions()
        self.helpers: Dict[str, Tuple[ast.FunctionDef, List[ast.stmt]]] = {}
        self.gen_helpers: Dict[str, Tuple[ast.FunctionDef, List[ast.stmt]]] = {}  # new generator functions (skeletons), for `for x in g(..)` statements only
        self.gen_methods: Dict[Tuple[str, str], Tuple[ast.FunctionDef, List[ast.stmt]]] = {}
        self.keep: Set[str] = set()  # names some module of the package imports: never dropped
        self.pkg_bindings = pkg_bindings or {}
        self.mine = module_bindings(tree, module, is_package)
        self.inject: Dict[str, Tuple[str, ...]] = {}
        self.foreign: Dict[int, str] = {}  # id(FunctionDef) -> module it lives in, for helpers of other modules
        for st in tree.body:
            if isinstance(st, ast.FunctionDef) and f"{module}:{st.name}" not in ref:
                _static_generator(st)
                b = _inlinable(st)
                if b is not None:
                    self.helpers[st.name] = (st, b)
                else:
                    sk = _generator_skeleton(st)
                    bs = _inlinable(sk) if sk is not None else None
                    if sk is not None and bs is not None:
                        sk._jv_orig = st  # type: ignore[attr-defined]
                        self.gen_helpers[st.name] = (sk, bs)
        # helpers of other modules of the package, under the name they are imported by (`from .x import helper [as h]`)
        if pkg_funcs:
            base = module.split(".") if module else []
            if not is_package and base:
                base = base[:-1]
            for st in tree.body:
                if isinstance(st, ast.ImportFrom) and st.level >= 1:
                    b_ = base[: len(base) - (st.level - 1)] if st.level > 1 else list(base)
                    tgt = ".".join(b_ + (st.module.split(".") if st.module else []))
                    for a in st.names:
                        k = (tgt, a.name)
                        if k in pkg_funcs and (a.asname or a.name) not in self.helpers and self._namespace_ok(pkg_funcs[k][0], tgt):
                            self.helpers[a.asname or a.name] = pkg_funcs[k]
                            self.foreign[id(pkg_funcs[k][0])] = tgt
        # closure factories (own and imported ones): `f = make(a, b)` becomes the local function the factory would have returned
        self.factories: Dict[str, Tuple[ast.FunctionDef, ast.FunctionDef]] = {}
        for st in tree.body:
            if isinstance(st, ast.FunctionDef) and (module, st.name) in FACTORIES and FACTORIES[(module, st.name)][0] is st:
                self.factories[st.name] = FACTORIES[(module, st.name)]
        if FACTORIES:
            base = module.split(".") if module else []
            if not is_package and base:
                base = base[:-1]
            for st in tree.body:
                if isinstance(st, ast.ImportFrom) and st.level >= 1:
                    b_ = base[: len(base) - (st.level - 1)] if st.level > 1 else list(base)
                    tgt = ".".join(b_ + (st.module.split(".") if st.module else []))
                    for a in st.names:
                        k = (tgt, a.name)
                        if k in FACTORIES and (a.asname or a.name) not in self.factories and self._namespace_ok(
                                FACTORIES[k][0], tgt, _free_globals(FACTORIES[k][1]) - {x.arg for x in FACTORIES[k][0].args.args + FACTORIES[k][0].args.kwonlyargs}):
                            self.factories[a.asname or a.name] = FACTORIES[k]
                            self.foreign[id(FACTORIES[k][0])] = tgt
        # new methods, callable as self.m(...) / cls.m(...) from methods of the same class when no class of this module overrides them
        self.methods: Dict[Tuple[str, str], Tuple[ast.FunctionDef, List[ast.stmt]]] = {}
        classes = [st for st in ast.walk(tree) if isinstance(st, ast.ClassDef)]
        defined: Dict[str, int] = {}
        for c in classes:
            for st in c.body:
                if isinstance(st, ast.FunctionDef):
                    defined[st.name] = defined.get(st.name, 0) + 1
        for c in classes:
            for st in c.body:
                if isinstance(st, ast.FunctionDef) and f"{module}:{c.name}.{st.name}" not in ref and defined.get(st.name) == 1 and not (st.name.startswith("__") and st.name.endswith("__")) \
                        and st.name not in (self_amb or set()):
                    b = _inlinable(st, method=True)
                    if b is not None:
                        self.methods[(c.name, st.name)] = (st, b)
                if isinstance(st, ast.FunctionDef) and f"{module}:{c.name}.{st.name}" not in ref and defined.get(st.name) == 1 and not st.decorator_list \
                        and (not st.name.startswith("__") or not st.name.endswith("__")) and st.name not in (self_amb or set()) and (c.name, st.name) not in self.methods:
                    sk = _generator_skeleton(st)
                    bs = _inlinable(sk, method=True) if sk is not None else None
                    if sk is not None and bs is not None:
                        sk._jv_orig = st  # type: ignore[attr-defined]
                        self.gen_methods[(c.name, st.name)] = (sk, bs)
        self.cur_fn: Optional[ast.FunctionDef] = None
        self.cls_stack: List[Tuple[str, Optional[str]]] = []  # (class name, self / cls name of the method being processed)
        self.unique_methods: Dict[str, Tuple[ast.FunctionDef, List[ast.stmt]]] = {}
        ref_names = {r.split(".")[-1] for r in ref if "." in r.split(":")[-1]}
        for (cname_, mname), (fn_, b_) in self.methods.items():
            if not fn_.decorator_list and mname not in ref_names and mname not in (ambiguous or set()) and not any(hasattr(t_, mname) for t_ in (dict, list, str, bytes, set, tuple, int, float, object, bytearray)):
                self.unique_methods[mname] = (fn_, b_)
        # a new static method with a name no other class uses, called through any receiver (`self.m(..)` in a subclass): nothing is bound
        self.unique_static: Dict[str, Tuple[ast.FunctionDef, List[ast.stmt]]] = {}
        for (cname_, mname), (fn_, b_) in self.methods.items():
            if [ast.unparse(d) for d in fn_.decorator_list] == ["staticmethod"] and mname.startswith("_") and mname not in ref_names and mname not in (ambiguous or set()) \
                    and not any(hasattr(t_, mname) for t_ in (dict, list, str, bytes, set, tuple, int, float, object, bytearray)):
                self.unique_static[mname] = (fn_, b_)
        if pkg_meths:
            for mname, (mod_, fn_, b_) in pkg_meths.items():
                if mname not in self.unique_methods and (mod_ == module or self._namespace_ok(fn_, mod_)):
                    self.unique_methods[mname] = (fn_, b_)
                    if mod_ != module:
                        self.foreign[id(fn_)] = mod_
        self.inlined: List[str] = []
        self.removed: List[str] = []

    def _namespace_ok(self, fn: ast.FunctionDef, src_module: str, names: Optional[Set[str]] = None) -> bool:
        """every global name the foreign helper's body uses denotes the same thing here, or is unbound here (then the import is injected)"""
        src = self.pkg_bindings.get(src_module)
        if src is None:
            return False
        for nm in (_free_globals(fn) if names is None else names):
            theirs = src.get(nm)
            if theirs is None:
                return False  # not a builtin, not bound at module level there: something this does not model
            ours = self.mine.get(nm)
            if ours is None:
                self.inject.setdefault(nm, theirs)
            elif self._origin(ours) != self._origin(theirs):
                return False
        return True

    def _origin(self, b: Tuple[str, ...]) -> Tuple[str, ...]:
        """a package binding followed through re-exports (`from ..jws import CompactSignature` is rfc7515.model's class) to the module that defines the name"""
        seen = set()
        while b and b[0] == "pkg" and b not in seen:
            seen.add(b)
            nxt = self.pkg_bindings.get(b[1], {}).get(b[2])
            if nxt is None or nxt == b or nxt[0] != "pkg" or (nxt[1] == b[1] and nxt[2] == b[2]):
                break
            b = nxt
        return b

    def _callee(self, call: ast.Call) -> Optional[Tuple[ast.FunctionDef, List[ast.stmt], Optional[ast.expr]]]:
        """(function, structured body, receiver expression to bind to its first parameter or None)"""
        f = call.func
        if isinstance(f, ast.Name) and f.id in self.helpers:
            fn, body = self.helpers[f.id]
            return fn, body, None
        if isinstance(f, ast.Attribute) and isinstance(f.value, ast.Name) and (f.value.id, f.attr) in self.methods:
            # `ClassName.m(...)` naming the class itself: a new static method (nothing is bound), wherever the call stands
            fn, body = self.methods[(f.value.id, f.attr)]
            if [ast.unparse(d) for d in fn.decorator_list] == ["staticmethod"]:
                return fn, body, None
            if [ast.unparse(d) for d in fn.decorator_list] == ["classmethod"] and f.value.id in {c_.name for c_ in self.tree.body if isinstance(c_, ast.ClassDef)} \
                    and not any(isinstance(c_, ast.ClassDef) and any(isinstance(b_, ast.Name) and b_.id == f.value.id for b_ in c_.bases) for c_ in ast.walk(self.tree)):
                # `ClassName.make(...)` naming a class of this module that nothing here subclasses: `cls` is that class
                return fn, body, f.value
        if isinstance(f, ast.Attribute) and isinstance(f.value, ast.Name) and self.cls_stack:
            cname, sname = self.cls_stack[-1][0], self.cls_stack[-1][1]
            if sname is not None and f.value.id == sname and (cname, f.attr) in self.methods:
                fn, body = self.methods[(cname, f.attr)]
                decs = [ast.unparse(d) for d in fn.decorator_list]
                if decs == ["staticmethod"]:
                    return fn, body, None
                return fn, body, f.value
        if isinstance(f, ast.Attribute) and _pure(f.value) and f.attr in self.unique_static:
            fn, body = self.unique_static[f.attr]
            return fn, body, None
        # `x.m(...)` on any receiver, when m is a new instance method defined by exactly one class of the whole package and its name is not
        # an attribute of a builtin container / scalar type (so that the call cannot mean anything else)
        if isinstance(f, ast.Attribute) and _pure(f.value) and f.attr in self.unique_methods:
            fn, body = self.unique_methods[f.attr]
            if fn.decorator_list:
                # a class method: only `cls.m(...)` inside a class method (the receiver then IS the class the callee sees as cls)
                if not (self.cls_stack and self.cls_stack[-1][1] is not None and isinstance(f.value, ast.Name) and f.value.id == self.cls_stack[-1][1]
                        and len(self.cls_stack[-1]) > 2 and self.cls_stack[-1][2] == "classmethod"):
                    return None
            return fn, body, f.value
        return None

    # ------------------------------------------------------------------------------------------- expression mode
    def _module_attr(self, a: ast.expr) -> bool:
        """`zlib.decompressobj`: an attribute chain on a name this module binds by `import` (and no function re-binds): as good as a constant"""
        x = a
        while isinstance(x, ast.Attribute):
            x = x.value
        if not (isinstance(a, ast.Attribute) and isinstance(x, ast.Name)):
            return False
        b = self.mine.get(x.id)
        if b is None or b[0] != "ext":
            return False
        if self.cur_fn is not None and any(isinstance(n, ast.Name) and n.id == x.id and isinstance(n.ctx, (ast.Store, ast.Del)) for n in ast.walk(self.cur_fn)):
            return False
        return True

    def _expr_mode(self, call: ast.Call) -> Optional[ast.expr]:
        cal = self._callee(call)
        if cal is None:
            return None
        fn, body, recv = cal
        if not (len(body) == 1 and isinstance(body[0], ast.Return) and body[0].value is not None):
            return None
        got = _bind(fn, call, recv)
        if got is None:
            return None
        e = body[0].value
        stores = {x.id for x in ast.walk(e) if isinstance(x, ast.Name) and isinstance(x.ctx, ast.Store)}
        if stores:
            return None
        impure = [p for p, a in got.items() if not isinstance(a, (ast.Name, ast.Constant)) and not self._module_attr(a)]
        # (attribute / subscript arguments count as impure here: E may evaluate something in between that changes what they read)
        if impure:
            # exact only when there is a single impure argument, used exactly once, and it is the first thing E evaluates
            if len(impure) > 1:
                return None
            uses = [x for x in ast.walk(e) if isinstance(x, ast.Name) and x.id == impure[0]]
            if len(uses) != 1 or not _first_evaluated(e, uses[0]):
                return None
        ecopy = copy.deepcopy(e)
        if id(fn) in self.foreign:
            _tag(ecopy, self.foreign[id(fn)])
        new = _Subst(got, {}).visit(ecopy)
        if fn.args.vararg is not None:
            new = _SpreadStars().visit(new)
        self.inlined.append(fn.name)
        return new

    # ------------------------------------------------------------------------------------------- statement mode
    def _gen_callee(self, call: ast.Call):
        f = call.func
        if isinstance(f, ast.Name) and f.id in self.gen_helpers:
            fn, body = self.gen_helpers[f.id]
            return fn, body, None
        if isinstance(f, ast.Attribute) and isinstance(f.value, ast.Name) and self.cls_stack:
            cname, sname = self.cls_stack[-1][0], self.cls_stack[-1][1]
            if sname is not None and f.value.id == sname and (cname, f.attr) in self.gen_methods and self.cls_stack[-1][2] == "method":
                fn, body = self.gen_methods[(cname, f.attr)]
                return fn, body, f.value
        return None

    def _for_over_generator(self, st: ast.For) -> Optional[List[ast.stmt]]:
        """`for x in gen(...): BODY` with a new generator gen: the generator's body with `x = <yielded>; BODY` where it yields"""
        if st.orelse or not isinstance(st.iter, ast.Call):
            return None
        cal = self._gen_callee(st.iter)
        if cal is None:
            return None
        if any(isinstance(x, (ast.Break, ast.Continue, ast.Yield, ast.YieldFrom)) for b in st.body for x in ast.walk(b)):
            return None
        fn = cal[0]
        nyield = sum(1 for x in ast.walk(fn) if isinstance(x, ast.Assign) and isinstance(x.targets[0], ast.Name) and x.targets[0].id == _YIELD)
        if nyield * sum(1 for b in st.body for _ in ast.walk(b)) > 600:
            return None
        # names the loop body binds must not meet the generator's own locals (those are renamed apart by the splice) - and the generator must
        # not read a caller local the body re-binds: it cannot, its free names are globals
        sp = self._splice(st.iter, None, False, cal=cal)
        if sp is None:
            return None
        tgt, body = st.target, st.body
        # a loop variable nobody reads after the loop gets a name of its own at each yield (so that each is a single-assignment temporary)
        fresh = False
        if isinstance(tgt, ast.Name) and self.cur_fn is not None:
            inside = {id(x) for x in ast.walk(st)}
            fresh = not any(isinstance(x, ast.Name) and x.id == tgt.id and id(x) not in inside for x in ast.walk(self.cur_fn)) \
                and not any(isinstance(x, (ast.FunctionDef, ast.Lambda, ast.Global, ast.Nonlocal)) for b in body for x in ast.walk(b))
        inl = self

        class P(ast.NodeTransformer):
            def visit_Assign(self, node: ast.Assign):
                if len(node.targets) == 1 and isinstance(node.targets[0], ast.Name) and node.targets[0].id.startswith(_YIELD) and not node.targets[0].id.startswith(_YIELD + "_from"):
                    t_ = copy.deepcopy(tgt)
                    bs = [copy.deepcopy(b) for b in body]
                    if fresh:
                        inl.counter += 1
                        nn = f"{tgt.id}__y{inl.counter}"
                        t_ = ast.Name(id=nn, ctx=ast.Store())
                        for b in bs:
                            for x in ast.walk(b):
                                if isinstance(x, ast.Name) and x.id == tgt.id:
                                    x.id = nn
                    first = ast.copy_location(ast.Assign(targets=[t_], value=node.value, type_comment=None), st)
                    return [first] + bs
                return node

            def visit_FunctionDef(self, node):
                return node

        out: List[ast.stmt] = []
        for x in sp:
            r = P().visit(x)
            out.extend(r if isinstance(r, list) else [r])
        for x in out:
            ast.fix_missing_locations(x)
        return out

    def _splice(self, call: ast.Call, target: Optional[ast.expr], as_return: bool, cal=None) -> Optional[List[ast.stmt]]:
        cal = cal if cal is not None else self._callee(call)
        if cal is None:
            return None
        fn, body, recv = cal
        got = _bind(fn, call, recv)
        if got is None:
            return None
        self.counter += 1
        tag = f"__{fn.name.strip('_')}{self.counter}"
        assigned = {x.id for st in body for x in ast.walk(st) if isinstance(x, ast.Name) and isinstance(x.ctx, (ast.Store, ast.Del))}
        for st in body:
            for x in ast.walk(st):
                if isinstance(x, ast.ExceptHandler) and x.name:
                    assigned.add(x.name)
        params = list(got)
        rename = {n: n + tag for n in assigned}
        mapping: Dict[str, ast.expr] = {}
        pre: List[ast.stmt] = []
        for p in params:
            a = got[p]
            if (isinstance(a, (ast.Name, ast.Constant)) or self._module_attr(a)) and p not in assigned:
                mapping[p] = a  # a caller's local cannot be re-bound by the spliced body (its own locals are renamed apart)
            elif _pure(a) and p not in assigned and _quiet(fn):
                mapping[p] = a  # the body stores nothing and calls nothing that could change what the attribute chain reads
            elif fn.args.vararg is not None and p == fn.args.vararg.arg and p not in assigned:
                mapping[p] = a  # the tuple of the remaining (plain) arguments, spread again where the body spreads it
            elif isinstance(a, ast.Lambda) and p not in assigned and _only_called(body, p, a):
                mapping[p] = a  # a lambda handed to a helper that only calls it: `(lambda: E)()` at each call, reduced to E below
            else:
                rename[p] = p + tag
                pre.append(ast.copy_location(ast.Assign(targets=[ast.Name(id=p + tag, ctx=ast.Store())], value=a, lineno=call.lineno), call))
        # a pure argument that is substituted must not be re-bound by the spliced body (its value at the later use would differ)
        for p, a in mapping.items():
            for x in ast.walk(a):
                if isinstance(x, ast.Name) and x.id in rename.values():
                    return None

        def conv(stmts: List[ast.stmt]) -> List[ast.stmt]:
            out: List[ast.stmt] = []
            for st in stmts:
                if isinstance(st, ast.Return):
                    v = st.value if st.value is not None else ast.Constant(value=None)
                    v = _Subst(mapping, rename).visit(copy.deepcopy(v))
                    if as_return:
                        nn: ast.stmt = ast.Return(value=v)
                    elif target is not None:
                        if isinstance(target, ast.Name) and isinstance(v, ast.Name) and v.id == target.id:
                            nn = ast.Pass()  # `x = x`
                        elif isinstance(target, ast.Tuple) and isinstance(v, ast.Tuple) and len(v.elts) == len(target.elts) and all(isinstance(t_, ast.Name) for t_ in target.elts) \
                                and not any(isinstance(e_, ast.Starred) for e_ in v.elts):
                            # a, b = (e1, e2): every element is evaluated before any target is bound
                            self.counter += 1
                            tmps = [f"__tup{self.counter}_{i}" for i in range(len(v.elts))]
                            for tn, e_ in zip(tmps, v.elts):
                                a_ = ast.Assign(targets=[ast.Name(id=tn, ctx=ast.Store())], value=e_, lineno=st.lineno)
                                out.append(ast.copy_location(a_, st))
                            for tn, t_ in list(zip(tmps, target.elts))[:-1]:
                                a_ = ast.Assign(targets=[copy.deepcopy(t_)], value=ast.Name(id=tn, ctx=ast.Load()), lineno=st.lineno)
                                out.append(ast.copy_location(a_, st))
                            nn = ast.Assign(targets=[copy.deepcopy(target.elts[-1])], value=ast.Name(id=tmps[-1], ctx=ast.Load()), lineno=st.lineno)
                        else:
                            nn = ast.Assign(targets=[copy.deepcopy(target)], value=v, lineno=st.lineno)
                    else:
                        nn = ast.Expr(value=v)
                    nn._from_return = True  # type: ignore[attr-defined]
                    out.append(ast.copy_location(nn, st))
                elif isinstance(st, ast.If) and _has_return([st]):
                    t = _Subst(mapping, rename).visit(copy.deepcopy(st.test))
                    ni = ast.If(test=t, body=conv(st.body) or [ast.Pass()], orelse=conv(st.orelse))
                    ni._has_ret = True  # type: ignore[attr-defined]
                    out.append(ast.copy_location(ni, st))
                elif isinstance(st, ast.Try) and _has_return([st]):
                    hs = []
                    for h in st.handlers:
                        ht = _Subst(mapping, rename).visit(copy.deepcopy(h.type)) if h.type is not None else None
                        hs.append(ast.copy_location(ast.ExceptHandler(type=ht, name=rename.get(h.name, h.name) if h.name else None, body=conv(h.body) or [ast.Pass()]), h))
                    nt_ = ast.Try(body=conv(st.body) or [ast.Pass()], handlers=hs, orelse=conv(st.orelse), finalbody=[_Subst(mapping, rename).visit(copy.deepcopy(x)) for x in st.finalbody])
                    nt_._has_ret = True  # type: ignore[attr-defined]
                    out.append(ast.copy_location(nt_, st))
                else:
                    out.append(_Subst(mapping, rename).visit(copy.deepcopy(st)))
            return out

        if id(fn) in self.foreign:
            body = copy.deepcopy(body)
            for st_ in body:
                _tag(st_, self.foreign[id(fn)])
        res = conv(body)
        if any(isinstance(a_, ast.Lambda) for a_ in mapping.values()):
            res = [_BetaCalls().visit(s_) for s_ in res]
        if fn.args.vararg is not None:
            res = [_SpreadStars().visit(s_) for s_ in res]
        if not _always_leaves(body):
            # falling off the end returns None: returns are in tail position, so the value is supplied at every fall-through tail
            if as_return:
                res = _append_fallthrough(res, lambda: ast.copy_location(ast.Return(value=ast.Constant(value=None)), call))
            elif target is not None:
                res = _append_fallthrough(res, lambda: ast.copy_location(ast.Assign(targets=[copy.deepcopy(target)], value=ast.Constant(value=None), lineno=call.lineno), call))
        res = pre + res
        for s_ in res:
            ast.fix_missing_locations(s_)
        self.inlined.append(fn.name)
        return res

    def _fresh(self, call: ast.Call) -> ast.Name:
        self.counter += 1
        return ast.copy_location(ast.Name(id=f"__inl{self.counter}", ctx=ast.Store()), call)

    def process_block(self, body: List[ast.stmt]) -> List[ast.stmt]:
        out: List[ast.stmt] = []
        for st in body:
            out.extend(self.process_stmt(st))
        return out

    def process_stmt(self, st: ast.stmt) -> List[ast.stmt]:
        # recurse into compound statements first
        for fld in ("body", "orelse", "finalbody"):
            b = getattr(st, fld, None)
            if isinstance(b, list) and b and isinstance(b[0], ast.stmt):
                setattr(st, fld, self.process_block(b))
        if isinstance(st, ast.Try):
            for h in st.handlers:
                h.body = self.process_block(h.body)
        if isinstance(st, (ast.FunctionDef, ast.AsyncFunctionDef, ast.ClassDef)):
            return [st]
        fd = self._factory_to_def(st)
        if fd is not None:
            return [fd]
        lp = self._comp_to_loop(st)
        if lp is not None:
            return self.process_block(lp)
        # `if a and helper(x): S [else: T]`: the helper call sits in a conditional position; as nested ifs it is the first thing its own `if` evaluates
        if isinstance(st, ast.If) and isinstance(st.test, ast.BoolOp) and isinstance(st.test.op, ast.And) and len(st.test.values) >= 2 \
                and not any(isinstance(x, (ast.NamedExpr, ast.Yield, ast.YieldFrom, ast.Await)) for x in ast.walk(st.test)) \
                and any(isinstance(x, ast.Call) and self._callee(x) is not None for v_ in st.test.values[1:] for x in ast.walk(v_)) \
                and len(st.orelse) <= 3 and not any(isinstance(x, (ast.FunctionDef, ast.AsyncFunctionDef, ast.ClassDef, ast.Lambda)) for o_ in st.orelse for x in ast.walk(o_)):
            import copy as _copy
            rest = st.test.values[1:]
            inner_test = rest[0] if len(rest) == 1 else ast.copy_location(ast.BoolOp(op=ast.And(), values=rest), st.test)
            inner = ast.copy_location(ast.If(test=inner_test, body=st.body, orelse=_copy.deepcopy(st.orelse)), st)
            outer = ast.copy_location(ast.If(test=st.test.values[0], body=[inner], orelse=st.orelse), st)
            return self.process_block([outer])
        if isinstance(st, ast.For):
            lp = self._for_over_generator(st)
            if lp is not None:
                return self.process_block(lp)
        # whole-value forms
        if isinstance(st, ast.Assign) and len(st.targets) == 1 and isinstance(st.value, ast.Call) and (isinstance(st.targets[0], ast.Name) or (
                isinstance(st.targets[0], ast.Tuple) and all(isinstance(t_, ast.Name) for t_ in st.targets[0].elts))):
            r = self._try_expr(st.value)
            if r is None:
                sp = self._splice(st.value, st.targets[0], False)
                if sp is not None:
                    return self.process_block(sp)
        if isinstance(st, ast.AnnAssign) and st.value is not None and isinstance(st.value, ast.Call) and isinstance(st.target, ast.Name):
            r = self._try_expr(st.value)
            if r is None:
                sp = self._splice(st.value, st.target, False)
                if sp is not None:
                    return self.process_block(sp)
        if isinstance(st, ast.Return) and isinstance(st.value, ast.Call):
            r = self._try_expr(st.value)
            if r is None:
                sp = self._splice(st.value, None, True)
                if sp is not None:
                    return self.process_block(sp)
        if isinstance(st, ast.Expr) and isinstance(st.value, ast.Call):
            r = self._try_expr(st.value)
            if r is None:
                sp = self._splice(st.value, None, False)
                if sp is not None:
                    return self.process_block(sp)
        # expression-mode substitution anywhere in the statement's own expressions, then lifting of a first-evaluated helper call
        heads = _head_fields(st)
        for fld in heads:
            e = getattr(st, fld)
            if e is None:
                continue
            setattr(st, fld, self._rewrite_exprs(e))
        for fld in heads:
            e = getattr(st, fld)
            if e is None or isinstance(st, ast.While):
                continue
            # `make(...).method(...)` with a new method: the receiver is computed first - bind it, so that the method can be spliced on a plain name
            order = _eval_order(e)
            first = None
            for c in ast.walk(e):
                if isinstance(c, ast.Call) and isinstance(c.func, ast.Attribute) and isinstance(c.func.value, ast.Call) \
                        and (c.func.attr in self.unique_methods or c.func.attr in self.unique_static) and any(x is c.func.value for x in order):
                    R = c.func.value
                    inside = {id(y) for y in ast.walk(R)}
                    pos = [k for k, x in enumerate(order) if x is R][0]
                    if all(id(x) in inside for x in order[:pos]) and self._callee(R) is None:
                        first = R  # everything evaluated before the receiver is part of the receiver: it can be computed in a statement of its own
                        break
            if first is not None:
                owner = first
                if True:
                    tmp = self._fresh(first)
                    pre = ast.copy_location(ast.Assign(targets=[tmp], value=first, type_comment=None), st)
                    ast.fix_missing_locations(pre)
                    _replace_node(st, fld, first, ast.copy_location(ast.Name(id=tmp.id, ctx=ast.Load()), first))
                    return [pre] + self.process_stmt(st)
            break
        for fld in heads:
            e = getattr(st, fld)
            if e is None:
                continue
            call = self._first_helper_call(e)
            if call is not None and not isinstance(st, ast.While):
                tmp = self._fresh(call)
                sp = self._splice(call, tmp, False)
                if sp is not None:
                    _replace_node(st, fld, call, ast.copy_location(ast.Name(id=tmp.id, ctx=ast.Load()), call))
                    return self.process_block(sp) + self.process_stmt(st)
            break  # only the first head field is evaluated first
        return [st]

    def _factory_to_def(self, st: ast.stmt) -> Optional[ast.stmt]:
        """`f = make(a, b)` with a new closure factory `make`: the definition `def f(<closure parameters>): <closure body>` with the factory's
        parameters replaced by the arguments - names the caller never re-binds, or constants - which is the function object the call returns"""
        if isinstance(st, ast.Assign) and len(st.targets) == 1 and isinstance(st.targets[0], ast.Name):
            tgt, val = st.targets[0], st.value
        elif isinstance(st, ast.AnnAssign) and isinstance(st.target, ast.Name) and st.value is not None:
            tgt, val = st.target, st.value
        else:
            return None
        if self.cur_fn is not None and isinstance(val, ast.Call) and not val.keywords and val.args and isinstance(val.args[0], ast.Name) and val.args[0].id in self.helpers \
                and ((isinstance(val.func, ast.Name) and self.mine.get(val.func.id) == ("ext", "functools.partial"))
                     or (isinstance(val.func, ast.Attribute) and isinstance(val.func.value, ast.Name) and val.func.attr == "partial" and self.mine.get(val.func.value.id) == ("ext", "functools"))):
            # `f = partial(helper, a, b)`: the local function `def f(<the remaining parameters>): return helper(a, b, <them>)`
            hf, _hb = self.helpers[val.args[0].id]
            bound = val.args[1:]
            pos = hf.args.args
            if hf.args.vararg or hf.args.kwarg or hf.args.posonlyargs or hf.args.kwonlyargs or len(bound) > len(pos) or any(isinstance(a, ast.Starred) for a in bound):
                return None
            rebound = {x.id for x in ast.walk(self.cur_fn) if isinstance(x, ast.Name) and isinstance(x.ctx, (ast.Store, ast.Del))}
            if any(not (isinstance(a, ast.Constant) or (isinstance(a, ast.Name) and a.id not in rebound)) for a in bound):
                return None
            rest = pos[len(bound):]
            if {a.arg for a in rest} & {a.id for a in bound if isinstance(a, ast.Name)}:
                return None
            if sum(1 for x in ast.walk(self.cur_fn) if isinstance(x, ast.Name) and x.id == tgt.id and isinstance(x.ctx, (ast.Store, ast.Del))) != 1:
                return None
            nd = len(hf.args.defaults)
            defaults = [d for a, d in zip(pos[len(pos) - nd:], hf.args.defaults) if a in rest] if nd else []
            if any(not isinstance(d, ast.Constant) for d in defaults):
                return None
            call = ast.Call(func=ast.Name(id=val.args[0].id, ctx=ast.Load()), args=[copy.deepcopy(a) for a in bound] + [ast.Name(id=a.arg, ctx=ast.Load()) for a in rest], keywords=[])
            new = ast.FunctionDef(name=tgt.id, args=ast.arguments(posonlyargs=[], args=[ast.arg(arg=a.arg, annotation=None) for a in rest], vararg=None, kwonlyargs=[], kw_defaults=[],
                                                                   kwarg=None, defaults=[copy.deepcopy(d) for d in defaults]),
                                  body=[ast.Return(value=call)], decorator_list=[], returns=None, type_comment=None)
            ast.copy_location(new, st)
            ast.fix_missing_locations(new)
            new.body = self.process_block(new.body)
            return new
        if not (isinstance(val, ast.Call) and isinstance(val.func, ast.Name) and val.func.id in self.factories) or self.cur_fn is None:
            return None
        fac, g = self.factories[val.func.id]
        got = _bind(fac, val)
        if got is None:
            return None
        rebound = {x.id for x in ast.walk(self.cur_fn) if isinstance(x, ast.Name) and isinstance(x.ctx, (ast.Store, ast.Del))}
        for a in got.values():
            if isinstance(a, ast.Constant):
                continue
            if not (isinstance(a, ast.Name) and a.id not in rebound):
                return None
        # the closure's own names must not capture a caller name that is substituted in
        own = {x.id for x in ast.walk(g) if isinstance(x, ast.Name) and isinstance(x.ctx, ast.Store)} | {a.arg for a in ast.walk(g.args) if isinstance(a, ast.arg)}
        if own & {a.id for a in got.values() if isinstance(a, ast.Name)}:
            return None
        if sum(1 for x in ast.walk(self.cur_fn) if isinstance(x, ast.Name) and x.id == tgt.id and isinstance(x.ctx, (ast.Store, ast.Del))) != 1:
            return None
        new = copy.deepcopy(g)
        if id(fac) in self.foreign:
            _tag(new, self.foreign[id(fac)])
        new.name = tgt.id
        new.returns = None
        for a_ in ast.walk(new.args):
            if isinstance(a_, ast.arg):
                a_.annotation = None  # (names of the factory's module; the typed layer works from the source as written)
        new.body = [_Subst(got, {}).visit(b) for b in new.body]
        ast.copy_location(new, st)
        ast.fix_missing_locations(new)
        self.inlined.append(fac.name)
        return new

    _CONSUMERS = ("list", "tuple", "sorted", "set", "frozenset", "dict", "extend", "join", "update")

    def _comp_to_loop(self, st: ast.stmt) -> Optional[List[ast.stmt]]:
        """`v = [h(x) for x in it if c]` with a new helper h in the element: the comprehension becomes the loop it abbreviates (a fresh list, one
        append per element), so that the helper can be spliced like at any other call site.  Only where the comprehension is the first impure
        thing the statement evaluates; a generator expression only as the sole argument of a consumer that exhausts it at once."""
        if isinstance(st, (ast.If, ast.While)):
            return None
        heads = _head_fields(st)
        if not heads:
            return None
        e = getattr(st, heads[0])
        if e is None:
            return None
        comp = _first_comp(e, self._CONSUMERS)
        if comp is None or len(comp.generators) != 1 or comp.generators[0].is_async:
            return None
        g = comp.generators[0]
        if not any(isinstance(x, ast.Call) and self._callee(x) is not None for part in [comp.elt] + list(g.ifs) for x in ast.walk(part)):
            return None
        if any(isinstance(x, (ast.NamedExpr, ast.Yield, ast.YieldFrom, ast.Await, ast.Lambda)) for x in ast.walk(comp)):
            return None
        # the loop variable of a comprehension is its own; in loop form it must not meet a name of the enclosing function
        names = {x.id for x in ast.walk(g.target) if isinstance(x, ast.Name)}
        outer = set()
        if self.cur_fn is not None:
            inside = {id(x) for x in ast.walk(comp)}
            outer = {x.id for x in ast.walk(self.cur_fn) if isinstance(x, ast.Name) and id(x) not in inside} | {a.arg for a in ast.walk(self.cur_fn.args) if isinstance(a, ast.arg)}
        ren = {}
        for nm in names & outer:
            self.counter += 1
            ren[nm] = f"{nm}__c{self.counter}"
        if ren:
            class Rn(ast.NodeTransformer):
                def visit_Name(self, node):
                    if node.id in ren:
                        return ast.copy_location(ast.Name(id=ren[node.id], ctx=node.ctx), node)
                    return node
            g.target = Rn().visit(g.target)
            comp.elt = Rn().visit(comp.elt)
            g.ifs = [Rn().visit(c) for c in g.ifs]
        tmp = self._fresh(comp)  # type: ignore[arg-type]
        app: ast.stmt = ast.Expr(value=ast.Call(func=ast.Attribute(value=ast.Name(id=tmp.id, ctx=ast.Load()), attr="append", ctx=ast.Load()), args=[comp.elt], keywords=[]))
        for c in reversed(g.ifs):
            app = ast.If(test=c, body=[app], orelse=[])
        loop = ast.For(target=g.target, iter=g.iter, body=[app], orelse=[], type_comment=None)
        for x in ast.walk(g.target):
            if isinstance(x, (ast.Name, ast.Tuple, ast.List, ast.Starred)):
                x.ctx = ast.Store()
        init = ast.Assign(targets=[tmp], value=ast.List(elts=[], ctx=ast.Load()), type_comment=None)
        for n_ in (init, loop):
            ast.copy_location(n_, st)
            ast.fix_missing_locations(n_)
        _replace_node(st, heads[0], comp, ast.copy_location(ast.Name(id=tmp.id, ctx=ast.Load()), comp))
        return [init, loop, st]

    def _try_expr(self, call: ast.Call) -> Optional[ast.expr]:
        """does expression mode apply to this whole-value call?  (then _rewrite_exprs substitutes it; otherwise the body is spliced)"""
        cal = self._callee(call)
        if cal is not None:
            fn, body, recv = cal
            if len(body) == 1 and isinstance(body[0], ast.Return) and body[0].value is not None and _bind(fn, call, recv) is not None:
                n0 = len(self.inlined)
                probe = self._expr_mode(copy.deepcopy(call)) if not any(id(x) in self.foreign for x in ()) else None
                del self.inlined[n0:]
                return call if probe is not None else None
        return None

    def _rewrite_exprs(self, e: ast.expr) -> ast.expr:
        inl = self

        class R(ast.NodeTransformer):
            def visit_Call(self, node: ast.Call):
                self.generic_visit(node)
                new = inl._expr_mode(node)
                return new if new is not None else node

            def visit_Lambda(self, node):
                return node

        return R().visit(e)

    def _first_helper_call(self, e: ast.expr) -> Optional[ast.Call]:
        """the helper call that is the first impure expression evaluated in e (so that computing it before the statement changes nothing)"""
        order = _eval_order(e)
        for x in order:
            if isinstance(x, ast.Call):
                if self._callee(x) is not None and all(_pure(a) for a in x.args) and all(_pure(k.value) for k in x.keywords):
                    return x
                return None
            if isinstance(x, ast.Attribute) and isinstance(x.value, ast.Name) and x.attr in _CONTAINER_METHODS:
                continue  # `acc.update(helper(...))`: looking up a container method on a local evaluates nothing a helper could observe or change
            if not _pure(x) and not isinstance(x, (ast.UnaryOp, ast.Compare, ast.BoolOp, ast.BinOp, ast.Tuple, ast.List)):
                return None
        return None

    def run(self) -> ast.Module:
        nested = any(isinstance(y, ast.FunctionDef) and y is not x for x in ast.walk(self.tree) if isinstance(x, ast.FunctionDef) for y in ast.walk(x))
        if not self.helpers and not self.methods and not self.unique_methods and not self.unique_static and not self.factories and not nested and not self.gen_helpers and not self.gen_methods:
            return self.tree

        def visit(body: List[ast.stmt], cname: Optional[str]) -> None:
            for node in body:
                if isinstance(node, ast.ClassDef):
                    visit(node.body, node.name)
                elif isinstance(node, (ast.FunctionDef, ast.AsyncFunctionDef)):
                    decs = [ast.unparse(d) for d in node.decorator_list]
                    sname = node.args.args[0].arg if (cname and node.args.args and "staticmethod" not in decs) else None
                    self.cls_stack.append((cname or "", sname, "classmethod" if "classmethod" in decs else ("staticmethod" if "staticmethod" in decs else "method")))
                    self.cur_fn = node
                    # a closure defined in the body and only ever called there by name is a helper of this one function: its free names are
                    # read when it runs, which is where the spliced copy reads them
                    local: Dict[str, Tuple[ast.FunctionDef, List[ast.stmt]]] = {}
                    nested_defs: List[ast.FunctionDef] = []

                    def collect(stmts: List[ast.stmt]) -> None:
                        for st_ in stmts:
                            if isinstance(st_, ast.FunctionDef):
                                nested_defs.append(st_)
                                continue
                            if isinstance(st_, (ast.ClassDef, ast.AsyncFunctionDef)):
                                continue
                            for fld_ in ("body", "orelse", "finalbody"):
                                b_ = getattr(st_, fld_, None)
                                if isinstance(b_, list) and b_ and isinstance(b_[0], ast.stmt):
                                    collect(b_)
                            if isinstance(st_, ast.Try):
                                for h_ in st_.handlers:
                                    collect(h_.body)
                    collect(node.body)
                    for st in nested_defs:
                        if isinstance(st, ast.FunctionDef) and st.name not in self.helpers:
                            b = _inlinable(st)
                            uses = [x for x in ast.walk(node) if isinstance(x, ast.Name) and x.id == st.name]
                            called = {id(c.func) for c in ast.walk(node) if isinstance(c, ast.Call)}
                            ndefs = sum(1 for x in ast.walk(node) if isinstance(x, (ast.FunctionDef, ast.ClassDef)) and x.name == st.name)
                            inner = {id(x) for g in ast.walk(node) if isinstance(g, (ast.FunctionDef, ast.Lambda)) and g is not node for x in ast.walk(g)}
                            if b is not None and uses and ndefs == 1 and all(id(u) in called and isinstance(u.ctx, ast.Load) and id(u) not in inner for u in uses):
                                local[st.name] = (st, b)
                    self.helpers.update(local)
                    node.body = self.process_block(node.body)
                    for nm, (lf, _b) in local.items():
                        del self.helpers[nm]
                        if not any(isinstance(x, ast.Name) and x.id == nm for x in ast.walk(node)):
                            for o_ in ast.walk(node):
                                for fld_ in ("body", "orelse", "finalbody"):
                                    b_ = getattr(o_, fld_, None)
                                    if isinstance(b_, list) and any(x is lf for x in b_):
                                        b_[:] = [x for x in b_ if x is not lf] or [ast.Pass()]
                    self.cls_stack.pop()

        visit(self.tree.body, None)
        # ... and a private method whose every self. / cls. call was replaced (no attribute access of that name is left in this module, and no other
        # module uses the name - `keep` holds the attribute names other modules use)
        for (cname, mname), (fn, _b) in list(self.methods.items()) + list(self.gen_methods.items()):
            fn = getattr(fn, "_jv_orig", fn)
            if mname.startswith("_") and mname in self.inlined and mname not in self.keep:
                left = [x for x in ast.walk(self.tree) if isinstance(x, ast.Attribute) and x.attr == mname] + \
                       [x for x in ast.walk(self.tree) if isinstance(x, ast.Constant) and x.value == mname]
                if not left:
                    for c in ast.walk(self.tree):
                        if isinstance(c, ast.ClassDef) and fn in c.body:
                            c.body = [st for st in c.body if st is not fn] or [ast.Pass()]
                            self.removed.append(mname)
        if self.inject and self.inlined:
            imports: List[ast.stmt] = []
            for nm, b in sorted(self.inject.items()):
                if b[0] == "ext":
                    dotted = b[1]
                    if "." in dotted:
                        modp, _, last = dotted.rpartition(".")
                        imports.append(ast.ImportFrom(module=modp, names=[ast.alias(name=last, asname=nm if nm != last else None)], level=0))
                    else:
                        imports.append(ast.Import(names=[ast.alias(name=dotted, asname=nm if nm != dotted else None)]))
                elif b[0] == "pkg":
                    imports.append(ast.ImportFrom(module="joserfc" + ("." + b[1] if b[1] else ""), names=[ast.alias(name=b[2], asname=nm if nm != b[2] else None)], level=0))
            at = 0
            for i, st in enumerate(self.tree.body):
                if isinstance(st, ast.ImportFrom) and st.module == "__future__" or (isinstance(st, ast.Expr) and isinstance(st.value, ast.Constant) and i == 0):
                    at = i + 1
            for im in imports:
                ast.copy_location(im, self.tree.body[0])
            self.tree.body[at:at] = imports
        # a private helper whose every call was replaced is dead code now: drop it, so that no rule judges a function nobody calls
        # (Program checks that no other module imports it)
        for name, (fn, _b) in list(self.helpers.items()) + list(self.gen_helpers.items()):
            fn = getattr(fn, "_jv_orig", fn)
            if name.startswith("_") and name in self.inlined and id(fn) not in self.foreign and name not in self.keep:
                refs = [x for x in ast.walk(self.tree) if isinstance(x, ast.Name) and x.id == name] + \
                       [x for x in ast.walk(self.tree) if isinstance(x, ast.Attribute) and x.attr == name]
                if not refs:
                    self.tree.body = [st for st in self.tree.body if st is not fn]
                    self.removed.append(name)
        ast.fix_missing_locations(self.tree)
        return self.tree


def _append_fallthrough(stmts: List[ast.stmt], mk) -> List[ast.stmt]:
    if not stmts:
        return [mk()]
    last = stmts[-1]
    if isinstance(last, ast.Raise) or getattr(last, "_from_return", False):
        return stmts
    if isinstance(last, ast.If) and getattr(last, "_has_ret", False):
        last.body = _append_fallthrough([x for x in last.body if not isinstance(x, ast.Pass)] , mk)
        last.orelse = _append_fallthrough(last.orelse, mk)
        return stmts
    if isinstance(last, ast.Try) and getattr(last, "_has_ret", False):
        if last.orelse:
            last.orelse = _append_fallthrough(last.orelse, mk)
        else:
            last.body = _append_fallthrough(last.body, mk)
        for h in last.handlers:
            h.body = _append_fallthrough([x for x in h.body if not isinstance(x, ast.Pass)], mk)
        return stmts
    return stmts + [mk()]


def _head_fields(st: ast.stmt) -> List[str]:
    if isinstance(st, (ast.If, ast.While)):
        return ["test"]
    if isinstance(st, (ast.Assign, ast.AugAssign, ast.Return, ast.Expr)):
        return ["value"]
    if isinstance(st, ast.AnnAssign):
        return ["value"]
    if isinstance(st, ast.Raise):
        return ["exc"]
    if isinstance(st, ast.For):
        return ["iter"]
    return []


def _eval_order(e: ast.AST) -> List[ast.AST]:
    """sub-expressions of e in (conservative, left-to-right, operands-before-operator) evaluation order; stops descending where evaluation
    is conditional (BoolOp after its first operand, IfExp branches, comprehensions, lambdas)"""
    out: List[ast.AST] = []

    def go(x: ast.AST) -> None:
        if isinstance(x, ast.BoolOp):
            go(x.values[0])
            out.append(ast.Pass())  # barrier: anything after is conditional
            return
        if isinstance(x, ast.IfExp):
            go(x.test)
            out.append(ast.Pass())
            return
        if isinstance(x, (ast.Lambda, ast.ListComp, ast.SetComp, ast.DictComp, ast.GeneratorExp)):
            out.append(ast.Pass())
            return
        if isinstance(x, ast.Call):
            go(x.func) if not isinstance(x.func, ast.Name) else None
            for a in x.args:
                go(a)
            for k in x.keywords:
                go(k.value)
            out.append(x)
            return
        if isinstance(x, (ast.Name, ast.Constant)):
            return
        for c in ast.iter_child_nodes(x):
            if isinstance(c, ast.expr):
                go(c)
        out.append(x)

    go(e)
    res = []
    for x in out:
        if isinstance(x, ast.Pass):
            break
        res.append(x)
    return res


_BLOCK = object()
_CONTAINER_METHODS = frozenset({"update", "append", "extend", "add", "setdefault", "join", "insert", "union", "intersection", "difference", "issubset", "issuperset"})


def _first_comp(e: ast.expr, consumers: Tuple[str, ...]):
    """the list comprehension (or generator expression handed whole to a consumer that exhausts it at once) that is the first impure thing e
    evaluates; None when something impure comes first or evaluation is conditional"""

    def find(x: ast.AST):
        if isinstance(x, ast.ListComp):
            return x
        if isinstance(x, (ast.Name, ast.Constant)):
            return None
        if isinstance(x, ast.BoolOp):
            return find(x.values[0]) or _BLOCK
        if isinstance(x, ast.IfExp):
            return find(x.test) or _BLOCK
        if isinstance(x, (ast.Lambda, ast.SetComp, ast.DictComp, ast.GeneratorExp, ast.NamedExpr, ast.Await, ast.Yield, ast.YieldFrom)):
            return _BLOCK
        if isinstance(x, ast.Call):
            if not isinstance(x.func, ast.Name):
                r = find(x.func)
                if r is not None:
                    return r
            if len(x.args) == 1 and not x.keywords and isinstance(x.args[0], ast.GeneratorExp) and \
                    (x.func.id if isinstance(x.func, ast.Name) else getattr(x.func, "attr", "")) in consumers:
                return x.args[0]
            for a in list(x.args) + [k.value for k in x.keywords]:
                r = find(a)
                if r is not None:
                    return r
            return _BLOCK
        if isinstance(x, ast.Dict):
            for k, v in zip(x.keys, x.values):
                for y in (k, v):
                    if y is not None:
                        r = find(y)
                        if r is not None:
                            return r
            return None
        for c in ast.iter_child_nodes(x):
            if isinstance(c, ast.expr):
                r = find(c)
                if r is not None:
                    return r
        if isinstance(x, (ast.Tuple, ast.List, ast.Set, ast.Starred, ast.JoinedStr, ast.FormattedValue)) or _pure(x):
            return None
        return _BLOCK

    r = find(e)
    return None if r is _BLOCK else r


def _first_evaluated(e: ast.expr, name: ast.Name) -> bool:
    """is `name` read before any impure sub-expression of e is evaluated?"""
    for x in _eval_order(e):
        if any(y is name for y in ast.walk(x)):
            return True
        if isinstance(x, ast.Call) or not _pure(x):
            # an impure expression that does not contain the name comes first
            if isinstance(x, (ast.UnaryOp, ast.Compare, ast.BinOp, ast.Tuple, ast.List, ast.Dict, ast.Subscript, ast.Attribute)):
                continue
            return False
    # plain Name at top level
    return any(y is name for y in ast.walk(e))


def _replace_node(st: ast.stmt, fld: str, old: ast.AST, new: ast.AST) -> None:
    class R(ast.NodeTransformer):
        def generic_visit(self, node):
            if node is old:
                return new
            return super().generic_visit(node)

        def visit(self, node):
            if node is old:
                return new
            return super().visit(node)

    setattr(st, fld, R().visit(getattr(st, fld)))


def inline_new_helpers(tree: ast.Module, module: str, ambiguous: Optional[Set[str]] = None, pkg_funcs=None, pkg_meths=None, *_a, **_k):
    return _inline_new_helpers(tree, module, ambiguous, pkg_funcs, pkg_meths, *_a, **_k)


def _inline_new_helpers(tree: ast.Module, module: str, ambiguous: Optional[Set[str]] = None, pkg_funcs=None, pkg_meths=None,
                       is_package: bool = False, keep: Optional[Set[str]] = None, pkg_bindings=None, self_ambiguous: Optional[Set[str]] = None) -> Tuple[ast.Module, List[str]]:
    inl = Inliner(tree, module, ambiguous, pkg_funcs, pkg_meths, is_package, pkg_bindings, self_ambiguous)
    inl.keep = set(keep or ())
    t = inl.run()
    return t, sorted(set(inl.inlined)) + ["-" + n for n in inl.removed]
