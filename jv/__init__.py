"""jv - repository-specific static analysis deciding the joserfc properties C01..C20.

Everything here works on the *source text* of the repository under analysis (default /repo);
joserfc itself is never imported or executed.
"""
