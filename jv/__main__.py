"""python -m jv check Cxx --tier quick|thorough [--repo DIR]   |  replay PATH  |  selfcheck  |  dump ..."""
from __future__ import annotations
import argparse
import importlib
import json
import os
import sys
import time
import traceback

from .program import AnalysisError
from .report import Ctx, load_known, match_known, write_evidence, write_replay

PROPS = ["C%02d" % i for i in range(1, 21)]


def run_check(prop: str, tier: str, repo: str | None, quiet: bool = False, write: bool = True, shared_engine=None) -> int:
    from .engine import Engine
    t0 = time.time()
    seed = int(os.environ.get("VERIF_SEED", "0") or 0)
    ctx = None
    try:
        eng = shared_engine if shared_engine is not None else Engine(repo)
        ctx = Ctx(prop, tier, eng)
        mod = importlib.import_module(f"jv.rules.{prop.lower()}")
        mod.run(ctx)
    except AnalysisError as e:
        print(f"ANALYSIS-ERROR property={prop} {e}")
        if ctx is not None and write:
            try:
                write_evidence(ctx, time.time() - t0, seed, [], 0, error=str(e))
            except Exception:
                pass
        return 2
    except Exception as e:  # a bug in the checker is never a verdict
        print(f"ANALYSIS-ERROR property={prop} internal error: {type(e).__name__}: {e}")
        traceback.print_exc(file=sys.stdout)
        return 2
    known = load_known()
    hits = []
    violations = []
    for f in ctx.findings:
        k = match_known(f, known)
        if k is not None:
            hits.append(k)
            print(f"KNOWN-FINDING: property={prop} {k.get('what', f.message)} [{f.rule} {f.function}]")
        else:
            violations.append(f)
    wall = time.time() - t0
    if write:
        write_evidence(ctx, wall, seed, hits, len(violations), error="; ".join(ctx.errors) if ctx.errors else None)
    if not quiet:
        n_ok = sum(1 for o in ctx.obligations if o.ok)
        print(f"{prop} [{tier}] obligations={len(ctx.obligations)} discharged={n_ok} "
              f"rules={len({o.rule for o in ctx.obligations})} wall={wall:.2f}s repo={eng.repo}")
    if violations:
        for i, f in enumerate(violations):
            path = write_replay(f, i) if write else "-"
            print(f"  {f.rule} {f.loc} in {f.function}: {f.message}\n      construct: {f.construct}")
            print(f"VIOLATION property={prop} replay={path}")
        for e in ctx.errors:
            print(f"  (also) ANALYSIS-ERROR {e}")
        return 1
    if ctx.errors:
        for e in ctx.errors:
            print(f"ANALYSIS-ERROR property={prop} {e}")
        return 2
    return 0


def thorough_extras(prop: str, repo: str | None) -> None:
    """thorough tier = the quick verdict plus two informational explorations that never change the exit code:
    (b) re-resolution of the call graph with class-hierarchy analysis only and comparison with the typed call graph,
    (c) the checker self-test (breaking / benign variants of the current tree) for this property"""
    import json as _json
    from .engine import Engine
    from .report import EVIDENCE_DIR
    path = os.path.join(EVIDENCE_DIR, f"{prop}.json")
    extra = {}
    try:
        a = Engine(repo)
        b = Engine(repo, typed=False)
        diverge = 0
        same = 0
        wider = []
        for fa, sites in a.cg.sites.items():
            fb = b.prog.functions.get(fa.qualname)
            if fb is None:
                continue
            bs = {(getattr(s.node, "lineno", 0), getattr(s.node, "col_offset", 0), s.name): s for s in b.cg.sites.get(fb, [])}
            for s in sites:
                k = (getattr(s.node, "lineno", 0), getattr(s.node, "col_offset", 0), s.name)
                t = bs.get(k)
                if t is None:
                    continue
                ca = sorted(c.short for c in s.callees)
                cb = sorted(c.short for c in t.callees)
                if ca == cb:
                    same += 1
                else:
                    diverge += 1
                    if len(wider) < 15:
                        wider.append({"site": f"{fa.short}:{k[0]} {k[2]}", "typed": ca[:4], "cha_only": cb[:6]})
        extra["typed_vs_cha"] = {"call_sites_same_callees": same, "call_sites_resolved_by_types_only": diverge, "examples": wider,
                                 "meaning": "sites where the verdict's call graph relies on mypy's receiver types (trusted base); with CHA only the callee set is wider"}
        print(f"thorough[{prop}] typed-vs-CHA: {same} sites agree, {diverge} depend on the typed layer")
    except Exception as e:  # informational
        print(f"thorough[{prop}] typed-vs-CHA skipped: {type(e).__name__}: {e}")
    try:
        if os.path.exists(path) and extra:
            ev = _json.load(open(path))
            ev["coverage"].update(extra)
            tmp = path + ".tmp%d" % os.getpid()
            _json.dump(ev, open(tmp, "w"), indent=1, default=str)
            os.replace(tmp, path)
    except Exception as e:
        print(f"thorough[{prop}] could not extend the evidence: {e}")
    if repo is None:
        from .selftest import runner
        runner.informational(prop)
        _refactoring_sample(prop, path)


def _refactoring_sample(prop: str, evidence_path: str, limit: int = 32) -> None:
    """thorough tier (d), informational: a seeded sample of behaviour-preserving rewrites of /repo/src (tools/benignsweep.py
    operators) on scratch copies; this property's check must stay silent on every one of them"""
    import concurrent.futures as cf
    import json as _json
    import random
    import shutil
    import subprocess
    import tempfile
    try:
        tools = os.path.join(os.path.dirname(os.path.dirname(os.path.abspath(__file__))), "tools")
        if tools not in sys.path:
            sys.path.insert(0, tools)
        import benignsweep as bs
        root = os.path.join(bs.REPO, "src", "joserfc")
        ops = ["rename-local", "if-swap", "ret-local", "ne-flip", "cmp-mirror", "and-split", "add-else", "eq-swap", "update-setitem", "isinstance-split", "extract-arg"]
        work = []
        for d, _ds, fs in os.walk(root):
            for f in sorted(fs):
                if f.endswith(".py") and f not in bs.SKIP_FILES:
                    rel = os.path.relpath(os.path.join(d, f), root)
                    for v in bs.variants_of(os.path.join(d, f), ops):
                        work.append((rel, v))
        random.Random(int(os.environ.get("VERIF_SEED", "0") or 0) + sum(map(ord, prop))).shuffle(work)
        work = work[:limit]
        verif = os.path.dirname(os.path.dirname(os.path.abspath(__file__)))

        def one(job):
            rel, v = job
            tmp = tempfile.mkdtemp(prefix="jv-refactor-")
            try:
                shutil.copytree(os.path.join(bs.REPO, "src"), os.path.join(tmp, "src"), ignore=shutil.ignore_patterns("__pycache__", "*.egg-info"))
                with open(os.path.join(tmp, "src", "joserfc", rel), "w") as fh:
                    fh.write(v["src"])
                env = dict(os.environ, JV_CACHE=os.path.join(tmp, ".jvcache"))
                p = subprocess.run([sys.executable, "-m", "jv", "check", prop, "--repo", tmp, "--no-write"], cwd=verif, env=env, capture_output=True, text=True, timeout=600)
                return {"file": rel, "op": v["op"], "what": v["what"][:80], "rc": p.returncode}
            finally:
                shutil.rmtree(tmp, ignore_errors=True)
        with cf.ThreadPoolExecutor(max_workers=16) as ex:
            res = list(ex.map(one, work))
        bad = [r for r in res if r["rc"] != 0]
        print(f"refactoring-sample[{prop}] {len(res) - len(bad)}/{len(res)} behaviour-preserving rewrites leave the check silent")
        for r in bad[:5]:
            print(f"  refactoring-sample alarm (checker defect, not a verdict): {r}")
        if os.path.exists(evidence_path):
            ev = _json.load(open(evidence_path))
            ev["coverage"]["refactoring_sample"] = {"variants": len(res), "silent": len(res) - len(bad), "alarms": bad[:10],
                                                    "meaning": "semantics-preserving rewrites of the analysed source; any alarm is a defect of the checker"}
            tmpf = evidence_path + ".tmp%d" % os.getpid()
            _json.dump(ev, open(tmpf, "w"), indent=1, default=str)
            os.replace(tmpf, evidence_path)
    except Exception as e:  # informational only
        print(f"refactoring-sample[{prop}] skipped: {type(e).__name__}: {e}")


def run_replay(path: str, repo: str | None) -> int:
    with open(path) as fh:
        rec = json.load(fh)
    prop = rec["property"]
    from .engine import Engine
    try:
        eng = Engine(repo)
        ctx = Ctx(prop, "quick", eng)
        importlib.import_module(f"jv.rules.{prop.lower()}").run(ctx)
    except AnalysisError as e:
        print(f"ANALYSIS-ERROR property={prop} {e}")
        return 2
    for f in ctx.findings:
        if f.key == rec["key"]:
            print(f"REPRODUCED {f.key}\n  {f.loc}: {f.message}\n  detail: {json.dumps(f.detail, default=str)[:2000]}")
            print(f"VIOLATION property={prop} replay={path}")
            return 1
    print(f"not reproduced on the current tree: {rec['key']}")
    return 0


def selfcheck() -> int:
    """setup_cmd: the framework is plain Python; verify the interpreter, mypy and that /repo parses"""
    try:
        import mypy  # noqa: F401
        from .engine import Engine
        eng = Engine(None)
        print("jv selfcheck ok:", json.dumps(eng.substrate_facts()))
        return 0
    except Exception as e:
        print(f"jv selfcheck FAILED: {type(e).__name__}: {e}")
        return 2


def main(argv: list[str]) -> int:
    ap = argparse.ArgumentParser(prog="jv")
    sub = ap.add_subparsers(dest="cmd", required=True)
    c = sub.add_parser("check")
    c.add_argument("prop")
    c.add_argument("--tier", default=os.environ.get("VERIF_TIER", "quick"), choices=["quick", "thorough"])
    c.add_argument("--repo", default=None)
    c.add_argument("--no-write", action="store_true")
    r = sub.add_parser("replay")
    r.add_argument("path")
    r.add_argument("--repo", default=None)
    sub.add_parser("selfcheck")
    s = sub.add_parser("selftest")
    s.add_argument("props", nargs="*")
    s.add_argument("--jobs", type=int, default=16)
    s.add_argument("--list", action="store_true")
    a = sub.add_parser("all")
    a.add_argument("--tier", default="quick")
    a.add_argument("--repo", default=None)
    a.add_argument("--no-write", action="store_true")
    ns = ap.parse_args(argv)
    if ns.cmd == "check":
        rc = run_check(ns.prop.upper(), ns.tier, ns.repo, write=not ns.no_write)
        if ns.tier == "thorough" and rc in (0, 1) and not ns.no_write:
            thorough_extras(ns.prop.upper(), ns.repo)
        return rc
    if ns.cmd == "replay":
        return run_replay(ns.path, ns.repo)
    if ns.cmd == "selfcheck":
        return selfcheck()
    if ns.cmd == "selftest":
        from .selftest import runner
        return runner.main(ns.props, ns.jobs, ns.list)
    if ns.cmd == "all":
        # one fact base for all properties (used by the sweeps; the registered per-property commands build their own)
        worst = 0
        shared = None
        try:
            from .engine import Engine
            shared = Engine(ns.repo)
        except Exception:
            shared = None
        for p in PROPS:
            if not os.path.exists(os.path.join(os.path.dirname(__file__), "rules", p.lower() + ".py")):
                continue
            rc = run_check(p, ns.tier, ns.repo, write=not ns.no_write, shared_engine=shared)
            worst = max(worst, rc)
        return worst
    return 2


if __name__ == "__main__":
    sys.stdout.reconfigure(line_buffering=True)  # type: ignore[attr-defined]
    sys.exit(main(sys.argv[1:]))
