"""S7 - constant folder: partial evaluation of model / registry initialisers and registration code.

An abstract interpreter over *constants only*: literals, f-strings, arithmetic, getattr with folded names,
class attributes through the MRO, decidable tests, dict/list displays with ** spreads, constructor bodies,
classmethods mutating class-level tables (register).  External constructors stay opaque terms (ExtVal).
Anything not decidable becomes Unknown; rules treat Unknown at a compared table cell as ANALYSIS-ERROR.
"""
from __future__ import annotations
import ast
from dataclasses import dataclass, field
from typing import Any, Dict, List, Optional, Tuple

from .program import AnalysisError, ClassInfo, Ext, FunctionInfo, Module, Program, norm


class Unknown:
    def __init__(self, why: str = ""):
        self.why = why

    def __repr__(self) -> str:
        return f"Unknown({self.why})"


@dataclass(eq=False)
class Inst:
    cls: ClassInfo
    attrs: Dict[str, Any] = field(default_factory=dict)

    def __repr__(self) -> str:
        nm = self.attrs.get("name")
        return f"<{self.cls.name}{' ' + repr(nm) if isinstance(nm, str) else ''}>"


@dataclass(frozen=True)
class ExtVal:
    name: str
    args: Tuple[Any, ...] = ()
    kwargs: Tuple[Tuple[str, Any], ...] = ()
    called: bool = False
    recv: Any = field(default=None, compare=False)  # the external value an attribute / method was taken from (its text is part of `name`)

    def __repr__(self) -> str:
        if not self.called:
            return f"ext:{self.name}"
        parts = [repr(a) for a in self.args] + [f"{k}={v!r}" for k, v in self.kwargs]
        return f"ext:{self.name}({', '.join(parts)})"


@dataclass(eq=False)
class FuncVal:
    fn: FunctionInfo
    env: Optional[Dict[str, Any]] = None  # closure environment
    bound: Any = None  # bound self / cls

    def __repr__(self) -> str:
        return f"<func {self.fn.short}>"


@dataclass(eq=False)
class ClassVal:
    cls: ClassInfo

    def __repr__(self) -> str:
        return f"<classobj {self.cls.short}>"


class KeysView(list):
    """the names of a folded dict at the time of the call (a snapshot, which is all a fold of straight-line code can tell apart) with the set
    algebra of `dict.keys()`: `a.keys() - b.keys()`, `&`, `|`, `^`, subset comparisons"""

    def _other(self, o):
        return set(o) if isinstance(o, (list, tuple, set, frozenset, dict)) else None

    def __sub__(self, o):
        b = self._other(o)
        return NotImplemented if b is None else set(self) - b

    def __rsub__(self, o):
        b = self._other(o)
        return NotImplemented if b is None else b - set(self)

    def __and__(self, o):
        b = self._other(o)
        return NotImplemented if b is None else set(self) & b

    __rand__ = __and__

    def __or__(self, o):
        b = self._other(o)
        return NotImplemented if b is None else set(self) | b

    __ror__ = __or__

    def __xor__(self, o):
        b = self._other(o)
        return NotImplemented if b is None else set(self) ^ b

    __rxor__ = __xor__

    def __le__(self, o):
        return set(self) <= set(o)

    def __lt__(self, o):
        return set(self) < set(o)

    def __ge__(self, o):
        return set(self) >= set(o)

    def __gt__(self, o):
        return set(self) > set(o)

    def __eq__(self, o):
        return set(self) == set(o) if isinstance(o, (KeysView, set, frozenset)) else list.__eq__(self, o)

    def __ne__(self, o):
        return not self.__eq__(o)

    __hash__ = None  # type: ignore[assignment]

    def isdisjoint(self, o):
        return set(self).isdisjoint(o)


class FoldRaise(Exception):
    def __init__(self, exc: Any):
        self.exc = exc


class _Break(Exception):
    pass


class _Continue(Exception):
    pass


class _Return(Exception):
    def __init__(self, value: Any):
        self.value = value


def is_unknown(v: Any) -> bool:
    return isinstance(v, Unknown)


class Folder:
    def __init__(self, prog: Program):
        self.prog = prog
        self.class_state: Dict[Tuple[str, str], Any] = {}  # (class qualname, attr) -> mutable folded value
        self._modvals: Dict[Tuple[str, str], Any] = {}
        self._in_progress: set = set()
        self.steps = 0
        self.log: List[str] = []
        self.intercepts: Dict[str, Any] = {}
        self.trace: Optional[List[Tuple[str, ast.AST, Optional[ast.AST], bool]]] = None  # (function, test expr, enclosing If, outcome) when a rule probes
        self._fn_stack: List[str] = []

    def _note(self, test: ast.AST, t: Optional[bool], parent: Optional[ast.AST] = None) -> None:
        if self.trace is not None:
            # t is None: the test could not be decided - whatever the fold returns after that is not a decision
            self.trace.append((" > ".join(self._fn_stack), test, parent, t))

    def start_trace(self) -> None:
        self.trace = []
        self.steps = 0  # the step budget is per probing session

    def one_sided(self, ignore: Tuple[str, ...] = (), ignore_tests: Tuple[str, ...] = ()) -> List[Tuple[str, ast.AST]]:
        """tests decided the same way on every probe of the trace whose other outcome is not a refusal: the probes do not show what the
        code does on that outcome, so a decision by folding would be a sample, not a proof"""
        tr, self.trace = self.trace or [], None
        seen: Dict[int, Tuple[str, ast.AST, Optional[ast.AST], set]] = {}
        for fn, test, parent, t in tr:
            seen.setdefault(id(test), (fn, test, parent, set()))[3].add(t)

        def refuses(arm: List[ast.stmt]) -> bool:
            return bool(arm) and isinstance(arm[-1], ast.Raise)
        out = []
        for fn, test, parent, outs in seen.values():
            if ignore_tests and norm(test).startswith(ignore_tests):
                continue
            if None in outs and not any(fr.endswith(i) or fr.startswith("errors:") for fr in fn.split(" > ") for i in tuple(ignore) + ("\0",)):
                out.append((fn, test))
                continue
            outs = outs - {None}
            if len(outs) == 2 or any(fr.endswith(i) or fr.startswith("errors:") for fr in fn.split(" > ") for i in tuple(ignore) + ("\0",)):
                continue
            if isinstance(parent, ast.If) and (refuses(parent.body) or refuses(parent.orelse)):
                continue
            if not any(isinstance(x, (ast.Name, ast.Attribute, ast.Call, ast.Subscript)) for x in ast.walk(test)):
                continue  # a test over constants does not depend on the input
            out.append((fn, test))
        return out

    # ------------------------------------------------------------------ module level values
    def module_value(self, m: Module, name: str) -> Any:
        key = (m.name, name)
        if key in self._modvals:
            return self._modvals[key]
        if key in self._in_progress:
            return Unknown(f"cyclic {name}")
        self._in_progress.add(key)
        try:
            r = self.prog.resolve_symbol(m, name)
            v: Any
            if isinstance(r, FunctionInfo):
                v = FuncVal(r)
            elif isinstance(r, ClassInfo):
                v = ClassVal(r)
            elif isinstance(r, Ext):
                v = ExtVal(r.name)
            elif isinstance(r, Module):
                v = r
            elif isinstance(r, tuple) and r[0] == "var":
                key2 = (r[1].name, r[2])
                if key2 in self._modvals:
                    v = self._modvals[key2]
                else:
                    vals = self.prog.var_values(r[1], r[2])
                    v = self.expr(vals[-1], {}, r[1]) if vals else Unknown("no value")
                    self._modvals[key2] = v
            else:
                v = Unknown(f"unresolved name {name}")
            self._modvals[key] = v
            return v
        finally:
            self._in_progress.discard(key)

    # ------------------------------------------------------------------ class attributes
    def class_attr(self, ci: ClassInfo, attr: str) -> Any:
        for c in ci.mro:
            k = (c.qualname, attr)
            if k in self.class_state:
                return self.class_state[k]
            if attr in c.class_attrs:
                v = self.expr(c.class_attrs[attr], {}, c.module)
                if isinstance(v, (dict, list, set)):
                    self.class_state[k] = v  # mutable tables live in the store so that register() can update them
                return v
            if attr in c.methods:
                return FuncVal(c.methods[attr], None, ClassVal(ci))
        return Unknown(f"no class attribute {ci.name}.{attr}")

    def has_class_attr(self, ci: ClassInfo, attr: str) -> bool:
        return any(attr in c.class_attrs or attr in c.methods or (c.qualname, attr) in self.class_state for c in ci.mro)

    def get_attr(self, obj: Any, attr: str) -> Any:
        if isinstance(obj, Inst):
            if attr in obj.attrs:
                return obj.attrs[attr]
            m_ = obj.cls.lookup(attr)
            if m_ is not None:
                if m_.is_property:
                    return self.call(FuncVal(m_, None, obj), [], {})
                return FuncVal(m_, None, obj if not m_.is_classmethod else ClassVal(obj.cls))
            if self.has_class_attr(obj.cls, attr):
                return self.class_attr(obj.cls, attr)
            return Unknown(f"no attribute {obj.cls.name}.{attr}")
        if isinstance(obj, ClassVal):
            m_ = obj.cls.lookup(attr)
            if m_ is not None and not (attr in obj.cls.class_attrs):
                return FuncVal(m_, None, obj if m_.is_classmethod else None)
            return self.class_attr(obj.cls, attr)
        if isinstance(obj, ExtVal):
            return ExtVal(f"{obj.name}.{attr}" if not obj.called else f"{obj!r}.{attr}", recv=obj)
        if isinstance(obj, Module):
            return self.module_value(obj, attr)
        if isinstance(obj, Unknown):
            return obj
        if isinstance(obj, dict) and attr in ("get", "keys", "values", "items", "copy", "update", "setdefault"):
            return ("bound-builtin", obj, attr)
        if isinstance(obj, list) and attr in ("append", "extend", "copy"):
            return ("bound-builtin", obj, attr)
        if isinstance(obj, str) and attr in ("startswith", "endswith", "encode", "upper", "lower", "format"):
            return ("bound-builtin", obj, attr)
        if isinstance(obj, tuple) and obj == ("builtin", "int") and attr == "from_bytes":
            return ("builtin", "int.from_bytes")
        if isinstance(obj, tuple) and obj == ("builtin", "bytes") and attr == "fromhex":
            return ("builtin", "bytes.fromhex")
        if isinstance(obj, int) and not isinstance(obj, bool) and attr in ("bit_length", "to_bytes"):
            return ("bound-builtin", obj, attr)
        if isinstance(obj, bytes) and attr in ("hex", "decode", "rstrip", "lstrip", "strip", "startswith", "endswith", "split", "replace", "count", "find"):
            return ("bound-builtin", obj, attr)
        if isinstance(obj, (set, frozenset)) and attr in ("add", "difference", "intersection", "union", "symmetric_difference", "issubset", "issuperset", "isdisjoint", "copy",
                                                          "discard", "update", "difference_update", "intersection_update"):
            return ("bound-builtin", obj, attr)
        if isinstance(obj, KeysView) and attr == "isdisjoint":
            return ("bound-builtin", obj, attr)
        return Unknown(f"attribute {attr} of {type(obj).__name__}")

    # ------------------------------------------------------------------ expressions
    def expr(self, e: ast.AST, env: Dict[str, Any], m: Module) -> Any:
        self.steps += 1
        if self.steps > 3000000:
            raise AnalysisError("constant folder: step budget exceeded")
        if isinstance(e, ast.Constant):
            return e.value
        if isinstance(e, ast.Name):
            if e.id in env:
                return env[e.id]
            if e.id in ("True", "False", "None"):
                return {"True": True, "False": False, "None": None}[e.id]
            if e.id in ("str", "int", "bool", "bytes", "bytearray", "memoryview", "list", "dict", "float", "set", "frozenset", "tuple", "len",
                        "isinstance", "getattr", "all", "any", "super", "sorted", "hasattr", "callable", "next", "reversed", "min", "max", "sum", "enumerate", "zip",
                        "divmod", "abs", "hex", "pow", "round", "bin", "oct", "chr", "ord"):
                return ("builtin", e.id)
            return self.module_value(m, e.id)
        if isinstance(e, ast.Attribute):
            return self.get_attr(self.expr(e.value, env, m), e.attr)
        if isinstance(e, ast.JoinedStr):
            parts = []
            for v in e.values:
                if isinstance(v, ast.Constant):
                    parts.append(str(v.value))
                elif isinstance(v, ast.FormattedValue):
                    x = self.expr(v.value, env, m)
                    if isinstance(x, (str, int, bool, float)) and v.format_spec is None and v.conversion == -1:
                        parts.append(str(x))
                    else:
                        return Unknown("f-string part")
            return "".join(parts)
        if isinstance(e, ast.BinOp):
            a, b = self.expr(e.left, env, m), self.expr(e.right, env, m)
            if is_unknown(a) or is_unknown(b):
                return Unknown("binop")
            try:
                if isinstance(e.op, ast.Add):
                    return a + b
                if isinstance(e.op, ast.Sub):
                    return a - b
                if isinstance(e.op, ast.Mult):
                    return a * b
                if isinstance(e.op, ast.FloorDiv):
                    return a // b
                if isinstance(e.op, ast.Mod):
                    return a % b
                if isinstance(e.op, ast.Pow):
                    return a ** b
                if isinstance(e.op, ast.BitOr):
                    return a | b
                if isinstance(e.op, ast.BitAnd):
                    return a & b
                if isinstance(e.op, ast.BitXor):
                    return a ^ b
                if isinstance(e.op, ast.LShift):
                    return a << b
                if isinstance(e.op, ast.RShift):
                    return a >> b
                if isinstance(e.op, ast.Div):
                    return a / b
            except Exception:
                return Unknown("binop failed")
            return Unknown("binop kind")
        if isinstance(e, ast.UnaryOp):
            a = self.expr(e.operand, env, m)
            if is_unknown(a):
                return a
            if isinstance(e.op, ast.Not):
                t = self.truth(a)
                return Unknown("not") if t is None else (not t)
            if isinstance(e.op, ast.USub) and isinstance(a, (int, float)):
                return -a
            if isinstance(e.op, ast.UAdd) and isinstance(a, (int, float)):
                return a
            return Unknown("unary")
        if isinstance(e, ast.BoolOp):
            last: Any = None
            for v in e.values:
                last = self.expr(v, env, m)
                t = self.truth(last)
                self._note(v, t, env.get("__if__"))
                if t is None:
                    return Unknown("boolop")
                if isinstance(e.op, ast.And) and not t:
                    return last
                if isinstance(e.op, ast.Or) and t:
                    return last
            return last
        if isinstance(e, ast.NamedExpr) and isinstance(e.target, ast.Name):
            v_ = self.expr(e.value, env, m)
            env[e.target.id] = v_
            return v_
        if isinstance(e, ast.IfExp):
            t = self.truth(self.expr(e.test, env, m))
            self._note(e.test, t)
            if t is None:
                return Unknown("ifexp")
            return self.expr(e.body if t else e.orelse, env, m)
        if isinstance(e, ast.Compare):
            return self._compare(e, env, m)
        if isinstance(e, ast.Dict):
            out: Dict[Any, Any] = {}
            for k, v in zip(e.keys, e.values):
                if k is None:
                    sp = self.expr(v, env, m)
                    if not isinstance(sp, dict):
                        return Unknown("dict spread")
                    out.update(sp)
                else:
                    kk = self.expr(k, env, m)
                    if is_unknown(kk) or not isinstance(kk, (str, int, bytes, bool, type(None))):
                        return Unknown("dict key")
                    out[kk] = self.expr(v, env, m)
            return out
        if isinstance(e, (ast.List, ast.Tuple, ast.Set)):
            items = []
            for x in e.elts:
                if isinstance(x, ast.Starred):
                    sv = self.expr(x.value, env, m)
                    if not isinstance(sv, (list, tuple)):
                        return Unknown("starred")
                    items.extend(sv)
                else:
                    items.append(self.expr(x, env, m))
            if isinstance(e, ast.Tuple):
                return tuple(items)
            if isinstance(e, ast.Set):
                try:
                    return set(items)
                except TypeError:
                    return Unknown("set")
            return items
        if isinstance(e, ast.Subscript):
            base = self.expr(e.value, env, m)
            if isinstance(e.slice, ast.Slice):
                parts = [self.expr(x, env, m) if x is not None else None for x in (e.slice.lower, e.slice.upper, e.slice.step)]
                if isinstance(base, (list, tuple, str, bytes)) and all(p_ is None or (isinstance(p_, int) and not isinstance(p_, bool)) for p_ in parts):
                    return base[slice(*parts)]
                return Unknown("slice")
            k = self.expr(e.slice, env, m)
            if is_unknown(base) or is_unknown(k):
                return Unknown("subscript")
            if isinstance(base, ExtVal):  # typing generics  t.Dict[str, X]
                return ExtVal(f"{base.name}[...]")
            if isinstance(base, ClassVal):
                return base
            try:
                return base[k]
            except Exception:
                return Unknown(f"subscript {k!r}")
        if isinstance(e, ast.Call):
            return self._call_expr(e, env, m)
        if isinstance(e, (ast.ListComp, ast.SetComp, ast.GeneratorExp)):
            return self._comprehension(e, env, m)
        if isinstance(e, ast.DictComp):
            pairs = self._comprehension(ast.copy_location(ast.ListComp(elt=ast.Tuple(elts=[e.key, e.value], ctx=ast.Load()), generators=e.generators), e), env, m)
            if not isinstance(pairs, list):
                return Unknown("dict comprehension")
            out_d: Dict[Any, Any] = {}
            for kv in pairs:
                if not (isinstance(kv, (tuple, list)) and len(kv) == 2) or is_unknown(kv[0]) or not isinstance(kv[0], (str, int, bytes, bool, type(None))):
                    return Unknown("dict comprehension key")
                out_d[kv[0]] = kv[1]
            return out_d
        if isinstance(e, ast.DictComp):
            return Unknown("dictcomp")
        if isinstance(e, ast.Lambda):
            return Unknown("lambda")
        return Unknown(type(e).__name__)

    def _comprehension(self, e, env, m) -> Any:
        if len(e.generators) != 1:
            return Unknown("comprehension")
        g = e.generators[0]
        it = self.expr(g.iter, env, m)
        if isinstance(it, dict):
            it = list(it.keys())
        if not isinstance(it, (list, tuple, set, frozenset)):
            return Unknown("comprehension iter")
        out = []
        for x in it:
            env2 = dict(env)
            if not self._bind_target(g.target, x, env2):
                return Unknown("comprehension target")
            keep = True
            for cond in g.ifs:
                t = self.truth(self.expr(cond, env2, m))
                self._note(cond, t)
                if t is None:
                    return Unknown("comprehension cond")
                keep = keep and t
            if keep:
                out.append(self.expr(e.elt, env2, m))
        if isinstance(e, ast.SetComp):
            try:
                return set(out)
            except TypeError:
                return Unknown("setcomp")
        return out

    def truth(self, v: Any) -> Optional[bool]:
        if is_unknown(v):
            return None
        if isinstance(v, ExtVal) and v.called:
            return None  # the result of an external call: not known
        if isinstance(v, (Inst, ExtVal, FuncVal, ClassVal, Module)):
            return True
        try:
            return bool(v)
        except Exception:
            return None

    def _compare(self, e: ast.Compare, env, m) -> Any:
        left = self.expr(e.left, env, m)
        for op, rhs in zip(e.ops, e.comparators):
            right = self.expr(rhs, env, m)
            if isinstance(op, (ast.Is, ast.IsNot)):
                if is_unknown(left) or is_unknown(right):
                    return Unknown("is")
                if right is None or left is None or isinstance(right, bool) or isinstance(left, bool):
                    r = left is right
                else:
                    r = left is right
                r = r if isinstance(op, ast.Is) else not r
            else:
                if is_unknown(left) or is_unknown(right):
                    return Unknown("compare")
                try:
                    if isinstance(op, ast.Eq):
                        r = left == right
                    elif isinstance(op, ast.NotEq):
                        r = left != right
                    elif isinstance(op, ast.Lt):
                        r = left < right
                    elif isinstance(op, ast.LtE):
                        r = left <= right
                    elif isinstance(op, ast.Gt):
                        r = left > right
                    elif isinstance(op, ast.GtE):
                        r = left >= right
                    elif isinstance(op, ast.In):
                        r = left in right
                    elif isinstance(op, ast.NotIn):
                        r = left not in right
                    else:
                        return Unknown("cmpop")
                except Exception:
                    return Unknown("compare failed")
            if not r:
                return False
            left = right
        return True

    # ------------------------------------------------------------------ calls
    def _call_expr(self, e: ast.Call, env, m) -> Any:
        # super().__init__(...)
        if isinstance(e.func, ast.Attribute) and isinstance(e.func.value, ast.Call) and \
                isinstance(e.func.value.func, ast.Name) and e.func.value.func.id == "super":
            slf = env.get("__self__")
            cur: Optional[ClassInfo] = env.get("__class__")
            if isinstance(slf, (Inst, ClassVal)) and cur is not None:
                mro = slf.cls.mro
                i = mro.index(cur) if cur in mro else -1
                for nxt in mro[i + 1:]:
                    if e.func.attr in nxt.methods:
                        args, kwargs = self._args(e, env, m)
                        return self.call(FuncVal(nxt.methods[e.func.attr], None, slf), args, kwargs)
                return None
            return Unknown("super")
        f = self.expr(e.func, env, m)
        args, kwargs = self._args(e, env, m)
        return self.call(f, args, kwargs, e)

    def _args(self, e: ast.Call, env, m) -> Tuple[List[Any], Dict[str, Any]]:
        args: List[Any] = []
        for a in e.args:
            if isinstance(a, ast.Starred):
                v = self.expr(a.value, env, m)
                if isinstance(v, (list, tuple)):
                    args.extend(v)
                else:
                    args.append(Unknown("*args"))
            else:
                args.append(self.expr(a, env, m))
        kwargs: Dict[str, Any] = {}
        for k in e.keywords:
            if k.arg is None:
                v = self.expr(k.value, env, m)
                if isinstance(v, dict):
                    kwargs.update(v)
            else:
                kwargs[k.arg] = self.expr(k.value, env, m)
        return args, kwargs

    def call(self, f: Any, args: List[Any], kwargs: Dict[str, Any], node: Optional[ast.AST] = None) -> Any:
        if isinstance(f, ClassVal):
            return self.instantiate(f.cls, args, kwargs)
        if isinstance(f, FuncVal):
            return self._call_function(f, args, kwargs)
        if isinstance(f, ExtVal) and not f.called and f.name.startswith("operator.") and not kwargs and args \
                and all(isinstance(a, (int, float, str, bytes, bool, list, tuple, dict, set, type(None))) for a in args):
            import operator as _op
            fn_ = getattr(_op, f.name.split(".", 1)[1], None)
            if fn_ is not None and f.name.split(".", 1)[1] in ("lt", "le", "gt", "ge", "eq", "ne", "add", "sub", "mul", "floordiv", "mod", "neg", "not_", "truth", "is_", "is_not", "contains",
                                                                   "and_", "or_", "getitem", "concat"):
                try:
                    return fn_(*args)
                except Exception:
                    return Unknown(f.name + " failed")
        if isinstance(f, ExtVal) and not f.called and f.name in ("itertools.chain", "itertools.chain.from_iterable") and not kwargs:
            seqs = args if f.name == "itertools.chain" else (list(args[0]) if args and isinstance(args[0], (list, tuple)) else None)
            if seqs is not None and all(isinstance(a, (list, tuple, dict)) for a in seqs):
                return [x for a in seqs for x in a]  # the concatenation, as a list (a folded loop only iterates it)
        if isinstance(f, ExtVal) and not f.called and f.name in ("typing.cast", "t.cast") and len(args) == 2 and not kwargs:
            return args[1]  # cast(T, v) is v
        if isinstance(f, ExtVal) and not f.called and f.name in ("types.MappingProxyType", "MappingProxyType") and len(args) == 1 and not kwargs and isinstance(args[0], dict):
            return args[0]  # a read-only view of the mapping: every read answers what the mapping answers
        if isinstance(f, ExtVal):
            if f.name == "collections.OrderedDict" and not f.called and not any(is_unknown(a) or isinstance(a, ExtVal) for a in list(args) + list(kwargs.values())):
                try:  # an insertion-ordered mapping: the folder's dict is one
                    return dict(*args, **kwargs)
                except Exception:
                    return Unknown("OrderedDict failed")
            return ExtVal(f.name, tuple(args), tuple(sorted(kwargs.items())), True, recv=f.recv)
        if isinstance(f, tuple) and f and f[0] == "builtin":
            return self._builtin(f[1], args, kwargs)
        if isinstance(f, tuple) and f and f[0] == "bound-builtin":
            return self._bound_builtin(f[1], f[2], args, kwargs)
        return Unknown("call of " + repr(f)[:40])

    def _builtin(self, name: str, args, kwargs) -> Any:
        try:
            if name == "getattr" and len(args) >= 2 and isinstance(args[1], str):
                v = self.get_attr(args[0], args[1])
                if is_unknown(v) and len(args) > 2:
                    return args[2]
                return v
            if name == "hasattr" and len(args) == 2 and isinstance(args[1], str):
                return not is_unknown(self.get_attr(args[0], args[1]))
            if name == "isinstance" and len(args) == 2:
                return self._isinstance(args[0], args[1])
            if name == "callable" and len(args) == 1:
                a0 = args[0]
                if isinstance(a0, (FuncVal, ClassVal)) or (isinstance(a0, tuple) and a0 and a0[0] in ("builtin", "bound-builtin")):
                    return True
                if isinstance(a0, Inst):
                    return a0.cls.lookup("__call__") is not None
                if isinstance(a0, (str, bytes, int, float, bool, list, dict, set, type(None))) and not is_unknown(a0):
                    return False
                return Unknown("callable")
            if any(is_unknown(a) for a in args):
                return Unknown(name)
            if name in ("str", "int", "bool", "bytes", "float") and any(isinstance(a, ExtVal) for a in args):
                return ExtVal(name, tuple(args), (), True)  # a conversion of an external result stays a symbolic term
            if name == "len":
                return len(args[0])
            if name in ("str", "int", "bool", "bytes", "bytearray", "memoryview", "list", "dict", "float", "set", "frozenset", "tuple", "sorted"):
                return {"str": str, "int": int, "bool": bool, "bytes": bytes, "bytearray": bytearray, "memoryview": memoryview, "list": list, "dict": dict, "float": float,
                        "set": set, "frozenset": frozenset, "tuple": tuple, "sorted": sorted}[name](*args)
            if name == "next" and isinstance(args[0], (list, tuple)):  # a generator expression folds to the list of what it would yield
                if args[0]:
                    return args[0][0]
                if len(args) > 1:
                    return args[1]
                raise FoldRaise(ExtVal("StopIteration", (), (), True))
            if name in ("reversed", "enumerate", "zip") and all(isinstance(a, (list, tuple, dict, str)) for a in args):
                return list({"reversed": reversed, "enumerate": enumerate, "zip": zip}[name](*args))
            if name in ("min", "max", "sum") and all(isinstance(x, (int, float)) for a in args for x in (a if isinstance(a, (list, tuple)) else [a])):
                return {"min": min, "max": max, "sum": sum}[name](*args)
            if name in ("divmod", "abs", "hex", "pow", "round", "bin", "oct", "chr", "ord") and all(isinstance(a, (int, float, str, bytes)) and not isinstance(a, bool) or isinstance(a, bool) for a in args) and not kwargs:
                import builtins as _b
                try:
                    return getattr(_b, name)(*args)
                except (ZeroDivisionError, ValueError, TypeError, OverflowError) as e:
                    raise FoldRaise(ExtVal(type(e).__name__, (), (), True))
            if name in ("int.from_bytes", "bytes.fromhex") and not any(isinstance(a, (ExtVal, Inst)) for a in list(args) + list(kwargs.values())):
                try:
                    return int.from_bytes(*args, **kwargs) if name == "int.from_bytes" else bytes.fromhex(*args)
                except (ValueError, TypeError, OverflowError) as e:
                    raise FoldRaise(ExtVal(type(e).__name__, (), (), True))
            if name == "all":
                return all(args[0])
            if name == "any":
                return any(args[0])
        except FoldRaise:
            raise
        except Exception:
            return Unknown(name + " failed")
        return Unknown(name)

    def _isinstance(self, v: Any, c: Any) -> Any:
        if isinstance(c, tuple) and c and c[0] == "builtin":
            classes = (c,)
        else:
            classes = c if isinstance(c, tuple) else (c,)
        res = False
        for k in classes:
            if isinstance(k, ClassVal):
                if isinstance(v, Inst) and k.cls in v.cls.mro:
                    res = True
                elif not isinstance(v, (Inst, Unknown)):
                    pass
                elif isinstance(v, Unknown):
                    return Unknown("isinstance")
            elif isinstance(k, tuple) and k and k[0] == "builtin":
                py = {"str": str, "int": int, "bool": bool, "bytes": bytes, "bytearray": bytearray, "memoryview": memoryview, "list": list, "dict": dict, "float": float,
                      "set": set, "tuple": tuple}.get(k[1])
                if py is None or isinstance(v, Unknown):
                    return Unknown("isinstance")
                if not isinstance(v, (Inst, ExtVal, FuncVal, ClassVal)) and isinstance(v, py):
                    res = True
            elif isinstance(k, ExtVal):
                if isinstance(v, ExtVal):
                    return Unknown("isinstance ext")
            else:
                return Unknown("isinstance")
        return res

    def _bound_builtin(self, obj: Any, name: str, args, kwargs) -> Any:
        if any(is_unknown(a) for a in list(args) + list(kwargs.values())):
            return Unknown(name + " of an unknown argument")  # (`d.get(<unknown>)` is not `None`)
        try:
            if isinstance(obj, dict):
                if name == "get":
                    return obj.get(args[0], args[1] if len(args) > 1 else None)
                if name == "copy":
                    return dict(obj)
                if name == "update":
                    for a in args:
                        if isinstance(a, dict):
                            obj.update(a)
                    obj.update(kwargs)
                    return None
                if name == "keys":
                    return KeysView(obj.keys())
                if name == "values":
                    return list(obj.values())
                if name == "items":
                    return [(k, v) for k, v in obj.items()]
                if name == "setdefault":
                    return obj.setdefault(args[0], args[1] if len(args) > 1 else None)
            if isinstance(obj, list):
                if name == "append":
                    obj.append(args[0])
                    return None
                if name == "extend":
                    obj.extend(args[0])
                    return None
                if name == "copy":
                    return list(obj)
            if isinstance(obj, set) and name == "add":
                obj.add(args[0])
                return None
            if isinstance(obj, KeysView) and name == "isdisjoint":
                return obj.isdisjoint(args[0])
            if isinstance(obj, (set, frozenset)) and name in ("difference", "intersection", "union", "symmetric_difference", "issubset", "issuperset", "isdisjoint", "copy") \
                    and not kwargs and not any(is_unknown(a) or isinstance(a, (ExtVal, Inst)) for a in args):
                return getattr(obj, name)(*args)
            if isinstance(obj, set) and name in ("discard", "update", "difference_update", "intersection_update") and not kwargs \
                    and not any(is_unknown(a) or isinstance(a, (ExtVal, Inst)) for a in args):
                getattr(obj, name)(*args)
                return None
            if isinstance(obj, str):
                return getattr(obj, name)(*args)
            if isinstance(obj, (int, bytes)) and not isinstance(obj, bool) and not any(is_unknown(a) or isinstance(a, (ExtVal, Inst)) for a in list(args) + list(kwargs.values())):
                try:
                    return getattr(obj, name)(*args, **kwargs)
                except (OverflowError, ValueError, TypeError, UnicodeDecodeError) as e:  # what the interpreter would raise at this point
                    raise FoldRaise(ExtVal(type(e).__name__, (), (), True))
        except FoldRaise:
            raise
        except Exception:
            return Unknown(name + " failed")
        return Unknown(name)

    # ------------------------------------------------------------------ functions / constructors
    def instantiate(self, ci: ClassInfo, args: List[Any], kwargs: Dict[str, Any]) -> Any:
        inst = Inst(ci)
        init = ci.lookup("__init__")
        if init is not None:
            self._call_function(FuncVal(init, None, inst), args, kwargs)
        return inst

    def _bind(self, fn: FunctionInfo, bound: Any, args: List[Any], kwargs: Dict[str, Any], m: Module) -> Dict[str, Any]:
        env: Dict[str, Any] = {}
        a = fn.node.args
        pos = [x.arg for x in a.posonlyargs + a.args]
        vals = list(args)
        if fn.self_name is not None and bound is not None:
            vals = [bound] + vals
        defaults = [None] * (len(pos) - len(a.defaults)) + list(a.defaults)
        for i, p in enumerate(pos):
            if i < len(vals):
                env[p] = vals[i]
            elif p in kwargs:
                env[p] = kwargs[p]
            elif defaults[i] is not None:
                env[p] = self.expr(defaults[i], {}, m)
            else:
                env[p] = Unknown(f"missing argument {p}")
        if a.vararg is not None:
            env[a.vararg.arg] = tuple(vals[len(pos):])
        for p, d in zip(a.kwonlyargs, a.kw_defaults):
            if p.arg in kwargs:
                env[p.arg] = kwargs[p.arg]
            elif d is not None:
                env[p.arg] = self.expr(d, {}, m)
            else:
                env[p.arg] = Unknown(f"missing argument {p.arg}")
        if a.kwarg is not None:
            env[a.kwarg.arg] = {k: v for k, v in kwargs.items() if k not in pos and k not in [x.arg for x in a.kwonlyargs]}
        return env

    def _call_function(self, f: FuncVal, args: List[Any], kwargs: Dict[str, Any]) -> Any:
        fn = f.fn
        if isinstance(fn.node, ast.Lambda):
            return Unknown("lambda")
        hook = self.intercepts.get(fn.short)
        if hook is not None:  # a rule asks for the arguments a callee is handed instead of its result
            b = self._bind(fn, f.bound, args, kwargs, fn.module)
            return hook(b)
        m = fn.module
        self._fn_stack.append(fn.short)
        try:
            return self._call_function_body(f, fn, m, args, kwargs)
        finally:
            self._fn_stack.pop()

    def _call_function_body(self, f: FuncVal, fn, m, args: List[Any], kwargs: Dict[str, Any]) -> Any:
        env = dict(f.env or {})
        env.update(self._bind(fn, f.bound, args, kwargs, m))
        if fn.self_name is not None and f.bound is not None:
            env["__self__"] = f.bound
        env["__class__"] = fn.cls
        env["__fn__"] = fn
        try:
            self.block(fn.node.body, env, m)
        except _Return as r:
            return r.value
        return None

    # ------------------------------------------------------------------ statements
    def _bind_target(self, t: ast.expr, v: Any, env: Dict[str, Any]) -> bool:
        if isinstance(t, ast.Name):
            env[t.id] = v
            return True
        if isinstance(t, (ast.Tuple, ast.List)) and isinstance(v, (tuple, list)) and len(v) == len(t.elts):
            return all(self._bind_target(a, b, env) for a, b in zip(t.elts, v))
        return False

    def block(self, body: List[ast.stmt], env: Dict[str, Any], m: Module) -> None:
        for st in body:
            self.stmt(st, env, m)

    def stmt(self, st: ast.stmt, env: Dict[str, Any], m: Module) -> None:
        self.steps += 1
        if isinstance(st, ast.Expr):
            if isinstance(st.value, ast.Constant):
                return
            self.expr(st.value, env, m)
            return
        if isinstance(st, (ast.Assign, ast.AnnAssign)):
            if isinstance(st, ast.AnnAssign):
                if st.value is None:
                    return
                targets = [st.target]
            else:
                targets = st.targets
            v = self.expr(st.value, env, m)
            for t in targets:
                self._assign(t, v, env, m)
            return
        if isinstance(st, ast.AugAssign):
            cur = self.expr(st.target, env, m)
            v = self.expr(st.value, env, m)
            import operator as _op
            ops_ = {ast.Add: _op.add, ast.Sub: _op.sub, ast.Mult: _op.mul, ast.FloorDiv: _op.floordiv, ast.Mod: _op.mod, ast.BitOr: _op.or_, ast.BitAnd: _op.and_}
            try:
                f_ = ops_.get(type(st.op))
                plain = (int, float, str, bytes, list, tuple, dict, set)
                nv = f_(cur, v) if f_ is not None and isinstance(cur, plain) and isinstance(v, plain) and not isinstance(cur, (list, dict, set)) else (
                    cur + v if isinstance(st.op, ast.Add) and not is_unknown(cur) and not is_unknown(v) else Unknown("aug"))
            except Exception:
                nv = Unknown("aug")
            self._assign(st.target, nv, env, m)
            return
        if isinstance(st, ast.If):
            env["__if__"] = st
            try:
                t = self.truth(self.expr(st.test, env, m))
            finally:
                env.pop("__if__", None)
            self._note(st.test, t, st)
            if t is None:
                # undecidable: execute both arms on copies and poison what they assign
                self._poison(st, env, m)
                return
            self.block(st.body if t else st.orelse, env, m)
            return
        if isinstance(st, ast.For):
            it = self.expr(st.iter, env, m)
            if isinstance(it, dict):
                it = list(it.keys())
            if not isinstance(it, (list, tuple, set, frozenset)):
                self._note(st.iter, None)
                self._poison(st, env, m)
                return
            broke = False
            for x in list(it):
                if not self._bind_target(st.target, x, env):
                    self._note(st.target, None)
                    self._poison(st, env, m)
                    return
                try:
                    self.block(st.body, env, m)
                except _Break:
                    broke = True
                    break
                except _Continue:
                    continue
            if not broke and st.orelse:
                self.block(st.orelse, env, m)
            return
        if isinstance(st, ast.Delete):
            for t in st.targets:
                if isinstance(t, ast.Subscript):
                    obj = self.expr(t.value, env, m)
                    k = self.expr(t.slice, env, m)
                    if isinstance(obj, (dict, list)) and not is_unknown(k):
                        try:
                            del obj[k]
                            continue
                        except (KeyError, IndexError):
                            fr = FoldRaise(None)
                            fr.name = "KeyError" if isinstance(obj, dict) else "IndexError"
                            raise fr
                        except Exception:
                            pass
                self._note(t, None)
                self._poison(st, env, m)
            return
        if isinstance(st, ast.Break):
            raise _Break()
        if isinstance(st, ast.Continue):
            raise _Continue()
        if isinstance(st, ast.Return):
            raise _Return(self.expr(st.value, env, m) if st.value is not None else None)
        if isinstance(st, ast.Raise):
            fr = FoldRaise(self.expr(st.exc, env, m) if st.exc is not None else None)
            ex_ = st.exc.func if isinstance(st.exc, ast.Call) else st.exc
            fr.name = norm(ex_).split(".")[-1] if ex_ is not None else ""
            if st.exc is None:
                fr.exc = None  # the class as written (builtin exception classes do not fold to a value)
            raise fr
        if isinstance(st, (ast.Pass, ast.Import, ast.ImportFrom, ast.Global, ast.Nonlocal)):
            if isinstance(st, ast.Import):
                for a in st.names:
                    nm = a.asname or a.name.split(".")[0]
                    target = a.name if a.asname else a.name.split(".")[0]
                    env[nm] = self.prog.modules.get(target) or ExtVal(target)
            if isinstance(st, ast.ImportFrom):
                fn = env.get("__fn__")
                if fn is not None:
                    for a in st.names:
                        r = self.prog.resolve_symbol(m, a.asname or a.name, fn=fn)
                        if isinstance(r, ClassInfo):
                            env[a.asname or a.name] = ClassVal(r)
                        elif isinstance(r, FunctionInfo):
                            env[a.asname or a.name] = FuncVal(r)
                        elif isinstance(r, Ext):
                            env[a.asname or a.name] = ExtVal(r.name)
            return
        if isinstance(st, (ast.FunctionDef, ast.AsyncFunctionDef)):
            fn = env.get("__fn__")
            nested = fn.nested.get(st.name) if fn is not None else None
            if nested is not None:
                env[st.name] = FuncVal(nested, dict(env))
            return
        if isinstance(st, ast.Assert):
            return
        if isinstance(st, ast.Try):
            try:
                try:
                    self.block(st.body, env, m)
                except FoldRaise as fr:
                    h = self._match_handler(st, fr, env, m)
                    if h is None:
                        raise  # no handler of this statement catches it
                    if h == "unknown":
                        self._poison(st, env, m)
                        return
                    if h.name:
                        env[h.name] = fr.exc if fr.exc is not None else Unknown("exception")
                    try:
                        self.block(h.body, env, m)
                    except FoldRaise as fr2:
                        if fr2.exc is None and getattr(fr2, "name", "") == "":
                            raise fr  # bare `raise`
                        raise
                else:
                    self.block(st.orelse, env, m)
            finally:
                if st.finalbody:
                    self.block(st.finalbody, env, m)
            return
        self._note(st, None)  # a statement kind the folder does not interpret: what follows is not a decision
        self._poison(st, env, m)

    def _match_handler(self, st: ast.Try, fr: "FoldRaise", env: Dict[str, Any], m: Module):
        """the first handler of `st` that catches the folded raise: the handler, None (none catches it), or "unknown" (class relation not decidable)"""
        import builtins as _b
        rname = getattr(fr, "name", "") or ""
        rinst = fr.exc if isinstance(fr.exc, Inst) else None

        def builtin_exc(nm: str):
            c = getattr(_b, nm, None)
            return c if isinstance(c, type) and issubclass(c, BaseException) else None

        def catches(te: ast.expr):
            tv = self.expr(te, env, m)
            if isinstance(tv, ClassVal):
                if rinst is not None:
                    return tv.cls in rinst.cls.mro
                return False if builtin_exc(rname) is not None else None
            hn = norm(te).split(".")[-1]
            hb = builtin_exc(hn)
            if hb is None:
                return None
            if rinst is not None:
                for c in rinst.cls.mro:
                    for eb in c.ext_bases:
                        eb_c = builtin_exc(eb.split(".")[-1])
                        if eb_c is not None and issubclass(eb_c, hb):
                            return True
                return hb in (Exception, BaseException)
            rb = builtin_exc(rname)
            if rb is None:
                return None
            return issubclass(rb, hb)
        for h in st.handlers:
            if h.type is None:
                return h
            tes = h.type.elts if isinstance(h.type, ast.Tuple) else [h.type]
            rs = [catches(te) for te in tes]
            if any(r is True for r in rs):
                return h
            if any(r is None for r in rs):
                return "unknown"
        return None

    def _poison(self, st: ast.AST, env: Dict[str, Any], m: Module) -> None:
        for n in ast.walk(st):
            if isinstance(n, (ast.Assign, ast.AnnAssign, ast.AugAssign)):
                targets = n.targets if isinstance(n, ast.Assign) else [n.target]
                for t in targets:
                    self._assign(t, Unknown(f"assigned under undecidable control ({norm(st)[:40]})"), env, m)
            elif isinstance(n, ast.Call) and isinstance(n.func, ast.Attribute) and isinstance(n.func.value, ast.Name) and n.func.value.id in env \
                    and n.func.attr in ("append", "extend", "insert", "remove", "pop", "update", "add", "discard", "clear", "setdefault", "sort", "reverse", "popitem") \
                    and isinstance(env[n.func.value.id], (list, dict, set)):
                # a container mutated under undecidable control is no longer known
                env[n.func.value.id] = Unknown(f"mutated under undecidable control ({norm(st)[:40]})")
            elif isinstance(n, ast.Delete):
                for t in n.targets:
                    if isinstance(t, ast.Subscript) and isinstance(t.value, ast.Name) and t.value.id in env:
                        env[t.value.id] = Unknown(f"mutated under undecidable control ({norm(st)[:40]})")

    def _assign(self, t: ast.expr, v: Any, env: Dict[str, Any], m: Module) -> None:
        if isinstance(t, ast.Name):
            env[t.id] = v
        elif isinstance(t, ast.Attribute):
            obj = self.expr(t.value, env, m)
            if isinstance(obj, Inst):
                obj.attrs[t.attr] = v
            elif isinstance(obj, ClassVal):
                self.class_state[(obj.cls.qualname, t.attr)] = v
        elif isinstance(t, ast.Subscript):
            obj = self.expr(t.value, env, m)
            k = self.expr(t.slice, env, m)
            if isinstance(obj, (dict, list)) and not is_unknown(k):
                try:
                    obj[k] = v
                except Exception:
                    pass
            elif isinstance(obj, (dict,)) and is_unknown(k):
                obj[Unknown("key")] = v  # type: ignore[index]
        elif isinstance(t, (ast.Tuple, ast.List)):
            if isinstance(v, (tuple, list)) and len(v) == len(t.elts):
                for a, b in zip(t.elts, v):
                    self._assign(a, b, env, m)
            else:
                for a in t.elts:
                    self._assign(a, Unknown("unpack"), env, m)

    # ------------------------------------------------------------------ import-time state
    def run_import_time(self) -> None:
        """execute the module-level calls of every package module (registration code) in dependency order"""
        order = self._import_order()
        for m in order:
            for st in m.tree.body:
                if isinstance(st, ast.Expr) and isinstance(st.value, ast.Call):
                    try:
                        self.expr(st.value, {}, m)
                    except FoldRaise as e:
                        raise AnalysisError(f"import-time code of {m.name} raises in the folder: {e.exc!r}")
                    self.log.append(f"{m.short}: {norm(st)[:70]}")

    def _import_order(self) -> List[Module]:
        deps: Dict[str, List[str]] = {}
        for m in self.prog.modules.values():
            d: List[str] = []
            for st in m.tree.body:
                if isinstance(st, ast.ImportFrom):
                    tgt = self.prog._abs_import(m, st)
                    if tgt in self.prog.modules:
                        d.append(tgt)
                    for a in st.names:
                        if f"{tgt}.{a.name}" in self.prog.modules:
                            d.append(f"{tgt}.{a.name}")
                elif isinstance(st, ast.Import):
                    for a in st.names:
                        if a.name in self.prog.modules:
                            d.append(a.name)
            # importing a submodule imports its packages first
            parts = m.name.split(".")
            for i in range(1, len(parts)):
                pk = ".".join(parts[:i])
                if pk in self.prog.modules:
                    d.append(pk)
            deps[m.name] = d
        out: List[Module] = []
        state: Dict[str, int] = {}

        def visit(n: str) -> None:
            if state.get(n) == 2:
                return
            if state.get(n) == 1:
                return  # cycle: Python tolerates partially initialised modules
            state[n] = 1
            for d in deps.get(n, []):
                visit(d)
            state[n] = 2
            out.append(self.prog.modules[n])
        for n in sorted(deps):
            visit(n)
        return out


def show(v: Any, depth: int = 0) -> str:
    """stable printable form of a folded value"""
    if isinstance(v, Inst):
        return f"{v.cls.name}({', '.join(f'{k}={show(x, depth + 1)}' for k, x in sorted(v.attrs.items()) if depth < 2)})"
    if isinstance(v, dict):
        return "{" + ", ".join(f"{k!r}: {show(x, depth + 1)}" for k, x in v.items()) + "}"
    if isinstance(v, (list, tuple)):
        return "[" + ", ".join(show(x, depth + 1) for x in v) + "]"
    return repr(v)
