"""C14 - key sets resolve exactly the key named by kid.

R14.1 get_by_kid return discipline         R14.2 guess_key flow; use_random literals at the call sites
R14.3 algorithm -> key-type table covers every registered algorithm
R14.4 key selection reads but does not reorder / modify the set        R14.5 every key is kept and gets a kid
R14.6 the three set_kid siblings write "kid"                            R14.7 sender key lookup by skid
"""
from __future__ import annotations
import ast
from typing import Dict, List, Optional, Set

from ..program import AnalysisError, FunctionInfo, fn_nodes, norm
from ..cfg import cfg_of
from ..decide import outcomes
from ..effects import Effects
from ..fold import Inst, is_unknown
from ..spec import tables as T
from .common import inconclusive_on_error as _ioe
from .common import (resolve_all, find_local, JWE_CONSUME, JWE_PRODUCE, JWS_CONSUME, JWS_PRODUCE, can_reach_exit, const_value, entries, is_const, scope_of,
                     succ_by_label)
from .c05 import _resolve_local

KS = "_keys:KeySet"


@_ioe
def _get_by_kid_folded(ctx, fn) -> Optional[List[str]]:
    """Fold KeySet.get_by_kid on probe sets (0, 1, 3 keys; a duplicated kid; kid None / present / absent): the result is the single key
    when no kid is asked for and the set holds one key, otherwise the first key in set order whose kid equals the request, otherwise
    InvalidKeyIdError.  None when the body does not fold or a test was decided one way only on the probes (the path rule decides then)."""
    from ..fold import FuncVal, FoldRaise
    eng = ctx.eng
    P, F = eng.prog, eng.folder
    oc = P.cls("rfc7518.oct_key:OctKey")
    ka, kb, ka2 = [Inst(oc, {"kid": k}) for k in ("a", "b", "a")]
    problems: List[str] = []
    n = 0
    F.start_trace()
    try:
        for keys in ([], [ka], [kb, ka, ka2], [ka, ka2]):
            for kid in (None, "a", "b", "zz"):
                inst = Inst(P.cls(KS), {"keys": list(keys)})
                want = keys[0] if (kid is None and len(keys) == 1) else next((k for k in keys if k.attrs["kid"] == kid), None)
                try:
                    r = F.call(FuncVal(fn, None, inst), [kid], {})
                except FoldRaise as e:
                    r = e
                n += 1
                where = f"{len(keys)} key(s) with kids {[k.attrs['kid'] for k in keys]}, request {kid!r}"
                if isinstance(r, FoldRaise):
                    nm = getattr(getattr(r.exc, "cls", None), "name", None)
                    if want is not None:
                        problems.append(f"get_by_kid refuses although a key matches ({where})")
                    elif nm != "InvalidKeyIdError":
                        problems.append(f"an unknown kid raises {r.exc!r}, not the invalid-key-id error ({where})")
                elif is_unknown(r):
                    return None
                elif want is None:
                    problems.append(f"get_by_kid returns {r!r} on a path that established neither `kid is None and a single key` nor `key.kid == kid` ({where})")
                elif r is not want:
                    problems.append(f"get_by_kid returns a key other than the first match in set order ({where})")
                if inst.attrs["keys"] != list(keys):
                    problems.append("get_by_kid changes the key list")
    except AnalysisError:
        return None
    finally:
        sided = F.one_sided()
    if sided:
        return None
    return problems


def r14_1(ctx) -> None:
    eng = ctx.eng
    fn = eng.prog.cls(KS).methods.get("get_by_kid")
    if fn is None:
        raise AnalysisError("KeySet.get_by_kid vanished")
    folded = _get_by_kid_folded(ctx, fn)
    if folded is not None:
        ctx.check(not folded, "R14.1", fn, fn.node, f"{fn.short} :: selection (folded on probe sets)", folded[0] if folded else "", "single key when no kid is asked; else first key whose kid matches; else InvalidKeyIdError",
                  construct="get_by_kid selection")
        ctx.count("R14.1", 2, 2, "return paths of get_by_kid")
        return
    sn = fn.self_name
    kp = fn.pos_params[1]
    loops0 = [l for l in cfg_of(fn).nodes if l.kind == "loop"]
    KV = norm(loops0[0].ast.target) if len(loops0) == 1 and isinstance(loops0[0].ast.target, ast.Name) else "key"  # type: ignore[union-attr]

    def atom(e: ast.AST):
        if isinstance(e, ast.Compare) and len(e.ops) == 1:
            l, r = norm(e.left), norm(e.comparators[0])
            if l == kp and is_const(e.comparators[0], None) and isinstance(e.ops[0], (ast.Is, ast.IsNot)):
                return ("kid_none", isinstance(e.ops[0], ast.Is))
            if l == f"len({sn}.keys)" and const_value(e.comparators[0]) == 1 and isinstance(e.ops[0], (ast.Eq, ast.NotEq)):
                return ("single", isinstance(e.ops[0], ast.Eq))
            if {l, r} == {f"{KV}.kid", kp} and isinstance(e.ops[0], (ast.Eq, ast.NotEq)):
                return ("kid_match", isinstance(e.ops[0], ast.Eq))
        return None
    outs = outcomes(fn, atom)
    n = 0
    good = True
    for o in outs:
        if o.kind == "return":
            n += 1
            rv = norm(o.node.ast.value) if o.node is not None and o.node.ast.value is not None else ""
            a = o.literals.get("kid_none") is True and o.literals.get("single") is True and rv == f"{sn}.keys[0]"
            b = o.literals.get("kid_match") is True and rv == KV
            if o.unknown or not (a or b):
                ctx.fail("R14.1", fn, o.node.ast if o.node else fn.node, f"get_by_kid returns {rv} on a path that established neither `kid is None and a single key` nor "
                         f"`key.kid == kid` (literals {o.literals}, unknown {o.unknown})", construct=f"unguarded return {rv}")
                good = False
        elif o.kind == "fall":
            ctx.fail("R14.1", fn, fn.node, "get_by_kid can fall through without a key or an error", construct="fallthrough")
            good = False
        elif o.kind == "raise" and o.exc.split(".")[-1] != "InvalidKeyIdError":
            ctx.fail("R14.1", fn, o.node.ast if o.node else None, f"an unknown kid raises {o.exc}, not the invalid-key-id error", construct="wrong error class")
            good = False
    # the loop runs over the set's keys
    loops = [l for l in cfg_of(fn).nodes if l.kind == "loop"]
    okl = len(loops) == 1 and norm(loops[0].ast.iter) in (f"{sn}.keys", sn) and norm(loops[0].ast.target) == KV
    ctx.check(okl, "R14.1", fn, fn.node, f"{fn.short} :: iterates self.keys", "get_by_kid does not search all keys of the set", "for key in self.keys", construct="get_by_kid loop")
    if good:
        ctx.ok("R14.1", f"{fn.short} :: returns", f"{n} return paths: each guarded by (kid is None and len(keys) == 1) or key.kid == kid; fall-through raises InvalidKeyIdError")
    ctx.count("R14.1", n, 2, "return paths of get_by_kid")


def _has_method(eng, fullname: str, meth: str) -> bool:
    ci = eng.cg._fullname_to_class.get(fullname)
    if ci is None:
        return fullname not in ("builtins.dict", "builtins.str", "builtins.bytes", "builtins.list", "builtins.tuple", "builtins.int", "builtins.bool", "builtins.None")  # foreign class: not decided
    return ci.lookup(meth) is not None


@_ioe
def _guess_key_folded(ctx, gk) -> Optional[List[str]]:
    """Fold jwk.guess_key on probe key sets (1 and 3 keys), probe token parts (no kid, a kid, an empty kid) and both values of use_random, with
    KeySet.pick_random_key / get_by_kid / ensure_kid intercepted: a key set is asked for a random key exactly when the part names no kid and
    use_random is given - whatever the size of the set - and then the picked key's kid is ensured and written into the part; otherwise the set is
    asked for the key of exactly the kid the part names; a plain key is returned as it is; anything else is refused with ValueError."""
    from ..fold import FuncVal, ExtVal, FoldRaise
    eng = ctx.eng
    P, F = eng.prog, eng.folder
    ks, oc, hm = P.cls(KS), P.cls("rfc7518.oct_key:OctKey"), P.cls("rfc7515.model:HeaderMember")
    keys3 = [Inst(oc, {"dict_value": {"kty": "oct", "kid": x}}) for x in ("a", "b", "c")]
    problems: List[str] = []
    F.start_trace()
    try:
        for keys in (keys3[:1], keys3[:2], keys3):
            for hdr in ({"alg": "HS256"}, {"alg": "HS256", "kid": "b"}, {"alg": "HS256", "kid": ""}):
                for ur in (True, False, None):
                    calls = []
                    F.intercepts = {"_keys:KeySet.pick_random_key": lambda b, keys=keys, calls=calls: (calls.append(("pick", b.get("algorithm"))), keys[-1])[1],
                                    "_keys:KeySet.get_by_kid": lambda b, calls=calls: (calls.append(("get", b.get("kid"))), ExtVal("GOT"))[1],
                                    "rfc7517.models:BaseKey.ensure_kid": lambda b, calls=calls: (calls.append(("ensure", None)), None)[1]}
                    obj = F.instantiate(hm, [dict(hdr)], {})
                    try:
                        r = F.call(FuncVal(gk, None, None), [Inst(ks, {"keys": list(keys)}), obj] + ([] if ur is None else [ur]), {})
                    except FoldRaise as ex:
                        r = "raise " + (getattr(ex, "name", "") or "?")
                    finally:
                        F.intercepts = {}
                    if is_unknown(r):
                        return None
                    where = f"set of {len(keys)}, header {hdr!r}, use_random={'default' if ur is None else ur}"
                    kid = hdr.get("kid")
                    if not kid and ur:
                        want_calls = [("pick", "HS256"), ("ensure", None)]
                        written = (obj.attrs.get("header") or {}).get("kid") if isinstance(obj.attrs.get("header"), dict) else None
                        written = written if written is not None else (obj.attrs.get("protected") or {}).get("kid")
                        if calls != want_calls or r is not keys[-1]:
                            problems.append(f"{where}: expected a random pick (and its kid ensured), folds to calls {calls} and result {r!r}")
                        elif written != keys[-1].attrs["dict_value"]["kid"]:
                            problems.append(f"{where}: the picked key's kid is not written into the token part (kid there: {written!r})")
                    else:
                        if calls != [("get", kid)] or not (isinstance(r, ExtVal) and r.name == "GOT"):
                            problems.append(f"{where}: expected get_by_kid({kid!r}), folds to calls {calls} and result {r!r}")
        # a plain key is handed back; something that is neither is refused
        obj = F.instantiate(hm, [{"alg": "HS256"}], {})
        r = F.call(FuncVal(gk, None, None), [keys3[0], obj], {})
        if r is not keys3[0]:
            problems.append(f"a plain key is not handed back as it is (folds to {r!r})")
        try:
            r = F.call(FuncVal(gk, None, None), [obj, obj], {})
            problems.append(f"an object that is neither a key nor a key set is not refused (folds to {r!r})")
        except FoldRaise as ex:
            if getattr(ex, "name", "") != "ValueError":
                problems.append(f"an object that is neither a key nor a key set is refused with {getattr(ex, 'name', '?')}, not ValueError")
    finally:
        F.intercepts = {}
        sided = F.one_sided(ignore=("_normalize_key", "__init__", "set_kid", "headers"), ignore_tests=("callable(",))
    return None if sided else problems


def r14_2(ctx, rule: str = "R14.2", within: Optional[Set[FunctionInfo]] = None) -> None:
    eng = ctx.eng
    P = eng.prog
    gk = P.func("jwk:guess_key")
    folded = _guess_key_folded(ctx, gk)
    if folded is not None:
        ctx.check(not folded, rule, gk, gk.node, f"{gk.short} :: selection (folded on probe sets / parts)", "; ".join(folded[:2]),
                  "pick_random_key iff use_random and no kid (any set size), kid ensured and written back; otherwise get_by_kid(kid)", construct="guess_key selection")
    cfg = cfg_of(gk)
    op = gk.pos_params[1]
    urp = gk.pos_params[2]
    # kid is read from the merged headers of the object
    kidv = find_local(eng, gk, lambda t: t == f"{op}.headers().get('kid')")
    kd = [d for d in eng.flow._defs(gk).get(kidv, []) if d[0] == "assign"]
    ok_kid = len(kd) == 1 and _resolve_local(eng, gk, kd[0][1]) == f"{op}.headers().get('kid')"
    ctx.check(ok_kid, rule, gk, gk.node, f"{gk.short} :: kid source", "the kid used for key selection is not the token's (merged) header kid", "kid = obj.headers().get('kid')", construct="kid source")
    ks = P.cls(KS)
    pr = ks.methods["pick_random_key"]
    gb = ks.methods["get_by_kid"]
    ek = P.cls("rfc7517.models:BaseKey").methods["ensure_kid"]
    picks = [s for s in eng.cg.calls_in(gk) if pr in s.callees]
    gets = [s for s in eng.cg.calls_in(gk) if gb in s.callees]
    ok = len(picks) == 1 and len(gets) == 1
    if ok:
        pn, gn = cfg.node_of(picks[0].node), cfg.node_of(gets[0].node)
        tk = [t for t in cfg.nodes if t.kind == "test" and norm(t.ast) == kidv]
        tu = [t for t in cfg.nodes if t.kind == "test" and norm(t.ast) == urp]
        ok = bool(tk) and bool(tu)
        if ok:
            # random pick only when kid falsy and use_random truthy
            r1 = cfg.reachable(cfg.entry, edge_filter=lambda a, b, l: not (a in tk and l == "false"))
            r2 = cfg.reachable(cfg.entry, edge_filter=lambda a, b, l: not (a in tu and l == "true"))
            ok = pn not in r1 and pn not in r2
            # with a kid present the lookup is by kid
            r3 = cfg.reachable(cfg.entry, edge_filter=lambda a, b, l: not (a in tk and l == "false"))
            ok = ok and gn in r3 and norm(gets[0].node.args[0]) == kidv
    ctx.check(ok, rule, gk, gk.node, f"{gk.short} :: selection", "a random key is picked although the header names a kid (or without use_random), or the kid lookup does not use the header kid",
              "pick_random_key iff use_random and not kid; otherwise get_by_kid(kid)", construct="guess_key selection")
    # every value the function can return is the key itself, the kid lookup or the random pick - no other route into the set
    rets_ = [r.ast.value for r in cfg.returns() if r.ast.value is not None]
    routes_ok = bool(rets_)
    bad_route = ""
    for rv_ in rets_:
        for txt in resolve_all(eng, gk, rv_):
            if ".get_by_kid(" in txt and txt.endswith(f"({op}.headers().get('kid'))"):
                continue
            if ".pick_random_key(" in txt:
                continue
            if txt in (f"_normalize_key({gk.pos_params[0]})", f"_normalize_key({gk.pos_params[0]}({op}))"):
                continue
            routes_ok = False
            bad_route = txt
    ctx.check(routes_ok, rule, gk, gk.node, f"{gk.short} :: routes into the key set", f"guess_key can return `{bad_route[:80]}`: a key taken from the set neither by get_by_kid(header kid) nor by "
              "pick_random_key - the kid rule and the kid write-back do not apply to it", "key | set.get_by_kid(kid) | set.pick_random_key(alg)", construct="guess_key routes")
    # after the random pick: ensure_kid and write-back
    if picks:
        pn = cfg.node_of(picks[0].node)
        eks = [cfg.node_of(s.node) for s in eng.cg.calls_in(gk) if ek in s.callees]
        sk = [s for s in eng.cg.calls_in(gk) if isinstance(s.node, ast.Call) and s.attr == "set_kid" and norm(s.node.func.value) == op]
        okw = bool(eks) and bool(sk) and all(norm(s.node.args[0]).endswith(".kid") for s in sk)
        if okw:
            rets = [r for r in cfg.returns() if pn in [x for x in cfg.nodes if r in cfg.reachable(x)] and r in cfg.reachable(pn)]
            skn = [cfg.node_of(s.node) for s in sk]
            okw = all(cfg.must_pass(pn, r, [e for e in eks if e is not None]) and cfg.must_pass(pn, r, [x for x in skn if x is not None]) for r in rets)
        ctx.check(okw, rule, gk, gk.node, f"{gk.short} :: kid write-back", "after a random pick the key's kid is not ensured and recorded in the token header on every path",
                  "rv_key.ensure_kid(); obj.set_kid(rv_key.kid)", construct="kid write-back")
    # call sites: consume entries never ask for a random key, produce entries always do
    cons: Set[FunctionInfo] = set()
    prod: Set[FunctionInfo] = set()
    for e in entries(eng, JWS_CONSUME + JWE_CONSUME + [("jws", "validate_compact")]):
        cons.update(scope_of(eng, e))
    for e in entries(eng, JWS_PRODUCE + JWE_PRODUCE):
        prod.update(scope_of(eng, e))
    n = 0
    for s in eng.cg.callers.get(gk, []):
        if not isinstance(s.node, ast.Call):
            continue
        a = eng.cg.arg_for_param(s, gk, urp)
        owner = s.fn.parent or s.fn
        if within is not None and owner not in within:
            continue  # a call site of an operation the property that borrows this rule does not speak about
        is_c = owner in cons and owner not in prod
        is_p = owner in prod and owner not in cons
        n += 1
        # the object handed over is one whose headers() is the header set of the token part being processed (the kid is read from it and
        # written back into it): the type checker's type of the argument has a headers method
        oa = eng.cg.arg_for_param(s, gk, gk.pos_params[1]) if len(gk.pos_params) > 1 else None
        if oa is not None:
            td = eng.types.of(s.fn.module, oa)
            if td.known and not td.any:
                lacks = [c for c in td.classes if not _has_method(eng, c, "headers")]
                ctx.check(not lacks, rule, s.fn, s.node, f"{s.fn.short} :: object of {norm(s.node)[:40]}", f"guess_key is handed `{norm(oa)[:40]}` of type {lacks}: that has no headers() - "
                          "a key set or a key callback cannot read the kid from it", "an object with headers() / set_kid()", construct=f"guess_key object at {s.fn.short}")
        if is_c:
            ctx.check(a is None or is_const(a, False), rule, s.fn, s.node, f"{s.fn.short} :: {norm(s.node)[:50]}", "a consuming operation may pick a random key from the set instead of the one named by kid",
                      "use_random absent / False", construct=f"use_random at consume site {s.fn.short}")
        elif is_p:
            ctx.check(a is not None and is_const(a, True), rule, s.fn, s.node, f"{s.fn.short} :: {norm(s.node)[:50]}", "a producing operation does not allow choosing a key from the set when no kid is given",
                      "use_random=True", construct=f"use_random at produce site {s.fn.short}")
        else:
            ctx.fail(rule, s.fn, s.node, "guess_key is called from a function shared by producing and consuming operations: use_random cannot be decided", construct=f"shared guess_key site {s.fn.short}")
    ctx.count(rule, n, 12 if within is None else 2, "guess_key call sites")


def r14_10(ctx) -> None:
    """_normalize_key hands a key or key set on unchanged; raw text goes through OctKey.import_key (the warning path) - it never
    unpacks a key set and never builds a key object directly"""
    eng = ctx.eng
    nk = eng.prog.func("jwk:_normalize_key")
    kp = nk.pos_params[0]
    rets = [r.value for r in fn_nodes(nk) if isinstance(r, ast.Return) and r.value is not None]
    got = sorted({t for rv in rets for t in resolve_all(eng, nk, rv)})
    ok = bool(got) and set(got) <= {kp, f"OctKey.import_key({kp})"} and kp in got
    ctx.check(ok, "R14.10", nk, nk.node, nk.short, f"_normalize_key returns {got}: a key set must be passed on as it is (the kid rules of guess_key apply to it) and raw key text "
              "must be imported through OctKey.import_key (unsafe-text warning)", f"return {kp} | OctKey.import_key({kp})", construct="_normalize_key results")


def r14_11(ctx) -> None:
    """KeySet.algorithm_keys is one table shared by jws and jwe: it is only ever filled item by item, never rebound (a rebinding
    registration wipes the entries of the module imported earlier)"""
    eng = ctx.eng
    n = 0
    for fn in eng.prog.all_functions():
        for node in fn_nodes(fn):
            tgs = node.targets if isinstance(node, ast.Assign) else ([node.target] if isinstance(node, (ast.AnnAssign, ast.AugAssign)) else [])
            for t in tgs:
                if isinstance(t, ast.Attribute) and t.attr == "algorithm_keys":
                    if fn.name == "<module>" and fn.module.short == "_keys":
                        continue
                    n += 1
                    ctx.fail("R14.11", fn, node, f"`{norm(t)}` is rebound in {fn.short}: entries registered by the other module are lost, pick_random_key then ignores the key type",
                             construct=f"algorithm_keys rebound in {fn.short}")
    ctx.ok("R14.11", "KeySet.algorithm_keys", f"{n} rebinding assignment(s) outside the class body")


def r14_3(ctx) -> None:
    eng = ctx.eng
    P = eng.prog
    F = eng.folder
    ak = F.class_attr(P.cls(KS), "algorithm_keys")
    if not isinstance(ak, dict):
        raise AnalysisError("KeySet.algorithm_keys did not fold")
    jws = F.class_attr(P.cls("rfc7515.registry:JWSRegistry"), "algorithms")
    jwe = F.class_attr(P.cls("rfc7516.registry:JWERegistry"), "algorithms")
    n = 0
    for name, inst in jws.items():
        n += 1
        want = [F.get_attr(inst, "key_type")]
        ctx.check(ak.get(name) == want and want == [T.JWS_ALGS[name][1]] if name in T.JWS_ALGS else False, "R14.3", None, None, f"algorithm_keys[{name}]",
                  f"key types for {name}: table {ak.get(name)!r}, model {want!r}, RFC {[T.JWS_ALGS.get(name, ('', '?'))[1]]}", f"= {want}", construct=f"algorithm_keys[{name}]")
    for name, inst in jwe["alg"].items():
        n += 1
        want = F.get_attr(inst, "key_types")
        ctx.check(ak.get(name) == want and name in T.JWE_ALGS and want == T.JWE_ALGS[name][0], "R14.3", None, None, f"algorithm_keys[{name}]",
                  f"key types for {name}: table {ak.get(name)!r}, model {want!r}", f"= {want}", construct=f"algorithm_keys[{name}]")
    ctx.count("R14.3", n, 32, "registered algorithms with a key-type entry")
    # the draft registration writes both tables in one loop
    reg = P.func("drafts.jwe_ecdh_1pu:register_ecdh_1pu")
    loops = [l for l in cfg_of(reg).nodes if l.kind == "loop"]
    ok = False
    for l in loops:
        mv = norm(l.ast.target)
        body = [norm(x) for x in l.ast.body]
        if any(b.endswith(f".register({mv})") for b in body) and any(b.replace(" ", "") == f"KeySet.algorithm_keys[{mv}.name]={mv}.key_types" for b in body):
            ok = True
    ctx.check(ok, "R14.3", reg, reg.node, reg.short, "register_ecdh_1pu does not register the model and its key types together", "register(model); algorithm_keys[model.name] = model.key_types",
              construct="1PU registration pairing")
    d1 = F.module_value(P.mod("drafts.jwe_ecdh_1pu"), "JWE_ALG_MODELS")
    for inst in d1 if isinstance(d1, list) else []:
        nm = F.get_attr(inst, "name")
        kt = F.get_attr(inst, "key_types")
        ctx.check(nm in T.JWE_DRAFT_ALGS and kt == T.JWE_DRAFT_ALGS[nm][0], "R14.3", None, None, f"draft {nm} key types", f"{nm}: key types {kt!r}", f"= {kt}", construct=f"draft key types {nm}")


@_ioe
def _pick_random_folded(ctx, pr) -> Optional[List[str]]:
    """Fold KeySet.pick_random_key on probe sets (random.choice stays symbolic): the pool handed to random.choice is exactly the keys, in
    set order, whose key_type the algorithm's entry names - the whole set when there is no entry - and the result is None when the pool is
    empty.  None when the body does not fold or a test was decided one way only on the probes."""
    from ..fold import Inst, FuncVal, ExtVal, FoldRaise, is_unknown
    eng = ctx.eng
    P, F = eng.prog, eng.folder
    kcs = [P.cls(q) for q in ("rfc7518.oct_key:OctKey", "rfc7518.rsa_key:RSAKey", "rfc7518.ec_key:ECKey", "rfc7518.oct_key:OctKey")]
    keys = [Inst(c, {}) for c in kcs]
    kts = [F.get_attr(k, "key_type") for k in keys]
    if any(not isinstance(x, str) for x in kts):
        return None
    kt_of = {id(k): kt for k, kt in zip(keys, kts)}
    table = {"A-oct": ["oct"], "A-pk": ["RSA", "EC"], "A-okp": ["OKP"], "A-empty": []}
    problems: List[str] = []
    F.start_trace()
    try:
        for keyset in (keys, keys[:1], keys[1:2], keys[1:3], []):
            for alg in list(table) + ["A-unlisted"]:
                inst = Inst(P.cls(KS), {"keys": list(keyset), "algorithm_keys": {k: list(v) for k, v in table.items()}})
                try:
                    r = F.call(FuncVal(pr, None, inst), [alg], {})
                except FoldRaise:
                    return None
                want = [k for k in keyset if kt_of[id(k)] in table[alg]] if table.get(alg) else list(keyset)
                if is_unknown(r):
                    return None
                if not want:
                    if r is not None:
                        problems.append(f"with no eligible key for {alg} the result folds to {r!r}, not None")
                    continue
                if not (isinstance(r, ExtVal) and r.name == "random.choice" and r.called and len(r.args) == 1 and isinstance(r.args[0], (list, tuple))):
                    problems.append(f"for {alg} the result folds to {r!r}, not random.choice(<eligible keys>)")
                    continue
                pool = list(r.args[0])
                if len(pool) != len(want) or any(a is not b for a, b in zip(pool, want)):
                    problems.append(f"for an algorithm whose entry is {table.get(alg)} the pool holds key types {[F.get_attr(k, 'key_type') for k in pool]}, the eligible keys are {[F.get_attr(k, 'key_type') for k in want]}")
                if inst.attrs["keys"] != list(keyset):
                    problems.append("pick_random_key changes the key list")
    except AnalysisError:
        return None
    finally:
        sided = F.one_sided()
    if sided:
        return None
    return problems


def r14_4_5(ctx) -> None:
    eng = ctx.eng
    P = eng.prog
    ks = P.cls(KS)
    fx = Effects(P, eng.cg)
    for m in ("get_by_kid", "pick_random_key", "__iter__", "__bool__"):
        fn = ks.methods.get(m)
        if fn is None:
            continue
        bad = []
        for f2 in [fn] + [c for s in eng.cg.calls_in(fn) for c in s.callees if c.cls is ks]:
            for ef in fx.of(f2):
                if any(r.kind in ("self", "cls") and (not r.via or r.via[0] in ("keys", "algorithm_keys")) for r in ef.roots):
                    bad.append(norm(ef.node)[:60])
        ctx.check(not bad, "R14.4", fn, fn.node, f"{fn.short} :: read-only", f"{m} reorders / modifies the key set: {bad}", "no store to self.keys / the set object", construct=f"{m} mutates the set")
    pr = ks.methods["pick_random_key"]
    folded = _pick_random_folded(ctx, pr)
    if folded is not None:
        ctx.check(not folded, "R14.4", pr, pr.node, f"{pr.short} :: filter (folded on probe sets)", "the random pick is not restricted to keys of the key type(s) the algorithm requires"
                  + (": " + folded[0] if folded else ""), "pool = keys whose key_type is in algorithm_keys.get(alg) (all keys when there is no entry); None when empty",
                  construct="pick_random_key filter")
    else:
        _pick_random_shape(ctx, pr)
    _r14_5(ctx, ks)


def _pick_random_shape(ctx, pr) -> None:
    eng = ctx.eng
    cfg = cfg_of(pr)
    sn = pr.self_name
    ap = pr.pos_params[1]
    KT = f"{sn}.algorithm_keys.get({ap})"
    comp = [n for n in fn_nodes(pr) if isinstance(n, ast.ListComp)]
    okt = okf = False
    flt = None
    for c in comp:
        g = c.generators[0]
        if norm(g.iter) == f"{sn}.keys" and len(g.ifs) == 1 and isinstance(g.ifs[0], ast.Compare) and isinstance(g.ifs[0].ops[0], ast.In) \
                and norm(g.ifs[0].left) == f"{norm(g.target)}.key_type" and norm(c.elt) == norm(g.target):
            okf = True
            flt = c
            okt = _resolve_local(eng, pr, g.ifs[0].comparators[0]) == KT
    ch = [s for s in eng.cg.calls_in(pr) if isinstance(s.node, ast.Call) and any(x == "random.choice" for x in s.ext)]
    # the pool handed to random.choice is the filtered list (or the whole set when the algorithm has no key-type entry)
    okc = bool(ch) and flt is not None
    for s_ in ch:
        a0 = s_.node.args[0]
        if isinstance(a0, ast.Name):
            dd = [d[1] for d in eng.flow._defs(pr).get(a0.id, []) if d[0] == "assign"]
            okc = okc and bool(dd) and all(d is flt or norm(d) == f"{sn}.keys" for d in dd) and any(d is flt for d in dd)
        else:
            okc = okc and a0 is flt
    ctx.check(okt and okf and okc, "R14.4", pr, pr.node, f"{pr.short} :: filter", "the random pick is not restricted to keys of the key type(s) the algorithm requires",
              "keys = [k for k in self.keys if k.key_type in algorithm_keys.get(alg)]; random.choice(keys)", construct="pick_random_key filter")


def _r14_5(ctx, ks) -> None:
    eng = ctx.eng
    P = eng.prog
    init = ks.methods["__init__"]
    cfgi = cfg_of(init)
    kp = init.pos_params[1]
    loops = [l for l in cfgi.nodes if l.kind == "loop" and norm(l.ast.iter) == kp]
    ek = P.cls("rfc7517.models:BaseKey").methods["ensure_kid"]
    oki = len(loops) == 1 and any(ek in s.callees for s in eng.cg.calls_in(init)) and \
        any(isinstance(n, ast.Assign) and norm(n.targets[0]) == f"{init.self_name}.keys" and norm(n.value) == kp for n in fn_nodes(init))
    ctx.check(oki, "R14.5", init, init.node, f"{init.short}", "KeySet.__init__ does not keep every given key and give each a kid", "for key in keys: key.ensure_kid(); self.keys = keys",
              construct="KeySet.__init__")
    imp = ks.methods["import_key_set"]
    cfgm = cfg_of(imp)
    from .common import built_lists
    KEYS = f"{imp.pos_params[1]}['keys']"
    bl = [b for b in built_lists(imp) if norm(b["iter"]) == KEYS and not b["ifs"] and "import_key(" in norm(b["elt"]) and b["var"] in norm(b["elt"])]
    rets = cfgm.returns()
    okm = len(bl) == 1 and bool(rets) and all(norm(r.ast.value) == f"{imp.self_name or 'cls'}({bl[0]['name']})" for r in rets)
    if not okm:
        # `return cls([import_key(d) for d in value['keys']])` without a local
        okm = bool(rets) and all(isinstance(r.ast.value, ast.Call) and norm(r.ast.value.func) == (imp.self_name or "cls") and len(r.ast.value.args) == 1
                                 and isinstance(r.ast.value.args[0], ast.ListComp) and len(r.ast.value.args[0].generators) == 1 and not r.ast.value.args[0].generators[0].ifs
                                 and norm(r.ast.value.args[0].generators[0].iter) == KEYS and "import_key(" in norm(r.ast.value.args[0].elt) for r in rets)
    ctx.check(okm, "R14.5", imp, imp.node, f"{imp.short}", "import_key_set does not import and keep every key of the serialization", "for data in value['keys']: keys.append(import_key(data)); return cls(keys)",
              construct="import_key_set")
    ad = ks.methods["as_dict"]
    cfga = cfg_of(ad)
    loops = [l for l in cfga.nodes if l.kind == "loop" and norm(l.ast.iter) == f"{ad.self_name}.keys"]
    oka = len(loops) == 1
    if oka:
        L = loops[0]
        kv = norm(L.ast.target)
        apps = [cfga.node_of(n) for n in fn_nodes(ad) if isinstance(n, ast.Call) and isinstance(n.func, ast.Attribute) and n.func.attr == "append" and n.args
                and norm(n.args[0]).startswith(f"{kv}.as_dict(")]
        apps = [a for a in apps if a is not None]
        eks = [cfga.node_of(s.node) for s in eng.cg.calls_in(ad) if ek in s.callees]
        eks = [e for e in eks if e is not None]
        oka = bool(apps) and bool(eks) and all((L not in cfga.reachable(s0, apps) or s0 in apps) and (L not in cfga.reachable(s0, eks) or s0 in eks) for s0 in succ_by_label(cfga, L, "iter"))
    ctx.check(oka, "R14.5", ad, ad.node, f"{ad.short}", "KeySet.as_dict does not export every key with a kid", "for key in self.keys: key.ensure_kid(); keys.append(key.as_dict(...))",
              construct="KeySet.as_dict")


def r14_6_7(ctx, family: Optional[str] = None) -> None:
    eng = ctx.eng
    P = eng.prog
    sibs = [P.cls("rfc7515.model:HeaderMember").methods.get("set_kid"), P.cls("rfc7515.model:CompactSignature").methods.get("set_kid"),
            P.cls("rfc7516.models:Recipient").methods.get("set_kid")]
    if any(s is None for s in sibs):
        raise AnalysisError("a set_kid sibling vanished")
    if family == "jwe":
        sibs = sibs[2:]  # borrowed by a JWE property: the JWS message classes are not its business
    for fn in sibs:
        kp = fn.pos_params[1]
        ok = False
        for n in fn_nodes(fn):
            if isinstance(n, ast.Assign) and isinstance(n.targets[0], ast.Subscript) and const_value(n.targets[0].slice) == "kid" and norm(n.value) == kp:
                ok = True
            if isinstance(n, ast.Call) and isinstance(n.func, ast.Attribute) and n.func.attr == "add_header" and len(n.args) == 2 and const_value(n.args[0]) == "kid" and norm(n.args[1]) == kp:
                ok = True
        ctx.check(ok, "R14.6", fn, fn.node, fn.short, "set_kid does not record the given kid under the header name \"kid\"", "header['kid'] = kid", construct=f"{fn.short} writes kid")
    ah = P.cls("rfc7516.models:Recipient").methods.get("add_header")
    if ah is not None:
        kp_, vp_ = ah.pos_params[1], ah.pos_params[2]
        acfg = cfg_of(ah)

        def _kv_display(d) -> bool:
            return isinstance(d, ast.Dict) and bool(d.keys) and d.keys[-1] is not None and norm(d.keys[-1]) == kp_ and norm(d.values[-1]) == vp_
        stores = []

        def _recv(e) -> str:
            # `header = self.header; if header: header.update(...)`: a local bound once to the attribute is that object
            if isinstance(e, ast.Name) and e.id not in ah.params:
                asg = [d for d in eng.flow._defs(ah).get(e.id, []) if d[0] != "mut-call"]
                if len(asg) == 1 and asg[0][0] == "assign" and not asg[0][2] and isinstance(asg[0][1], ast.Attribute):
                    return norm(asg[0][1])
            return norm(e)
        for x in acfg.nodes:
            if x.kind != "stmt":
                continue
            st = x.ast
            if isinstance(st, ast.Expr) and isinstance(st.value, ast.Call) and isinstance(st.value.func, ast.Attribute) and st.value.func.attr == "update" \
                    and len(st.value.args) == 1 and _kv_display(st.value.args[0]) and _recv(st.value.func.value).endswith((".header", ".protected")):
                stores.append(x)
            elif isinstance(st, ast.Assign) and len(st.targets) == 1:
                tg = st.targets[0]
                if isinstance(tg, ast.Subscript) and norm(tg.slice) == kp_ and norm(st.value) == vp_ and _recv(tg.value).endswith((".header", ".protected")):
                    stores.append(x)
                elif isinstance(tg, ast.Attribute) and tg.attr == "header" and _kv_display(st.value):
                    stores.append(x)
        ctx.check(bool(stores) and acfg.must_pass(acfg.entry, acfg.exit, stores), "R14.6", ah, ah.node, ah.short, "Recipient.add_header does not store {k: v} in every branch",
                  "{k: v} in protected / header on every path", construct="Recipient.add_header")
    ks = P.cls(KS)
    gb, pr = ks.methods["get_by_kid"], ks.methods["pick_random_key"]
    try:
        gs = P.func("jwe:_guess_sender_key")
    except AnalysisError:
        # the helper was specialised away (one copy per caller, written out there): the same discipline is demanded of every JWE function that
        # looks a sender key up - by skid through get_by_kid; a random pick only on the producing side, only without skid, its kid recorded as skid
        hosts = [f for f in P.all_functions() if f.short.startswith("jwe:") and f.name != "<module>"
                 and any(gb in s_.callees and isinstance(s_.node, ast.Call) and s_.node.args and _resolve_local(eng, f, s_.node.args[0]).endswith(".headers().get('skid')")
                         for s_ in eng.cg.calls_in(f))]
        if len(hosts) < 4:
            raise AnalysisError("R14.7: jwe:_guess_sender_key vanished and fewer than 4 JWE functions resolve a sender key by skid")
        for h in hosts:
            hcfg = cfg_of(h)
            gets = [s_ for s_ in eng.cg.calls_in(h) if gb in s_.callees and isinstance(s_.node, ast.Call) and s_.node.args
                    and _resolve_local(eng, h, s_.node.args[0]).endswith(".headers().get('skid')")]
            picks = [s_ for s_ in eng.cg.calls_in(h) if pr in s_.callees and isinstance(s_.node, ast.Call) and isinstance(s_.node.func, ast.Attribute)
                     and any(norm(s_.node.func.value) == norm(g_.node.func.value) for g_ in gets if isinstance(g_.node.func, ast.Attribute))]
            producing = h.name.startswith("encrypt")
            okh = len(gets) == 1 and len(picks) == (1 if producing else 0)
            if okh:
                skv = norm(gets[0].node.args[0])
                t = [x for x in hcfg.nodes if x.kind == "test" and norm(x.ast) == skv]
                gn = hcfg.node_of(gets[0].node)
                okh = bool(t) and gn not in hcfg.reachable(hcfg.entry, edge_filter=lambda a, b, l: not (a in t and l == "true"))
                if okh and producing:
                    pn = hcfg.node_of(picks[0].node)
                    okh = pn not in hcfg.reachable(hcfg.entry, edge_filter=lambda a, b, l: not (a in t and l == "false"))
                    hdr = [s_ for s_ in eng.cg.calls_in(h) if isinstance(s_.node, ast.Call) and s_.attr == "add_header" and s_.node.args and const_value(s_.node.args[0]) == "skid"]
                    okh = okh and bool(hdr) and all(norm(s_.node.args[1]).endswith(".kid") for s_ in hdr)
            ctx.check(okh, "R14.7", h, h.node, h.short, "the sender key is not resolved by skid via get_by_kid (or its kid is not recorded as skid after a random pick; or a random pick "
                      "happens on the consuming side)", "skid -> get_by_kid(skid); producing side only: else pick_random_key + add_header('skid', skey.kid)", construct="_guess_sender_key")
        return
    cfg = cfg_of(gs)
    gets = [s for s in eng.cg.calls_in(gs) if gb in s.callees and isinstance(s.node, ast.Call)]
    picks = [s for s in eng.cg.calls_in(gs) if pr in s.callees and isinstance(s.node, ast.Call)]
    skv = find_local(eng, gs, lambda t_: t_.endswith(".headers().get('skid')"))
    sk = [d for d in eng.flow._defs(gs).get(skv, []) if d[0] == "assign"]
    ok = len(gets) == 1 and len(picks) == 1 and len(sk) == 1 and _resolve_local(eng, gs, sk[0][1]).endswith(".headers().get('skid')") and norm(gets[0].node.args[0]) == skv
    if ok:
        t = [x for x in cfg.nodes if x.kind == "test" and norm(x.ast) == skv]
        gn, pn = cfg.node_of(gets[0].node), cfg.node_of(picks[0].node)
        ok = bool(t) and pn not in cfg.reachable(cfg.entry, edge_filter=lambda a, b, l: not (a in t and l == "false")) and \
            gn not in cfg.reachable(cfg.entry, edge_filter=lambda a, b, l: not (a in t and l == "true"))
        hdr = [s for s in eng.cg.calls_in(gs) if isinstance(s.node, ast.Call) and s.attr == "add_header" and s.node.args and const_value(s.node.args[0]) == "skid"]
        ok = ok and bool(hdr) and all(norm(s.node.args[1]).endswith(".kid") for s in hdr)
    ctx.check(ok, "R14.7", gs, gs.node, gs.short, "the sender key is not resolved by skid via get_by_kid (or its kid is not recorded as skid after a random pick)",
              "skid -> get_by_kid(skid); else pick_random_key + add_header('skid', skey.kid)", construct="_guess_sender_key")


def r14_16(ctx) -> None:
    """R14.16  "record its kid in the produced token's header": on the JSON producing side the key resolution may write the chosen key's kid into the
    member's unprotected header (`set_kid`: a NEW dict when the member had none).  What is emitted as "header" must therefore be read from the
    member object - `<member>.header`, the object handed to the key resolution - when the document is built, not from a local or from the caller's
    input captured before the key was resolved."""
    import re
    eng = ctx.eng
    P = eng.prog
    from .common import resolve_all, in_family
    gk = P.func("jwk:guess_key")
    n = 0
    for fn in P.all_functions():
        if not in_family(fn, "jws") or fn.name == "<module>":
            continue
        stores = [(x, x.value) for x in fn_nodes(fn) if isinstance(x, ast.Assign) and len(x.targets) == 1 and isinstance(x.targets[0], ast.Subscript)
                  and const_value(x.targets[0].slice) == "header"]
        if not stores:
            continue
        # the objects handed to a key resolution in this function: find_key(obj) callbacks and guess_key(key, obj, ...)
        guests = set()
        for s_ in eng.cg.calls_in(fn):
            if not isinstance(s_.node, ast.Call):
                continue
            if gk in s_.callees and len(s_.node.args) >= 2:
                guests.add(norm(s_.node.args[1]))
            elif isinstance(s_.node.func, ast.Name) and s_.node.func.id in fn.params and "key" in s_.node.func.id and len(s_.node.args) == 1:
                guests.add(norm(s_.node.args[0]))
            elif isinstance(s_.node.func, ast.Name) and s_.node.func.id == "find_key" and len(s_.node.args) == 1:
                guests.add(norm(s_.node.args[0]))
        if not guests:
            continue  # a reader / a writer that resolves no key
        for st, v in stores:
            n += 1
            texts = [norm(v)]
            m0 = re.fullmatch(r"([A-Za-z_][\w.]*)\.header", texts[0])
            ok = m0 is not None and m0.group(1) in guests
            if not ok and isinstance(v, ast.Name):
                # a local: every value it can hold is such an attribute read, made after the key was resolved
                defs = [d_ for d_ in eng.flow._defs(fn).get(v.id, []) if d_[0] == "assign" and isinstance(d_[1], ast.expr)]
                texts = [norm(d_[1]) for d_ in defs]
                cfg_ = cfg_of(fn)
                res_nodes = [cfg_.node_of(s_.node) for s_ in eng.cg.calls_in(fn) if isinstance(s_.node, ast.Call) and (gk in s_.callees or (isinstance(s_.node.func, ast.Name) and (
                    s_.node.func.id == "find_key" or (s_.node.func.id in fn.params and "key" in s_.node.func.id))))]
                res_nodes = [x_ for x_ in res_nodes if x_ is not None]
                ok = bool(defs) and all((m_ := re.fullmatch(r"([A-Za-z_][\w.]*)\.header", t_)) is not None and m_.group(1) in guests for t_ in texts) and bool(res_nodes) \
                    and all(cfg_.node_of(d_[1]) is not None and cfg_.must_pass(cfg_.entry, cfg_.node_of(d_[1]), res_nodes) for d_ in defs)
            ctx.check(ok, "R14.16", fn, st, f"{fn.short} :: emitted header", f"the \"header\" member that is emitted is `{' | '.join(texts)[:80]}`, not the header of the member object the key was "
                      f"resolved for ({sorted(guests)}): a kid recorded by the key resolution does not reach the token", "rv['header'] = member.header (read after the key was resolved)",
                      construct=f"emitted unprotected header in {fn.short}")
    ctx.count("R14.16", n, 2, "emitted JWS JSON header members on the producing side")


def r14_14(ctx) -> None:
    """R14.14  "every key in a set has a kid", for sets of every size: KeySet.__init__ calls ensure_kid() on each element of the list it then
    stores, under no condition (a set with a single key is looked up by kid like any other - the producing side always records one)."""
    eng = ctx.eng
    from .common import resolve_all
    ks = eng.prog.cls("_keys:KeySet")
    init = ks.methods.get("__init__")
    ek = eng.prog.cls("rfc7517.models:BaseKey").methods.get("ensure_kid")
    if init is None or ek is None:
        raise AnalysisError("KeySet.__init__ / BaseKey.ensure_kid vanished")
    cfg = cfg_of(init)
    kp = init.pos_params[1]
    calls = [s for s in eng.cg.calls_in(init) if ek in s.callees and isinstance(s.node, ast.Call)]
    ok = False
    why = "ensure_kid is not called"
    for s in calls:
        cn = cfg.node_of(s.node)
        if cn is None:
            continue
        paths = cfg.guards_of(cn)
        tests = [norm(t.ast) for p in paths for t, _o in p if t.kind == "test"]
        lv_ = {norm(t.ast.target) for p in paths for t, _o in p if t.kind == "loop" and isinstance(t.ast, ast.For)}  # type: ignore[union-attr]
        # a test of the element's own kid repeats what ensure_kid tests itself
        tests = [x for x in tests if not any(x in (f"{v}.kid", f"not {v}.kid", f"{v}.kid is None", f"'kid' not in {v}", f"'kid' not in {v}.dict_value") for v in lv_)]
        loops = {norm(t.ast.iter) for p in paths for t, _o in p if t.kind == "loop" and isinstance(t.ast, ast.For)}  # type: ignore[union-attr]
        recv = s.node.func.value if isinstance(s.node.func, ast.Attribute) else None
        loopvars = {norm(t.ast.target) for p in paths for t, _o in p if t.kind == "loop" and isinstance(t.ast, ast.For)}  # type: ignore[union-attr]
        if tests:
            why = f"the call is conditional on {sorted(set(tests))}"
        elif loops != {kp}:
            why = f"the loop runs over {sorted(loops)}, not over the `{kp}` given"
        elif recv is None or norm(recv) not in loopvars:
            why = "ensure_kid is not called on the loop element"
        else:
            ok = True
    # every exit passes the loop
    if ok:
        loopnodes = [t for t in cfg.nodes if t.kind == "loop" and isinstance(t.ast, ast.For) and norm(t.ast.iter) == kp]
        ok = bool(loopnodes) and cfg.must_pass(cfg.entry, cfg.exit, loopnodes)
        if not ok:
            why = "a path leaves the constructor without visiting the keys"
    stored = [n for n in fn_nodes(init) if isinstance(n, ast.Assign) and isinstance(n.targets[0], ast.Attribute) and n.targets[0].attr == "keys"]
    if ok and not (stored and all(resolve_all(eng, init, a.value) == [kp] for a in stored)):
        ok, why = False, "the list stored is not the list whose keys were given a kid"
    ctx.check(ok, "R14.14", init, init.node, init.short, f"not every key of a key set is given a kid on construction ({why})", f"for key in {kp}: key.ensure_kid()",
              construct=f"ensure_kid for every key in KeySet.__init__: {why if not ok else 'ok'}")


def r14_15(ctx) -> None:
    """R14.15  "the key named by kid": key.kid is the JWK's kid member as it is - an explicit empty kid is a kid (get_by_kid("") finds that key, a
    token without kid does not match it).  Folded on probe JWK views."""
    from .common import basekey_accessor_verdicts
    eng = ctx.eng
    v = basekey_accessor_verdicts(eng)
    fn = eng.prog.cls("rfc7517.models:BaseKey").methods.get("kid")
    if v is None:
        raise AnalysisError("BaseKey.kid does not fold")
    bad = [t for c_, t in v if c_ == "kid"]
    ctx.check(not bad, "R14.15", fn, fn.node if fn else None, "BaseKey.kid / alg (folded on probe keys)", "; ".join(bad[:2]), "the member as it is; None when absent", construct="kid accessor")


def r14_20(ctx) -> None:
    """"... and fail with an invalid-key-id error if there is none": the InvalidKeyIdError of KeySet.get_by_kid reaches the caller of every consuming
    entry.  Necessary structural condition decided here: no call site on a call-graph route from a consuming entry to get_by_kid lies in the body of a
    `try` one of whose handlers catches InvalidKeyIdError (or an ancestor, or everything) without re-raising it unconditionally (a top-level bare
    `raise` in the handler).  Seed C14-s: key resolution moved, as a closure, under the per-recipient `except (AssertionError, JoseError)` of
    _perform_decrypt, whose re-raise is conditional on verify_all_recipients."""
    from ..excflow import ExcFlow
    eng = ctx.eng
    P = eng.prog
    gk = P.cls(KS).methods.get("get_by_kid")
    if gk is None:
        raise AnalysisError("KeySet.get_by_kid vanished")
    xf = ExcFlow(P, eng.cg)
    anc = set(xf.ancestors("errors:InvalidKeyIdError")) | {"*", "BaseException", "Exception"}
    scope: List[FunctionInfo] = []
    for en in eng.consume_entries():
        for f in eng.cg.reachable([en]):
            if f not in scope:
                scope.append(f)
    # functions of the scope from which get_by_kid is reachable
    reach = {gk}
    changed = True
    while changed:
        changed = False
        for f in scope:
            if f in reach:
                continue
            if any(c in reach for s_ in eng.cg.calls_in(f) for c in s_.callees):
                reach.add(f)
                changed = True
    n = 0
    for f in scope:
        sites = [s_ for s_ in eng.cg.calls_in(f) if any(c in reach for c in s_.callees)]
        if not sites:
            continue
        tries = [t_ for t_ in fn_nodes(f) if isinstance(t_, ast.Try)]
        for s_ in sites:
            n += 1
            bad = None
            for t_ in tries:
                if not any(s_.node is x for st in t_.body for x in ast.walk(st)):
                    continue
                for h in t_.handlers:
                    cls_ = xf._handler_classes(f, h)
                    if not (set(cls_) & anc):
                        continue
                    if any(isinstance(st, ast.Raise) and st.exc is None for st in h.body):
                        continue
                    bad = (h, cls_)
                    break
                if bad:
                    break
            callee = sorted(c.short for c in s_.callees if c in reach)[0]
            ctx.check(bad is None, "R14.20", f, (bad[0] if bad else s_.node), f"{f.short} :: call of {callee}",
                      f"the call of {callee}, which can raise the InvalidKeyIdError of KeySet.get_by_kid, lies in a `try` whose handler `except {', '.join(bad[1]) if bad else ''}` "
                      "does not unconditionally re-raise it: a token whose kid names no key of the set is not refused with the invalid-key-id error", "no swallowing handler on the route",
                      construct=f"handler over {callee}")
    ctx.count("R14.20", n, 24, "call sites on routes from consuming entries to KeySet.get_by_kid")


def run(ctx) -> None:
    ctx.guard(r14_20)
    ctx.guard(r14_15)
    from .common import forwarding_discipline
    ctx.guard(forwarding_discipline, "R14.17", ['private', 'params', 'parameters', 'value'], 8)  # "exporting it preserves every key": the export options reach each key as given (not as decided for an earlier key)
    ctx.guard(forwarding_discipline, "R14.12", ['key', 'obj', 'find_key', 'public_key', 'private_key'], 40)  # arguments are handed on under their own name (generic routing rule, rules/common.py)
    ctx.guard(r14_14)
    ctx.guard(r14_16)
    from .c04 import r04_3 as _r04_3
    ctx.guard_as("R14.18", _r04_3)  # "encryption with a kid uses exactly that key ... produce a token that the matching key set decrypts": a kid given in any header position (the shared unprotected one included) is written out
    ctx.guard(r14_1)
    ctx.guard(r14_2)
    ctx.guard(r14_10)
    ctx.guard(r14_11)
    ctx.guard(r14_3)
    ctx.guard(r14_4_5)
    ctx.guard(r14_6_7)
    # the recorded kid is part of what is signed: key selection precedes the header encoding and writes into the encoded dict
    from .c03 import r03_2
    ctx.guard(r03_2, "R14.8")
    # "use the key whose kid equals the token's kid": the kid is looked up in the union of all header positions of the recipient
    from .c04 import r04_4
    ctx.guard_as("R14.13", r04_4)
    from .c11 import r11_11 as _r11_11
    ctx.guard_as("R14.19", _r11_11)  # "uses exactly the key named by kid": the kid a key is filed under is the one its JWK / the caller's parameters give, in the reference precedence
    from .c13 import r13_4
    ctx.guard_as("R14.9", r13_4)  # "every key in a set has a kid" of its own: ensure_kid stores the thumbprint into the key's own dict only
