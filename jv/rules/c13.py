"""C13 - thumbprints are the RFC 7638 value and depend only on the public key.

R13.1 required-member sets (+kty) = RFC 7638 3.2 / RFC 8037 2        R13.2 canonical JSON construction and digest
R13.3 EC members feeding the digest have the RFC length (= C11 R11.1) R13.4 kid assignment discipline
"""
from __future__ import annotations
import ast
from typing import List, Set

from ..program import AnalysisError, FunctionInfo, fn_nodes, norm
from ..cfg import cfg_of
from ..spec import tables as T
from .common import inconclusive_on_error as _ioe
from .common import can_reach_exit, const_value, is_const, succ_by_label
from .c05 import _resolve_local
from .c11 import KEYS, fixed_width_ec


def _r13_1_shape(ctx, th) -> None:
    eng = ctx.eng
    sn = th.self_name
    comp = [n for n in fn_nodes(th) if isinstance(n, ast.ListComp)]
    ok = False
    fcomp = None
    for c in comp:
        g = c.generators[0]
        if norm(g.iter) == f"{sn}.value_registry" and len(g.ifs) == 1 and norm(g.ifs[0]) == f"{sn}.value_registry[{norm(g.target)}].required" and norm(c.elt) == norm(g.target):
            ok = True
            fcomp = c
    # the local that holds the selected member names (whatever it is called)
    fv = "\0"
    for nm, ds in eng.flow._defs(th).items():
        if any(d[0] == "assign" and d[1] is fcomp for d in ds):
            fv = nm
    app = [n for n in fn_nodes(th) if isinstance(n, ast.Call) and isinstance(n.func, ast.Attribute) and n.func.attr == "append" and n.args and const_value(n.args[0]) == "kty"]
    muts = [n for n in fn_nodes(th) if isinstance(n, ast.Call) and isinstance(n.func, ast.Attribute) and norm(n.func.value) == fv
            and n.func.attr in ("append", "extend", "insert", "remove", "pop", "update", "add")]
    other_defs = [d for d in eng.flow._defs(th).get(fv, []) if not (d[0] == "assign" and isinstance(d[1], ast.ListComp)) and d[0] != "mut-call"]
    if len(muts) != 1 or other_defs:
        ok = False
    calls = [s for s in eng.cg.calls_in(th) if isinstance(s.node, ast.Call) and any(c.short == "rfc7638:thumbprint" for c in s.callees)]
    okc = False
    for s in calls:
        a = s.node.args
        if len(a) >= 2 and norm(a[0]) == f"{sn}.dict_value" and norm(a[1]) == fv:
            dm = a[2] if len(a) > 2 else None
            if dm is None or norm(dm) == f"{sn}.thumbprint_digest_method":
                okc = True
    ctx.check(ok and bool(app) and okc, "R13.1", th, th.node, th.short, "BaseKey.thumbprint does not hash exactly the required members of value_registry plus kty of the key's dict view",
              "fields = [required members] + ['kty']; thumbprint(self.dict_value, fields, digest)", construct="BaseKey.thumbprint field selection")


@_ioe
def _r13_1_folded(ctx, th) -> bool:
    """Decide the field selection by folding BaseKey.thumbprint for every key class with the call into rfc7638.thumbprint
    intercepted: whatever the spelling of the selection, the arguments handed over must be (the key's dict view, exactly the
    RFC 7638 members, the class's digest method).  Returns False when the body does not fold (the shape rule decides then)."""
    from ..fold import Inst, FuncVal, ExtVal, is_unknown
    eng = ctx.eng
    P, F = eng.prog, eng.folder
    res = {}
    F.start_trace()
    for cname, want in T.THUMBPRINT_MEMBERS.items():
        c = P.cls(KEYS[cname])
        got = []
        F.intercepts = {"rfc7638:thumbprint": lambda b: (got.append(b), ExtVal("THUMBPRINT"))[1]}
        try:
            r = F.call(FuncVal(c.lookup("thumbprint"), None, Inst(c, {"dict_value": ExtVal("DICT_VALUE")})), [], {})
        except Exception:
            return False
        finally:
            F.intercepts = {}
        if len(got) != 1 or not (isinstance(r, ExtVal) and r.name == "THUMBPRINT"):
            return False
        b = got[0]
        rf = eng.prog.func("rfc7638:thumbprint")
        vals = [b.get(p) for p in rf.pos_params[:3]]
        if is_unknown(vals[1]) or not isinstance(vals[1], (list, tuple, set, frozenset)) or any(not isinstance(x, str) for x in vals[1]):
            return False
        res[cname] = vals
    if F.one_sided():
        return False
    for cname, (dv, fields, dm) in res.items():
        want = T.THUMBPRINT_MEMBERS[cname]
        ctx.check(isinstance(dv, ExtVal) and dv.name == "DICT_VALUE" and not dv.called, "R13.1", th, th.node, f"{cname} :: thumbprint input",
                  f"{cname}.thumbprint() does not hash the key's own dict view (folds to {dv!r})", "thumbprint(self.dict_value, ...)", construct="BaseKey.thumbprint field selection")
        ctx.check(set(fields) == set(want), "R13.1", th, th.node, f"{cname} :: thumbprint fields",
                  f"{cname}.thumbprint() hands the members {sorted(set(fields))} to rfc7638.thumbprint, RFC 7638 requires {sorted(want)}", f"= {sorted(want)}",
                  construct="BaseKey.thumbprint field selection")
        cdm = F.class_attr(P.cls(KEYS[cname]), "thumbprint_digest_method")
        ctx.check(dm == cdm and isinstance(dm, str), "R13.1", th, th.node, f"{cname} :: thumbprint digest", f"{cname}.thumbprint() hands digest {dm!r} on, the class selects {cdm!r}",
                  "digest = self.thumbprint_digest_method", construct="BaseKey.thumbprint field selection")
    return True


def r13_1(ctx) -> None:
    eng = ctx.eng
    P = eng.prog
    F = eng.folder
    for cname, want in T.THUMBPRINT_MEMBERS.items():
        c = P.cls(KEYS[cname])
        reg = F.class_attr(c, "value_registry")
        if not isinstance(reg, dict):
            raise AnalysisError(f"{cname}.value_registry did not fold")
        got = {k for k, p in reg.items() if F.get_attr(p, "required") is True} | {"kty"}
        ctx.check(got == want, "R13.1", None, None, f"{cname} thumbprint members", f"thumbprint members of {cname} fold to {sorted(got)}, RFC 7638 requires {sorted(want)}",
                  f"= {sorted(want)}", construct=f"{cname} thumbprint members")
    bk = P.cls("rfc7517.models:BaseKey")
    th = bk.methods.get("thumbprint")
    if th is None:
        raise AnalysisError("BaseKey.thumbprint vanished")
    over = [f for f in eng.prog.implementations(bk, "thumbprint") if f is not th]
    ctx.check(not over, "R13.1", over[0] if over else th, None, "thumbprint overrides", "a key class overrides thumbprint()", "single implementation", construct="thumbprint override")
    if not _r13_1_folded(ctx, th):
        _r13_1_shape(ctx, th)
    dm = eng.folder.class_attr(bk, "thumbprint_digest_method")
    ctx.check(dm in ("sha256", "sha384", "sha512"), "R13.1", None, None, "digest method", f"default thumbprint digest folds to {dm!r}", f"= {dm}", construct="thumbprint_digest_method")
    ctx.check(dm == "sha256", "R13.1", None, None, "default digest", f"default digest is {dm!r}, RFC 7638 examples and the statement use SHA-256", "sha256", construct="default thumbprint digest")


def _ext_walk(v, seen=None):
    """every external value reachable from v through arguments and receivers"""
    from ..fold import ExtVal
    seen = set() if seen is None else seen
    if id(v) in seen:
        return
    seen.add(id(v))
    if isinstance(v, ExtVal):
        yield v
        yield from _ext_walk(v.recv, seen)
        for a in v.args:
            yield from _ext_walk(a, seen)
        for _k, a in v.kwargs:
            yield from _ext_walk(a, seen)
    elif isinstance(v, (list, tuple)):
        for a in v:
            yield from _ext_walk(a, seen)
    elif isinstance(v, dict):
        for a in v.values():
            yield from _ext_walk(a, seen)


@_ioe
def _r13_2_folded(ctx) -> bool:
    """Decide the thumbprint computation by folding rfc7638.thumbprint on probe JWKs (one with extra members, one bare; unsorted field
    lists, a non-default digest) with json.dumps / hashlib / base64 kept symbolic: the JSON input must be exactly the listed members
    in lexicographic order, serialised without whitespace; the digest is hashlib.new(<selected>, UTF-8 bytes of that JSON);
    the result is its unpadded base64url text.  False when the body does not fold, or when some test in it was decided the same way on
    every probe (the probes would then be a sample of its behaviour, not all of it) - the shape rule decides in that case."""
    import re
    from ..fold import FuncVal, ExtVal, is_unknown
    eng = ctx.eng
    F = eng.folder
    fn = eng.prog.func("rfc7638:thumbprint")
    probes = [
        ({"zz": "9", "y": "Yv", "kty": "EC", "a": "0", "x": "Xv", "crv": "P-256", "d": "Dv", "kid": "K"}, ["y", "crv", "kty", "x"], "sha384"),
        ({"y": "Yv", "kty": "EC", "x": "Xv", "crv": "P-256"}, ["y", "crv", "kty", "x"], "sha512"),  # a bare key, members not in order
        ({"kty": "oct", "k": "Kv"}, ["k", "kty"], "sha256"),
    ]
    tb = eng.prog.func("util:to_bytes")
    results = []
    F.start_trace()
    try:
        for probe, fields, dm in probes:
            got = []
            F.intercepts = {"util:to_bytes": lambda b, got=got: (got.append(b), ExtVal("TOBYTES"))[1]}
            try:
                r = F.call(FuncVal(fn, None, None), [dict(probe), list(fields), dm], {})
            except Exception:
                return False
            finally:
                F.intercepts = {}
            if len(got) > 1 or not isinstance(r, ExtVal):
                return False
            text = repr(r).replace("ext:", "")
            if got:
                j = got[0].get(tb.pos_params[0])
                cs = got[0].get(tb.pos_params[1]) if len(tb.pos_params) > 1 else "utf-8"
            else:
                # the JSON text (json.dumps returns str) encoded directly: <json>.encode([charset[, 'strict']])
                encs = [x for x in _ext_walk(r) if x.called and x.name.endswith(".encode") and isinstance(x.recv, ExtVal) and x.recv.name == "json.dumps" and x.recv.called]
                if len(encs) != 1:
                    return False
                e_ = encs[0]
                kw_ = dict(e_.kwargs)
                cs = e_.args[0] if e_.args else kw_.get("encoding", "utf-8")
                err = e_.args[1] if len(e_.args) > 1 else kw_.get("errors", "strict")
                if err != "strict" or len(e_.args) > 2:
                    return False
                j = e_.recv
                text = text.replace(repr(e_).replace("ext:", ""), "TOBYTES")
            if not (isinstance(j, ExtVal) and j.name == "json.dumps" and j.called and j.args):
                return False
            data = j.args[0]
            kw = dict(j.kwargs)
            if not isinstance(data, dict) or any(is_unknown(v) for v in list(kw.values()) + list(data.values())):
                return False
            results.append((probe, fields, dm, data, kw, cs, text))
    finally:
        sided = F.one_sided()
    if sided:
        return False
    d = fn.node
    for probe, fields, dm, data, kw, cs, text in results:
        tag = f" [probe {sorted(probe)}]"
        ctx.check(set(data) == set(fields) and all(data[k] == probe[k] for k in data if k in probe), "R13.2", fn, d, "thumbprint :: members" + tag,
                  f"members other than the listed fields can enter the thumbprint JSON (probe folds to members {sorted(data)})", "data[k] = dict_value[k] for k in fields only",
                  construct="thumbprint members copied")
        ctx.check(list(data) == sorted(data) or kw.get("sort_keys") is True, "R13.2", fn, d, "thumbprint :: order" + tag,
                  f"the thumbprint JSON members are not in lexicographic order (probe folds to {list(data)})", "sorted(fields) / sort_keys=True", construct="thumbprint member order")
        sep = kw.get("separators")
        ctx.check(isinstance(sep, (tuple, list)) and list(sep) == [",", ":"] and kw.get("indent") is None, "R13.2", fn, d, "thumbprint :: separators" + tag,
                  "the thumbprint JSON is not serialised without whitespace (separators must be (',', ':'))", "separators=(',', ':')", construct="thumbprint JSON separators")
        mm = re.fullmatch(r"base64\.urlsafe_b64encode\((.*)\)\.rstrip\(b'='\)\.decode\((?:'utf-8'|'ascii'|'utf8')?\)", text)
        ctx.check(mm is not None, "R13.2", fn, d, "thumbprint :: encoding" + tag, f"the thumbprint is not the unpadded base64url of the digest (folds to {text[:90]})",
                  "urlsafe_b64encode(hash.digest()).decode()", construct="thumbprint output encoding")
        inner = mm.group(1) if mm else text
        okh = re.fullmatch(r"hashlib\.new\((?:name=)?'" + dm + r"', (?:data=)?TOBYTES\)\.digest\(\)", inner) is not None and cs in ("utf-8", "utf8", "ascii")
        ctx.check(okh, "R13.2", fn, d, "thumbprint :: digest" + tag, f"the digest is not hashlib.new(<selected method>, UTF-8 bytes of the JSON) (folds to {inner[:90]})",
                  "hashlib.new(digest_method, to_bytes(json))", construct="thumbprint digest input")
    return True


def r13_2(ctx) -> None:
    if not _r13_2_folded(ctx):
        _r13_2_shape(ctx)
    # urlsafe_b64encode strips the padding (C19 R19.3)
    eng = ctx.eng
    ue = eng.prog.func("util:urlsafe_b64encode")
    t = [norm(r.ast.value) for r in cfg_of(ue).returns()]
    ctx.check(all("rstrip(b'=')" in x and "urlsafe_b64encode" in x for x in t) and bool(t), "R13.2", ue, ue.node, "urlsafe_b64encode :: unpadded", "base64url output keeps its padding",
              "rstrip(b'=')", construct="unpadded base64url")


def _r13_2_shape(ctx) -> None:
    eng = ctx.eng
    fn = eng.prog.func("rfc7638:thumbprint")
    dv, fields = fn.pos_params[0], fn.pos_params[1]
    dmp = fn.pos_params[2] if len(fn.pos_params) > 2 else None
    dumps = [s for s in eng.cg.calls_in(fn) if isinstance(s.node, ast.Call) and any(x == "json.dumps" for x in s.ext)]
    if len(dumps) != 1:
        raise AnalysisError("rfc7638.thumbprint: expected exactly one json.dumps")
    d = dumps[0].node
    kw = {k.arg: k.value for k in d.keywords}
    sep = kw.get("separators")
    ok_sep = isinstance(sep, ast.Tuple) and [const_value(e) for e in sep.elts] == [",", ":"]
    ctx.check(ok_sep, "R13.2", fn, d, "thumbprint :: separators", "the thumbprint JSON is not serialised without whitespace (separators must be (',', ':'))", "separators=(',', ':')",
              construct="thumbprint JSON separators")
    # member order: sorted
    sort_keys = is_const(kw.get("sort_keys"), True)
    data = d.args[0] if d.args else None
    ordered = False
    only_listed = False
    if isinstance(data, ast.Name):
        loops = [l for l in cfg_of(fn).nodes if l.kind == "loop"]
        for l in loops:
            it = _resolve_local(eng, fn, l.ast.iter)
            kv = norm(l.ast.target)
            stores = [n for n in fn_nodes(fn) if isinstance(n, ast.Assign) and norm(n.targets[0]) == f"{data.id}[{kv}]" and norm(n.value) == f"{dv}[{kv}]"]
            if stores and it in (f"sorted({fields})",):
                ordered = True
                only_listed = True
            elif stores and it == fields:
                only_listed = True
        defs = [x for x in eng.flow._defs(fn).get(data.id, []) if x[0] == "assign"]
        fresh = all(isinstance(x[1], (ast.Dict, ast.Call)) and (not isinstance(x[1], ast.Dict) or not x[1].keys) for x in defs)
        only_listed = only_listed and fresh
        for x in defs:
            if isinstance(x[1], ast.DictComp):
                g = x[1].generators[0]
                it = _resolve_local(eng, fn, g.iter)
                if norm(x[1].value) == f"{dv}[{norm(g.target)}]" and norm(x[1].key) == norm(g.target) and it in (f"sorted({fields})", fields):
                    only_listed = True
                    ordered = ordered or it.startswith("sorted(")
    ctx.check(only_listed, "R13.2", fn, d, "thumbprint :: members", "members other than the listed fields can enter the thumbprint JSON", "data[k] = dict_value[k] for k in fields only",
              construct="thumbprint members copied")
    ctx.check(ordered or sort_keys, "R13.2", fn, d, "thumbprint :: order", "the thumbprint JSON members are not in lexicographic order", "sorted(fields) / sort_keys=True", construct="thumbprint member order")
    # digest: hashlib.new(<selected>, bytes(json)) ; unpadded base64url of digest()
    hs = [s for s in eng.cg.calls_in(fn) if isinstance(s.node, ast.Call) and any(x == "hashlib.new" for x in s.ext)]
    okh = False
    for s in hs:
        a = s.node.args
        if len(a) >= 2 and dmp is not None and norm(a[0]) == dmp:
            t = _resolve_local(eng, fn, a[1])
            if "json.dumps" in t and ("to_bytes(" in t or ".encode(" in t):
                okh = True
    ctx.check(okh, "R13.2", fn, fn.node, "thumbprint :: digest", "the digest is not hashlib.new(<selected method>, UTF-8 bytes of the JSON)", "hashlib.new(digest_method, to_bytes(json))",
              construct="thumbprint digest input")
    rets = cfg_of(fn).returns()
    okr = bool(rets)
    for r in rets:
        t = _resolve_local(eng, fn, r.ast.value)
        if not (t.startswith("urlsafe_b64encode(") and ".digest()" in t and t.endswith(".decode('utf-8')")):
            okr = False
    ctx.check(okr, "R13.2", fn, fn.node, "thumbprint :: encoding", "the thumbprint is not the unpadded base64url of the digest", "urlsafe_b64encode(hash.digest()).decode()",
              construct="thumbprint output encoding")


def r13_4(ctx) -> None:
    eng = ctx.eng
    P = eng.prog
    bk = P.cls("rfc7517.models:BaseKey")
    ek = bk.methods.get("ensure_kid")
    if ek is None:
        raise AnalysisError("BaseKey.ensure_kid vanished")
    cfg = cfg_of(ek)
    sn = ek.self_name
    stores = [n for n in fn_nodes(ek) if isinstance(n, ast.Assign) and isinstance(n.targets[0], ast.Subscript) and const_value(n.targets[0].slice) == "kid"]
    ok = len(stores) == 1 and norm(stores[0].value) == f"{sn}.thumbprint()"
    if ok:
        sn_ = cfg.node_of(stores[0])
        guards = [t for t in cfg.nodes if t.kind == "test" and isinstance(t.ast, ast.Compare) and const_value(t.ast.left) == "kid" and isinstance(t.ast.ops[0], (ast.NotIn, ast.In))
                  and norm(t.ast.comparators[0]) in (f"{sn}.dict_value", f"{sn}._dict_value")]
        ok = False
        for t in guards:
            lab = "true" if isinstance(t.ast.ops[0], ast.NotIn) else "false"
            if sn_ is not None and sn_ not in cfg.reachable(cfg.entry, edge_filter=lambda a, b, l, _t=t, _lab=lab: not (a is _t and l == _lab)):
                ok = True
    ctx.check(ok, "R13.4", ek, ek.node, ek.short, "ensure_kid does not store exactly self.thumbprint() under the guard `'kid' not in self.dict_value` (an existing kid could be overwritten)",
              "if 'kid' not in self.dict_value: self._dict_value['kid'] = self.thumbprint()", construct="ensure_kid guard")
    # no other store to "kid" in key classes
    n = 0
    fam = [bk] + bk.all_subclasses()
    for c in fam:
        for m in c.methods.values():
            for node in fn_nodes(m):
                tgt = None
                if isinstance(node, ast.Assign) and isinstance(node.targets[0], ast.Subscript):
                    tgt = node.targets[0]
                if tgt is not None and const_value(tgt.slice) == "kid" and m is not ek:
                    n += 1
                    ctx.fail("R13.4", m, node, "a key class stores \"kid\" outside ensure_kid (the kid is not stable)")
    ctx.ok("R13.4", "kid stores", f"{n} stores to 'kid' outside ensure_kid in {len(fam)} key classes")
    # who calls ensure_kid
    want = ["_keys:KeySet.__init__", "_keys:KeySet.as_dict", "jwk:guess_key", "rfc7518.oct_key:OctKey.generate_key", "rfc7518.rsa_key:RSAKey.generate_key",
            "rfc7518.ec_key:ECKey.generate_key", "rfc8037.okp_key:OKPKey.generate_key"]
    callers = {s.fn.short for s in eng.cg.callers.get(ek, [])}
    for w in want:
        ctx.check(w in callers, "R13.4", None, None, f"{w} calls ensure_kid", f"{w} no longer assigns a thumbprint kid (ensure_kid not called)", "calls ensure_kid()", construct=f"ensure_kid in {w}")
    for g in [w for w in want if w.endswith("generate_key")]:
        fn = P.func(g)
        cfg = cfg_of(fn)
        t = [x for x in cfg.nodes if x.kind == "test" and norm(x.ast) == "auto_kid"]
        calls = [cfg.node_of(s.node) for s in eng.cg.calls_in(fn) if ek in s.callees]
        ok = bool(t) and bool(calls) and all(any(c in cfg.reachable(s0) for c in calls) for x in t for s0 in succ_by_label(cfg, x, "true"))
        ctx.check(ok, "R13.4", fn, fn.node, f"{g} :: auto_kid", "generate_key(auto_kid=True) does not assign the thumbprint kid", "if auto_kid: key.ensure_kid()", construct=f"auto_kid in {g}")


def r13_8(ctx) -> None:
    """`auto_kid=True` gives every generated key its thumbprint kid: in each generate_key, with the auto_kid test taken true, no
    path completes without ensure_kid()"""
    eng = ctx.eng
    P = eng.prog
    bk = P.cls("rfc7517.models:BaseKey")
    ek = bk.methods["ensure_kid"]
    gens = [f for f in eng.prog.implementations(bk, "generate_key") if not f.is_abstract and f.cls is not bk]
    ctx.count("R13.8", len(gens), 4, "generate_key implementations")
    for G in gens:
        if "auto_kid" not in G.params:
            ctx.fail("R13.8", G, G.node, "generate_key lost its auto_kid parameter", construct=f"auto_kid of {G.short}")
            continue
        cfg = cfg_of(G)
        tests = [t for t in cfg.nodes if t.kind == "test" and norm(t.ast) == "auto_kid"]
        calls = [cfg.node_of(s.node) for s in eng.cg.calls_in(G) if ek in s.callees]
        calls = [c for c in calls if c is not None]
        ok = bool(tests) and bool(calls) and cfg.must_pass(cfg.entry, cfg.exit, calls, edge_filter=lambda a, b, lab, _t=tests: not (a in _t and lab == "false"))
        ctx.check(ok, "R13.8", G, G.node, G.short, "with auto_kid=True a generated key can be returned without ensure_kid() (e.g. an early return for public keys)",
                  "if auto_kid: key.ensure_kid() on every path", construct=f"auto_kid honoured in {G.short}")


def r13_10(ctx) -> None:
    """R13.10  "never overwritten once present": the only code in the whole package that stores a "kid" into a key's JWK view is
    ensure_kid (whose guard R13.4 decides).  Stores through `key.dict_value[...]`, `.update({"kid": ...})`,
    `.pop("kid")` from anywhere else (key sets, registries, helpers) replace a kid the key already carried."""
    eng = ctx.eng
    from .common import resolve_all
    ek = eng.prog.cls("rfc7517.models:BaseKey").methods.get("ensure_kid")
    if ek is None:
        raise AnalysisError("BaseKey.ensure_kid vanished")

    def is_view(fn, e: ast.AST) -> bool:
        return any(x.endswith("dict_value") for x in resolve_all(eng, fn, e))

    n = own = 0
    for fn in eng.prog.all_functions():
        for node in fn_nodes(fn):
            hit = None
            if isinstance(node, ast.Subscript) and isinstance(node.ctx, (ast.Store, ast.Del)) and const_value(node.slice) == "kid" and is_view(fn, node.value):
                hit = node
            elif isinstance(node, ast.Call) and isinstance(node.func, ast.Attribute) and is_view(fn, node.func.value):
                m = node.func.attr
                if m in ("pop", "__setitem__") and node.args and const_value(node.args[0]) == "kid":  # (setdefault keeps a kid that is present)
                    hit = node
                elif m == "update" and any((isinstance(a, ast.Dict) and any(const_value(k) == "kid" for k in a.keys)) for a in node.args) or \
                        (m == "update" and any(kw.arg == "kid" for kw in node.keywords)):
                    hit = node
                elif m == "clear":
                    hit = node
            if hit is None:
                continue
            n += 1
            if fn is ek:
                own += 1
                continue
            ctx.fail("R13.10", fn, hit, f"{fn.short} writes the \"kid\" of a key's JWK view outside ensure_kid: a kid that is present can be replaced",
                     construct=f"kid of a key written in {fn.short}")
    ctx.count("R13.10", own, 1, "stores of \"kid\" into a key's JWK view (all inside ensure_kid)")


def run(ctx) -> None:
    from .c19 import r19_13 as _r19_13
    ctx.guard_as("R13.13", _r19_13)  # the thumbprint is that of the key material that was loaded: an imported octet buffer is copied, not shared with the caller
    from .c14 import r14_4_5 as _r14_4_5
    ctx.guard_as("R13.12", _r14_4_5)  # "stays stable across repeated exports": a key set export assigns the kid BEFORE it takes the key's dict view
    from .common import octet_length_lint as _oll
    ctx.guard(_oll, "R13.11")  # thumbprint input members have the RFC length for every key size (ceil, not floor)
    from .common import forwarding_discipline
    ctx.guard(forwarding_discipline, "R13.9", ['auto_kid', 'parameters'], 14)  # arguments are handed on under their own name (generic routing rule, rules/common.py)
    ctx.guard(r13_8)
    ctx.guard(r13_10)
    ctx.guard(r13_1)
    ctx.guard(r13_2)
    ctx.guard(fixed_width_ec, "R13.3")
    ctx.guard(r13_4)
    # "never overwritten once present, stable across exports": exports hand out a copy, never the key's own dict
    from .c12 import r12_2
    ctx.guard_as("R13.5", r12_2)
    from .c11 import r11_11
    ctx.guard_as("R13.7", r11_11)  # a kid given in a JWK is kept: the dict view of a key built from a JWK holds every given member
    from .c20 import r20_4
    from ..effects import Effects
    ctx.guard_as("R13.6", r20_4, Effects(ctx.eng.prog, ctx.eng.cg))  # the lazily built dict view is filled in place, never rebound (a kid stored meanwhile survives)
    ctx.assume("hashlib digests; JSON serialisation of ASCII member values by json.dumps")
    ctx.note("'kid stays stable' under concurrent use additionally rests on C20 R20.4 (no lost update on the lazy dict view)")
