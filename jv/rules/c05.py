"""C05 - only caller-allowed algorithms are used; the default is the recommended set.

R05.1 recommended / registered tables (folded) = frozen tables       R05.2 one gate (who may access the tables)
R05.3 gate truth table                                               R05.4 per-call allow-list, no leak into shared state
R05.5 gate before crypto (model receivers come from registry.get_*)  R05.6 `none` never verifies
R05.7 registration code unreachable from operations
"""
from __future__ import annotations
import ast
from typing import Dict, List, Optional, Set, Tuple

from ..program import AnalysisError, ClassInfo, FunctionInfo, fn_nodes, norm
from ..fold import Inst, Unknown, is_unknown, show
from ..decide import truth_table, PathOutcome
from ..cfg import cfg_of
from ..spec import tables as T
from .common import inconclusive_on_error as _ioe
from .common import entries, impls, is_const, scope_of, sites_calling, JWS_CONSUME, JWS_PRODUCE, JWE_CONSUME, JWE_PRODUCE

REG_CLASSES = ["rfc7515.registry:JWSRegistry", "rfc7516.registry:JWERegistry"]
TABLE_ATTRS = ("algorithms", "recommended")


def _fold_attr(eng, inst, attr):
    v = eng.folder.get_attr(inst, attr)
    return v


# ----------------------------------------------------------------------------------------------- R05.1
def r05_1(ctx) -> None:
    eng = ctx.eng
    F = eng.folder
    P = eng.prog
    jws = P.cls(REG_CLASSES[0])
    jwe = P.cls(REG_CLASSES[1])
    algs = F.class_attr(jws, "algorithms")
    rec = F.class_attr(jws, "recommended")
    if not isinstance(algs, dict) or not isinstance(rec, list):
        raise AnalysisError("JWSRegistry tables did not fold")
    ctx.count("R05.1/jws", len(algs), 15, "JWS algorithms registered at import")

    def cmp_set(rule, what, got, want, owner):
        got, want = set(got), set(want)
        if got != want:
            ctx.fail(rule, None, None, f"{what}: unexpected {sorted(got - want)} missing {sorted(want - got)}",
                     construct=f"{what} of {owner}")
        else:
            ctx.ok(rule, f"{owner} :: {what}", f"= {sorted(want)}")

    cmp_set("R05.1", "registered names", algs.keys(), T.JWS_ALGS.keys(), "JWSRegistry")
    cmp_set("R05.1", "recommended list", rec, T.JWS_RECOMMENDED, "JWSRegistry")
    if len(rec) != len(set(rec)):
        ctx.fail("R05.1", None, None, "duplicate names in JWSRegistry.recommended", construct="JWSRegistry.recommended duplicates")
    for name, inst in algs.items():
        if name not in T.JWS_ALGS:
            continue
        flag = _fold_attr(eng, inst, "recommended")
        nm = _fold_attr(eng, inst, "name")
        want = T.JWS_ALGS[name][2]
        ok = (flag is want) and nm == name and _fold_attr(eng, inst, "algorithm_location") == "sig"
        ctx.check(ok, "R05.1", None, None, f"JWS {name}", f"JWS algorithm {name}: recommended={flag!r} name={nm!r} "
                  f"(expected recommended={want})", f"recommended={flag} location=sig", construct=f"JWS model {name}")
    ja = F.class_attr(jwe, "algorithms")
    jr = F.class_attr(jwe, "recommended")
    if not isinstance(ja, dict) or not all(k in ja for k in ("alg", "enc", "zip")) or not isinstance(jr, list):
        raise AnalysisError("JWERegistry tables did not fold")
    ctx.count("R05.1/jwe-alg", len(ja["alg"]), 17, "JWE alg models registered at import")
    ctx.count("R05.1/jwe-enc", len(ja["enc"]), 6, "JWE enc models registered at import")
    ctx.count("R05.1/jwe-zip", len(ja["zip"]), 1, "JWE zip models registered at import")
    cmp_set("R05.1", "registered alg names", ja["alg"].keys(), T.JWE_ALGS.keys(), "JWERegistry")
    cmp_set("R05.1", "registered enc names", ja["enc"].keys(), T.JWE_ENCS.keys(), "JWERegistry")
    cmp_set("R05.1", "registered zip names", ja["zip"].keys(), T.JWE_ZIPS.keys(), "JWERegistry")
    cmp_set("R05.1", "recommended list", jr, T.JWE_RECOMMENDED, "JWERegistry")
    if len(jr) != len(set(jr)):
        ctx.fail("R05.1", None, None, "duplicate names in JWERegistry.recommended", construct="JWERegistry.recommended duplicates")
    for loc, table, spec_rec in (("alg", T.JWE_ALGS, lambda n: T.JWE_ALGS[n][2]), ("enc", T.JWE_ENCS, lambda n: T.JWE_ENCS[n][2]),
                                 ("zip", T.JWE_ZIPS, lambda n: T.JWE_ZIPS[n])):
        for name, inst in ja[loc].items():
            if name not in table:
                continue
            flag = _fold_attr(eng, inst, "recommended")
            nm = _fold_attr(eng, inst, "name")
            lc = _fold_attr(eng, inst, "algorithm_location")
            want = spec_rec(name)
            ctx.check(flag is want and nm == name and lc == loc, "R05.1", None, None, f"JWE {loc} {name}",
                      f"JWE {loc} {name}: recommended={flag!r} name={nm!r} location={lc!r} (expected recommended={want}, {loc})",
                      f"recommended={flag} location={lc}", construct=f"JWE model {loc} {name}")
    # draft models: folded not-recommended and not registered at import
    d1 = F.module_value(P.mod("drafts.jwe_ecdh_1pu"), "JWE_ALG_MODELS")
    d2 = F.module_value(P.mod("drafts.jwe_chacha20"), "JWE_ENC_MODELS")
    if not isinstance(d1, list) or not isinstance(d2, list):
        raise AnalysisError("draft model lists did not fold")
    ctx.count("R05.1/drafts", len(d1) + len(d2), 6, "draft models")
    for inst, spec, table in [(i, T.JWE_DRAFT_ALGS, ja["alg"]) for i in d1] + [(i, T.JWE_DRAFT_ENCS, ja["enc"]) for i in d2]:
        nm = _fold_attr(eng, inst, "name")
        flag = _fold_attr(eng, inst, "recommended")
        ok = nm in spec and flag is False and nm not in table and nm not in jr
        ctx.check(ok, "R05.1", None, None, f"draft {nm}", f"draft model {nm!r}: recommended={flag!r}, registered at import={nm in table}",
                  "not recommended, registered only by an explicit register_* call", construct=f"draft model {nm}")


# ----------------------------------------------------------------------------------------------- R05.3
def _gate_atoms(fn: FunctionInfo, name_param: str, table_text: str):
    self_name = fn.self_name or "self"

    def atom_of(e: ast.AST):
        if isinstance(e, ast.Compare) and len(e.ops) == 1 and isinstance(e.ops[0], (ast.In, ast.NotIn)) \
                and norm(e.left) == name_param:
            pol = isinstance(e.ops[0], ast.In)
            rhs = norm(e.comparators[0])
            if rhs == table_text:
                return ("supported", pol)
            if rhs == f"{self_name}.allowed":
                return ("in_allowed", pol)
            if rhs == f"{self_name}.recommended":
                return ("in_recommended", pol)
            return None
        if isinstance(e, ast.Call) and isinstance(e.func, ast.Name) and e.func.id == "isinstance" and len(e.args) == 2 \
                and norm(e.args[0]) == name_param and norm(e.args[1]) == "str":
            return ("well_typed", True)
        t = norm(e)
        if t == f"{self_name}.allowed":
            return ("allowed_truthy", True)
        if isinstance(e, ast.Compare) and len(e.ops) == 1 and norm(e.left) == f"{self_name}.allowed" \
                and is_const(e.comparators[0], None):
            if isinstance(e.ops[0], ast.IsNot):
                return ("allowed_truthy", True)
            if isinstance(e.ops[0], ast.Is):
                return ("allowed_truthy", False)
        return None
    return atom_of


@_ioe
def _gate_folded(ctx, fn: FunctionInfo, table_text: str, returns_lookup: bool) -> Optional[List[str]]:
    """Fold an algorithm gate on probe registries (allowed: None / [] / lists; a one-name recommended list; a three-name table) and probe
    names (listed, unlisted, empty, non-str): it hands out table[name] (resp. completes) exactly when the name is a str in the table and
    in the allow-list - the caller's when that is non-empty, the recommended one otherwise - and raises UnsupportedAlgorithmError for every
    other name.  None when the gate does not fold or a test was decided one way only (DESIGN 11.11): the truth table decides then."""
    from ..fold import Inst, FuncVal, ExtVal, FoldRaise, is_unknown
    eng = ctx.eng
    F = eng.folder
    if fn.cls is None:
        return None
    problems: List[str] = []
    loc = None
    if "['" in table_text:
        loc = table_text.split("['")[1].split("']")[0]
    F.start_trace()
    try:
        for allowed in (None, [], ["B"], ["AB"], ["A", "B"], ["Z", "C"], ["a"], [" A"], ["A "], ["ABC"]):
            table = {"A": ExtVal("MODEL_A"), "B": ExtVal("MODEL_B"), "C": ExtVal("MODEL_C"), "AB": ExtVal("MODEL_AB")}
            other = {"A": ExtVal("OTHER_A"), "Z": ExtVal("OTHER_Z")}
            algs = table if loc is None else {k: (table if k == loc else dict(other)) for k in ("alg", "enc", "zip")}
            for name in ("A", "B", "C", "AB", "Z", "", "a", "A ", 1, None, 1.5, ("A",)):
                inst = Inst(fn.cls, {"algorithms": algs, "allowed": None if allowed is None else list(allowed), "recommended": ["AB"]})
                ok_want = isinstance(name, str) and name in table and (name in allowed if allowed else name in ["AB"])
                try:
                    r = F.call(FuncVal(fn, None, inst), [name] if returns_lookup else [name, table], {})
                    if is_unknown(r):
                        return None
                    got = "ok"
                except FoldRaise as ex:
                    got = getattr(getattr(ex.exc, "cls", None), "name", None) or getattr(ex, "name", "") or "?"
                where = f"name={name!r}, allowed={allowed!r}, recommended=['AB'], table A/B/C/AB"
                if ok_want and got != "ok":
                    problems.append(f"an allowed, supported algorithm is refused ({where}: {got})")
                elif not ok_want and got == "ok":
                    problems.append(f"an algorithm that is not allowed passes the gate ({where})")
                elif not ok_want and got != "UnsupportedAlgorithmError":
                    problems.append(f"the gate refuses with {got}, not UnsupportedAlgorithmError ({where})")
                elif ok_want and returns_lookup and r is not table[name]:
                    problems.append(f"the gate hands out {r!r}, not the table entry of the requested name ({where})")
    except AnalysisError:
        return None
    finally:
        sided = F.one_sided()
    return None if sided else problems


def _check_gate(ctx, fn: FunctionInfo, name_param: str, table_text: str, returns_lookup: bool) -> bool:
    folded = _gate_folded(ctx, fn, table_text, returns_lookup)
    if folded is not None:
        ctx.check(not folded, "R05.3", fn, fn.node, f"{fn.short} :: gate (folded on probe registries)", folded[0] if folded else "",
                  "table[name] iff str, supported and in the allow-list in force; UnsupportedAlgorithmError otherwise", construct=f"gate {fn.short}")
        return not folded
    atoms = ["supported", "allowed_truthy", "in_allowed", "in_recommended", "well_typed"]
    table = truth_table(fn, atoms, _gate_atoms(fn, name_param, table_text))
    good = True
    for vals, outs in table.items():
        sup, at, ia, ir, wt = vals
        if not wt and (sup or ia or ir):
            continue  # a value that is not a str is in no table of names
        want_ok = wt and sup and ((at and ia) or ((not at) and ir))
        inst = f"{fn.short} :: well-typed={wt} supported={sup} allowed-truthy={at} in-allowed={ia} in-recommended={ir}"
        if not outs:
            ctx.fail("R05.3", fn, fn.node, "no path of the gate covers this combination", construct=inst.split(" :: ")[1])
            good = False
            continue
        for o in outs:
            if o.unknown:
                ctx.fail("R05.3", fn, o.node.ast if o.node else fn.node, "the algorithm gate branches on a condition the rule "
                         f"does not know: {o.unknown}", construct="unknown gate condition " + "; ".join(o.unknown))
                good = False
            if want_ok:
                if o.kind == "raise":
                    ctx.fail("R05.3", fn, o.node.ast if o.node else None, f"an allowed, supported algorithm is refused ({inst.split(' :: ')[1]})",
                             construct="refuses: " + inst.split(" :: ")[1])
                    good = False
                elif returns_lookup:
                    rv = o.node.ast.value if o.node is not None and isinstance(o.node.ast, ast.Return) else None
                    if rv is None or norm(rv) != f"{table_text}[{name_param}]":
                        ctx.fail("R05.3", fn, o.node.ast if o.node else None, "the gate does not return the table entry of the checked name",
                                 construct="gate return value")
                        good = False
            else:
                if o.kind != "raise":
                    ctx.fail("R05.3", fn, o.node.ast if o.node else fn.node,
                             f"an algorithm that is not allowed passes the gate ({inst.split(' :: ')[1]})",
                             construct="accepts: " + inst.split(" :: ")[1])
                    good = False
                elif o.exc.split(".")[-1] != "UnsupportedAlgorithmError":
                    ctx.fail("R05.3", fn, o.node.ast if o.node else None, f"refusal raises {o.exc}, not the unsupported-algorithm error",
                             construct="refusal class " + o.exc)
                    good = False
        if good:
            ctx.ok("R05.3", inst, "accept" if want_ok else "raise UnsupportedAlgorithmError")
    return good


def r05_3(ctx) -> List[FunctionInfo]:
    eng = ctx.eng
    P = eng.prog
    verified: List[FunctionInfo] = []
    jws = P.cls(REG_CLASSES[0])
    g = jws.lookup("get_alg")
    if g is None:
        raise AnalysisError("JWSRegistry.get_alg vanished")
    name_p = g.pos_params[1]
    if _check_gate(ctx, g, name_p, f"{g.self_name}.algorithms", True):
        verified.append(g)
    jwe = P.cls(REG_CLASSES[1])
    # the JWE gate: the method the three getters delegate to
    getters = [jwe.lookup(n) for n in ("get_alg", "get_enc", "get_zip")]
    if any(x is None for x in getters):
        raise AnalysisError("JWERegistry.get_alg/get_enc/get_zip vanished")
    gate_fns: Set[FunctionInfo] = set()
    for gt in getters:
        for s in eng.cg.calls_in(gt):  # type: ignore[arg-type]
            for c in s.callees:
                if c.cls is not None and jwe in c.cls.mro or (c.cls is jwe):
                    if c.name not in ("get_alg", "get_enc", "get_zip"):
                        gate_fns.add(c)
    inline = False
    if not gate_fns:
        inline = True
    for gf in gate_fns:
        pp = gf.pos_params
        if len(pp) < 3:
            ctx.fail("R05.3", gf, gf.node, "JWE gate does not take (name, table)", construct="JWE gate signature")
            continue
        if _check_gate(ctx, gf, pp[1], pp[2], False):
            verified.append(gf)
    for gt, loc in zip(getters, ("alg", "enc", "zip")):
        assert gt is not None
        if inline:
            if _check_gate(ctx, gt, gt.pos_params[1], f"{gt.self_name}.algorithms['{loc}']", True):
                verified.append(gt)
            continue
        cfg = cfg_of(gt)
        name_p = gt.pos_params[1]
        ok = True
        rets = cfg.returns()
        gate_nodes = []
        for s in eng.cg.calls_in(gt):
            if s.callees and all(c in verified for c in s.callees) and isinstance(s.node, ast.Call):
                a = s.node.args
                if len(a) >= 2 and norm(a[0]) == name_p:
                    tab = _resolve_local(eng, gt, a[1])
                    if tab == f"{gt.self_name}.algorithms['{loc}']":
                        n = cfg.node_of(s.node)
                        if n is not None:
                            gate_nodes.append(n)
        if not gate_nodes:
            ctx.fail("R05.3", gt, gt.node, f"{gt.name} does not call the verified gate with (name, algorithms['{loc}'])",
                     construct=f"{gt.name} gate call")
            continue
        for r in rets:
            v = r.ast.value  # type: ignore[union-attr]
            want = f"{gt.self_name}.algorithms['{loc}'][{name_p}]"
            got = _resolve_local(eng, gt, v) if v is not None else None
            if got != want:
                ctx.fail("R05.3", gt, r.ast, f"{gt.name} returns {got}, expected the '{loc}' table entry of the checked name")
                ok = False
            if not cfg.must_pass(cfg.entry, r, gate_nodes):
                ctx.fail("R05.3", gt, r.ast, f"{gt.name} can return a model without passing the gate")
                ok = False
        if ok:
            verified.append(gt)
            ctx.ok("R05.3", f"{gt.short}", f"gate call on algorithms['{loc}'] dominates `return table[name]`")
    # the name that is judged and looked up is the name that was asked for: no gate re-binds its name parameter (an alias table maps a name the
    # caller did not allow - or another algorithm's name - onto a model)
    for gfn in [g] + [x for x in getters if x is not None] + sorted(gate_fns, key=lambda f_: f_.qualname):
        npar = gfn.pos_params[1]
        for node in fn_nodes(gfn):
            if isinstance(node, ast.Name) and node.id == npar and isinstance(node.ctx, ast.Store):
                ctx.fail("R05.3", gfn, node, f"{gfn.short} re-binds `{npar}`, the algorithm name it was asked about: the model handed out is not the table entry of the requested name",
                         construct=f"algorithm name re-bound in {gfn.short}")
                verified = [v_ for v_ in verified if v_ is not gfn]
    return verified


def _resolve_local(eng, fn: FunctionInfo, e: ast.AST, depth: int = 0) -> str:
    """text of e with single-assignment locals inlined"""
    if depth > 4:
        return norm(e)

    class Sub(ast.NodeTransformer):
        def visit_Name(self, n: ast.Name):
            if n.id in fn.params:
                return n
            defs = [d for d in eng.flow._defs(fn).get(n.id, [])]
            if len(defs) == 1 and defs[0][0] == "assign" and not defs[0][2] and isinstance(defs[0][1], ast.expr):
                import copy
                return self.visit(copy.deepcopy(defs[0][1]))
            return n
    import copy
    return norm(Sub().visit(copy.deepcopy(e)))


# ----------------------------------------------------------------------------------------------- R05.2
def r05_2(ctx, verified: List[FunctionInfo]) -> None:
    eng = ctx.eng
    P = eng.prog
    regs = [P.cls(c) for c in REG_CLASSES]
    reg_family: Set[ClassInfo] = set()
    for r in regs:
        reg_family.add(r)
        reg_family.update(r.all_subclasses())
    n = 0
    for fn in P.all_functions():
        for node in fn_nodes(fn):
            if not (isinstance(node, ast.Attribute) and node.attr in TABLE_ATTRS):
                continue
            classes, ext, is_any, _ = eng.cg._recv_classes(fn, node.value)
            if not any(c in reg_family for c in classes):
                if not (is_any and not classes and not ext and fn.cls in reg_family):
                    continue
            n += 1
            par = P.parent(node)
            writing = isinstance(node.ctx, (ast.Store, ast.Del))
            # subscript stores / mutating calls through the attribute
            cur, up = node, par
            while isinstance(up, ast.Subscript) and up.value is cur:
                if isinstance(up.ctx, (ast.Store, ast.Del)):
                    writing = True
                cur, up = up, P.parent(up)
            if isinstance(up, ast.Attribute) and up.value is cur and isinstance(P.parent(up), ast.Call) \
                    and up.attr in ("append", "extend", "update", "pop", "remove", "clear", "insert", "setdefault", "sort", "reverse", "popitem"):
                writing = True
            inst = f"{fn.short} :: {norm(par if isinstance(par, (ast.Subscript, ast.Compare)) else node)[:70]}"
            if writing:
                okw = fn.name == "register" and fn.cls in reg_family and fn.is_classmethod
                ctx.check(okw, "R05.2", fn, node, inst, "an algorithm table is written outside Registry.register",
                          "write inside the register classmethod")
            else:
                okr = fn in verified
                ctx.check(okr, "R05.2", fn, node, inst, "an algorithm table is read outside the verified gate functions "
                          "(a lookup that bypasses the allow-list)", "read inside a gate function verified by R05.3")
    ctx.count("R05.2", n, 11, "accesses to the registry algorithm tables")


# ----------------------------------------------------------------------------------------------- R05.4
def r05_4(ctx) -> None:
    """`algorithms` only flows into fresh Registry(...) constructions; shared registries are never written"""
    eng = ctx.eng
    P = eng.prog
    regs = [P.cls(c) for c in REG_CLASSES]
    reg_family: Set[ClassInfo] = set()
    for r in regs:
        reg_family.add(r)
        reg_family.update(r.all_subclasses())
    ops = eng.operation_entries()
    scope: Set[FunctionInfo] = set()
    for e in ops:
        scope.update(scope_of(eng, e))
    carriers: List[Tuple[FunctionInfo, str]] = []
    for fn in scope:
        if "algorithms" in fn.params and fn.name != "<module>":
            carriers.append((fn, "algorithms"))
    n = 0
    for fn, pname in carriers:
        is_reg_init = fn.name == "__init__" and fn.cls in reg_family
        for node in fn_nodes(fn):
            if not (isinstance(node, ast.Name) and node.id == pname and isinstance(node.ctx, ast.Load)):
                continue
            n += 1
            par = P.parent(node)
            inst = f"{fn.short} :: {norm(par)[:70] if par is not None else pname}"
            # truthiness test
            if isinstance(par, (ast.If, ast.BoolOp, ast.UnaryOp, ast.IfExp, ast.While)):
                ctx.ok("R05.4", inst, "truthiness test only")
                continue
            if isinstance(par, ast.keyword):
                par = P.parent(par)
            if isinstance(par, ast.Call):
                s = eng.cg.site_of.get(id(par))
                if s is not None and s.callees:
                    good = True
                    for c in s.callees:
                        p2 = eng.cg.param_for_arg(s, c, node)
                        if p2 != "algorithms":
                            good = False
                        elif c.name == "__init__" and c.cls not in reg_family:
                            good = False
                    ctx.check(good, "R05.4", fn, par, inst, "the per-call allow-list flows somewhere other than a registry construction",
                              "passed on as `algorithms` to " + ",".join(c.short for c in s.callees))
                    continue
            if is_reg_init and isinstance(par, ast.Assign) and len(par.targets) == 1 and isinstance(par.targets[0], ast.Attribute) \
                    and isinstance(par.targets[0].value, ast.Name) and par.targets[0].value.id == fn.self_name:
                ctx.ok("R05.4", inst, "stored on the fresh registry instance")
                continue
            ctx.fail("R05.4", fn, par or node, "the per-call allow-list is used outside a registry construction / truthiness test")
    ctx.count("R05.4", n, 20, "uses of the `algorithms` parameter")
    # no store to registry objects from operation-reachable code (except their own __init__)
    m = 0
    for fn in scope:
        for node in fn_nodes(fn):
            targets: List[ast.expr] = []
            if isinstance(node, ast.Assign):
                targets = list(node.targets)
            elif isinstance(node, (ast.AugAssign, ast.AnnAssign)):
                targets = [node.target]
            elif isinstance(node, ast.Call) and isinstance(node.func, ast.Attribute) and node.func.attr in (
                    "append", "extend", "update", "pop", "remove", "clear", "insert", "setdefault", "add", "discard"):
                targets = [node.func.value]
            for t in targets:
                base = t
                while isinstance(base, (ast.Subscript,)):
                    base = base.value
                if not isinstance(base, ast.Attribute):
                    continue
                classes, _, _, _ = eng.cg._recv_classes(fn, base.value)
                if not any(c in reg_family for c in classes):
                    continue
                m += 1
                fresh = fn.name == "__init__" and fn.cls in reg_family and isinstance(base.value, ast.Name) and base.value.id == fn.self_name
                ctx.check(fresh, "R05.4", fn, node, f"{fn.short} :: {norm(node)[:70]}",
                          "operation-reachable code writes to a registry object (state shared between calls)",
                          "constructor initialising its own fresh instance")
    ctx.count("R05.4/stores", m, 5, "stores to registry objects in operation-reachable code")


# ----------------------------------------------------------------------------------------------- R05.5
def _model_classes(eng) -> List[ClassInfo]:
    P = eng.prog
    roots = [P.cls("rfc7515.model:JWSAlgModel"), P.cls("rfc7516.models:JWEEncModel"), P.cls("rfc7516.models:JWEZipModel"),
             P.cls("rfc7516.models:KeyManagement")]
    out: List[ClassInfo] = []
    for r in roots:
        out.append(r)
        out.extend(r.all_subclasses())
    return out


def r05_5(ctx, verified: List[FunctionInfo]) -> None:
    eng = ctx.eng
    models = set(_model_classes(eng))
    n = 0
    seen: Set[int] = set()
    for E in eng.operation_entries():
        scope = scope_of(eng, E)
        for fn in scope:
            for s in eng.cg.calls_in(fn):
                if not isinstance(s.node, ast.Call) or s.attr not in T.CRYPTO_OPS or not s.callees:
                    continue
                if not all(c.cls in models for c in s.callees):
                    continue
                recv = s.node.func.value  # type: ignore[union-attr]
                # composition inside a model: self.<attr>.op(...) / self.op(...)
                if fn.cls in models and isinstance(recv, ast.Name) and recv.id == fn.self_name:
                    continue
                if fn.cls in models and isinstance(recv, ast.Attribute) and isinstance(recv.value, ast.Name) \
                        and recv.value.id == fn.self_name:
                    continue
                if (id(s), ) in seen:
                    pass
                n += 1
                res = eng.flow.slice(fn, recv, scope, [E])
                gated = [c for c in res.calls if c.callees and any(x in verified for x in c.callees)]
                bad = []
                for l in res.leaves:
                    if l.kind in ("const", "func", "class"):
                        continue
                    if l.kind == "global" and any(l.name.endswith("Registry." + a) for a in TABLE_ATTRS):
                        continue
                    if l.kind == "param" and (".register." in l.name or l.name.endswith(".register.alg") or l.name.endswith(".register.model")):
                        continue
                    bad.append(l)
                inst = f"{E.short} -> {fn.short}:{norm(s.node)[:50]}"
                # the algorithm object is looked up in THIS call: it is never carried in a field of an object that outlives the call (a token / message /
                # recipient object); only the registry tables and the composition fields of the models themselves are read on the way
                carried = sorted(f for f in res.fields if not (f.endswith("Registry.algorithms") or f.split(".")[0] in {c.name for c in models}))
                if carried:
                    ctx.fail("R05.5", fn, s.node, f"the algorithm object used for a cryptographic operation is read from the field(s) {carried} of an object that outlives "
                             "the call: what an earlier call (with another allow-list) stored there is used without passing this call's gate",
                             construct=f"algorithm object carried in {carried[0]} [{E.short}]")
                    continue
                if not gated or bad:
                    ctx.fail("R05.5", fn, s.node, "the algorithm object used for a cryptographic operation does not (only) come from "
                             f"a registry gate call: gate calls={len(gated)} other sources={sorted(repr(b) for b in bad)[:4]}",
                             construct=f"{norm(s.node)[:80]} [{E.short}]", slice=res.describe())
                else:
                    ctx.ok("R05.5", inst, "receiver <- " + ",".join(sorted({x.short for c in gated for x in c.callees if x in verified})))
    ctx.count("R05.5", n, 50, "(entry, model call site) pairs")


# ----------------------------------------------------------------------------------------------- R05.6 / R05.7
def r05_6(ctx) -> None:
    eng = ctx.eng
    algs = eng.folder.class_attr(eng.prog.cls(REG_CLASSES[0]), "algorithms")
    inst = algs.get("none") if isinstance(algs, dict) else None
    if not isinstance(inst, Inst):
        raise AnalysisError('the model registered as "none" did not fold')
    v = inst.cls.lookup("verify")
    if v is None:
        raise AnalysisError("none model without verify")
    rets = cfg_of(v).returns()
    ok = bool(rets) and all(is_const(r.ast.value, False) for r in rets) and \
        not any(lab == "fall" for _, lab in cfg_of(v).normal_exits())
    ctx.check(ok, "R05.6", v, v.node, f"{v.short}", 'the "none" algorithm can return something other than False from verify()',
              "every return is the constant False", construct="none verify verdict")


def r05_7(ctx) -> None:
    eng = ctx.eng
    P = eng.prog
    regs = [P.cls(c) for c in REG_CLASSES]
    registers = []
    for r in regs:
        for c in [r] + r.all_subclasses():
            f = c.methods.get("register")
            if f is not None:
                registers.append(f)
    writers: List[FunctionInfo] = list(registers)
    for fn in P.all_functions():
        if any(any(c in registers for c in s.callees) for s in eng.cg.calls_in(fn)):
            if fn not in writers:
                writers.append(fn)
    ctx.count("R05.7", len(writers), 5, "registration functions")
    scope: Set[FunctionInfo] = set()
    for e in eng.operation_entries():
        scope.update(scope_of(eng, e))
    for w in writers:
        if w.name == "<module>":
            continue
        ctx.check(w not in scope, "R05.7", w, w.node, f"{w.short}", "registration code is reachable from an operation entry point "
                  "(the set of usable algorithms would depend on earlier calls)", "unreachable from all operation entries",
                  construct=f"reachable registration {w.short}")


def r05_9(ctx, verified: List[FunctionInfo]) -> None:
    """the gate's refusal propagates: no call of an algorithm gate (get_alg / get_enc / get_zip / check_header of a registry) sits in
    a `try` whose handler catches the refusal and can complete normally (an unlisted algorithm would merely be skipped)"""
    from .common import handler_catches
    eng = ctx.eng
    P = eng.prog
    gates = set(verified)
    for c in REG_CLASSES:
        k = P.cls(c)
        for kk in [k] + k.all_subclasses():
            for nm in ("get_alg", "get_enc", "get_zip", "check_header"):
                m = kk.methods.get(nm)
                if m is not None:
                    gates.add(m)
    scope: Set[FunctionInfo] = set()
    for e in eng.operation_entries():
        scope.update(scope_of(eng, e))
    n = 0
    for fn in scope:
        if fn.name == "<module>":
            continue
        tries = [x for x in fn_nodes(fn) if isinstance(x, ast.Try)]
        if not tries:
            continue
        cfg = cfg_of(fn)
        for s in eng.cg.calls_in(fn):
            if not (isinstance(s.node, ast.Call) and s.callees and any(c in gates for c in s.callees)):
                continue
            for tr in tries:
                if not any(s.node is y for b in tr.body for y in ast.walk(b)):
                    continue
                n += 1
                bad = None
                for h in tr.handlers:
                    caught = [c.split(":")[-1].split(".")[-1] for c in handler_catches(eng, fn, h)]
                    if not any(c in ("JoseError", "UnsupportedAlgorithmError", "Exception", "BaseException", "*", "ValueError") for c in caught):
                        continue
                    hn = [x for x in cfg.nodes if x.kind == "handler" and x.ast is h]
                    if hn:
                        r = cfg.reachable(hn[0])
                        if cfg.exit in r or any(x.kind == "loop" for x in r):
                            bad = h
                ctx.check(bad is None, "R05.9", fn, s.node, f"{fn.short} :: {norm(s.node)[:50]} inside try", f"the refusal of `{norm(s.node)[:50]}` can be swallowed: an enclosing handler catches "
                          "it and can complete normally, so a token naming an unlisted algorithm is skipped instead of refused", "gate outside the try / handler always re-raises",
                          construct=f"gate {norm(s.node)[:50]} inside a swallowing try")
    ctx.ok("R05.9", "gates inside try blocks", f"{n} gate call(s) inside a try block, none with a handler that can complete normally")


def r05_16(ctx) -> None:
    """R05.16  "with an explicit list ... exactly the listed names are usable": the four JWE operations take BOTH `algorithms=` and `registry=`; a non-empty
    list is the narrower statement of what the caller allows and it decides - the registry that is used is built from it whether or not a registry was
    passed as well.  In each of the four functions the test of `algorithms` is reached without any test about `registry` having been decided first,
    and on its true arm the registry is (re)built from the list before anything uses it.  (JWS: `construct_registry` has no such test - a passed
    registry is the caller's explicit statement there, decided by R05.10.)"""
    from .common import succ_by_label
    eng = ctx.eng
    P = eng.prog
    n = 0
    for name in ("encrypt_compact", "decrypt_compact", "encrypt_json", "decrypt_json"):
        fn = P.func(f"jwe:{name}")
        if "algorithms" not in fn.params or "registry" not in fn.params:
            raise AnalysisError(f"jwe:{name} lost its algorithms / registry parameters")
        cfg = cfg_of(fn)
        tests = [t for t in cfg.nodes if t.kind == "test" and t.ast is not None and norm(t.ast) in ("algorithms", "not algorithms")]
        n += 1
        ok = bool(tests)
        why = "no test of `algorithms`"
        if ok:
            reg_tests = [t for t in cfg.nodes if t.kind == "test" and t.ast is not None and any(isinstance(x, ast.Name) and x.id == "registry" for x in ast.walk(t.ast))]
            # (1) some test of `algorithms` is reached from the entry without passing a test that mentions `registry`
            free = cfg.reachable(cfg.entry, edge_filter=lambda a, b, lab, _r=reg_tests: a not in _r)
            tfree = [t for t in tests if t in free]
            ok = bool(tfree)
            why = "the `algorithms` list is only looked at after a test about `registry` was decided: a passed registry overrides the explicit list"
            if ok:
                # (2) on the arm where the list is non-empty the registry is rebuilt from it on every path
                for t in tfree:
                    lab = "true" if norm(t.ast) == "algorithms" else "false"
                    builds = []
                    for s_ in eng.cg.calls_in(fn):
                        if s_.kind == "ctor" and isinstance(s_.node, ast.Call) and any(getattr(c_, "cls", None) is not None and c_.cls.name == "JWERegistry" for c_ in s_.callees):
                            a_ = eng.cg.arg_for_param(s_, s_.callees[0], "algorithms")
                            if a_ is not None and norm(a_) == "algorithms" and cfg.node_of(s_.node) is not None:
                                builds.append(cfg.node_of(s_.node))
                    for s0 in succ_by_label(cfg, t, lab):
                        if not builds or cfg.exit in cfg.reachable(s0, builds) and s0 not in builds:
                            ok = False
                            why = "with a non-empty `algorithms` list a path does not build the registry from it"
        ctx.check(ok, "R05.16", fn, fn.node, f"{fn.short} :: explicit list decides", f"{fn.short}: {why}", "if algorithms: registry = JWERegistry(algorithms=algorithms)  elif registry is None: default",
                  construct=f"allow-list precedence in {fn.short}")
    ctx.count("R05.16", n, 4, "JWE operations taking both algorithms= and registry=")


def r05_10(ctx) -> None:
    """a registry object is built inside an operation only from the call's own `algorithms` argument and only when that argument is
    given or the caller passed no registry: an explicit registry is never replaced by one that lost its allow-list"""
    eng = ctx.eng
    P = eng.prog
    fam: Set[ClassInfo] = set()
    for c in REG_CLASSES:
        k = P.cls(c)
        fam.add(k)
        fam.update(k.all_subclasses())
    scope: Set[FunctionInfo] = set()
    for e in eng.operation_entries():
        scope.update(scope_of(eng, e))
    n = 0
    for fn in scope:
        if fn.name == "<module>":
            continue
        for s in eng.cg.calls_in(fn):
            if s.kind != "ctor" or not isinstance(s.node, ast.Call) or not any(c.cls in fam for c in s.callees):
                continue
            n += 1
            cfg = cfg_of(fn)
            sn = cfg.node_of(s.node)
            init = s.callees[0]
            a = eng.cg.arg_for_param(s, init, "algorithms")
            ok_arg = a is not None and isinstance(a, ast.Name) and a.id in fn.params
            tests = []
            for t in cfg.nodes:
                if t.kind != "test" or t.ast is None:
                    continue
                if ok_arg and norm(t.ast) == a.id:
                    tests.append(t)
                elif isinstance(t.ast, ast.Compare) and len(t.ast.ops) == 1 and isinstance(t.ast.ops[0], ast.Is) and is_const(t.ast.comparators[0], None) \
                        and isinstance(t.ast.left, ast.Name) and t.ast.left.id in fn.params and "registry" in t.ast.left.id:
                    tests.append(t)
            ok_ctl = bool(tests) and sn is not None and sn not in cfg.reachable(cfg.entry, edge_filter=lambda x, y, lab, _t=tests: not (x in _t and lab == "true"))
            ctx.check(ok_arg and ok_ctl, "R05.10", fn, s.node, f"{fn.short} :: {norm(s.node)[:60]}", f"`{norm(s.node)[:70]}` builds a registry "
                      + ("without the call's `algorithms` argument" if not ok_arg else "although the caller passed a registry and no `algorithms`: the caller's allow-list is dropped"),
                      "Registry(algorithms=algorithms) under `if algorithms` / `if registry is None`", construct=f"registry construction in {fn.short}")
    ctx.count("R05.10", n, 9, "registry constructions in operation-reachable functions")
    # ... and the caller's registry is never replaced by ANYTHING (the default registry included) unless it is None or `algorithms` is given
    m = 0
    for fn in scope:
        rp = [p_ for p_ in fn.params if p_ == "registry"]
        if not rp or fn.name == "<module>":
            continue
        cfg = cfg_of(fn)
        for node in fn_nodes(fn):
            if not (isinstance(node, ast.Assign) and any(isinstance(t_, ast.Name) and t_.id == "registry" for t_ in node.targets)):
                continue
            m += 1
            sn = cfg.node_of(node)
            tests = [t for t in cfg.nodes if t.kind == "test" and t.ast is not None and (
                norm(t.ast) == "algorithms" or (isinstance(t.ast, ast.Compare) and len(t.ast.ops) == 1 and isinstance(t.ast.ops[0], ast.Is) and is_const(t.ast.comparators[0], None)
                                                and norm(t.ast.left) == "registry"))]
            ok_ctl = bool(tests) and sn is not None and sn not in cfg.reachable(cfg.entry, edge_filter=lambda x, y, lab, _t=tests: not (x in _t and lab == "true"))
            ctx.check(ok_ctl, "R05.10", fn, node, f"{fn.short} :: {norm(node)[:50]}", f"`{norm(node)[:60]}` can replace a registry the caller passed (it is not controlled by `registry is None` "
                      "or `if algorithms`): the caller's allow-list is dropped", "under `if algorithms` / `if registry is None`", construct=f"registry re-bound in {fn.short}")
    ctx.count("R05.10/rebind", m, 12, "re-bindings of the registry parameter in operation-reachable functions")


def r05_12(ctx) -> None:
    """sibling cross-check: all JWS entry points decide in the same way when the caller's registry is replaced by one built from
    `algorithms` (construct_registry): the controlling condition of every such call site is the same"""
    eng = ctx.eng
    cr = eng.prog.func("rfc7515.registry:construct_registry")
    sites = [s for s in eng.cg.callers.get(cr, []) if isinstance(s.node, ast.Call)]
    conds = {}
    for s in sites:
        cfg = cfg_of(s.fn)
        sn = cfg.node_of(s.node)
        ctl = []
        for t in cfg.nodes:
            if t.kind != "test" or t.ast is None or sn is None:
                continue
            r_true = sn in cfg.reachable(cfg.entry, edge_filter=lambda a, b, lab, _t=t: not (a is _t and lab == "false"))
            r_false = sn in cfg.reachable(cfg.entry, edge_filter=lambda a, b, lab, _t=t: not (a is _t and lab == "true"))
            if r_true != r_false:
                ctl.append((norm(t.ast), "true" if r_true else "false"))
            elif any(isinstance(x, ast.Name) and x.id in ("registry", "algorithms") for x in ast.walk(t.ast)) and sn in cfg.reachable(t):
                ctl.append((norm(t.ast), "either"))
        conds[s] = tuple(sorted(ctl))
    ctx.count("R05.12", len(sites), 4, "construct_registry call sites")
    from collections import Counter
    maj, _ = Counter(conds.values()).most_common(1)[0]
    ctx.check(maj == (("registry is None", "true"),), "R05.12", cr, cr.node, "construct_registry :: majority condition", f"the JWS entry points build a registry under {maj}",
              "if registry is None", construct="construct_registry majority condition")
    for s, c in conds.items():
        ctx.check(c == maj, "R05.12", s.fn, s.node, f"{s.fn.short} :: construct_registry condition", f"{s.fn.short} replaces the caller's registry under {c}, its siblings under {maj}: "
                  "a given registry (its header table, strictness, allow-list) is dropped when `algorithms` is also passed", "same condition as the sibling entry points",
                  construct=f"construct_registry condition in {s.fn.short}")


def r05_13(ctx) -> None:
    """the caller's allow-list reaches the gate on every route: wherever a function with an `algorithms` parameter calls a function
    with an `algorithms` parameter it passes its own value - or a `registry` that it built from that value"""
    eng = ctx.eng
    n = 0
    for fn in eng.prog.all_functions():
        if "algorithms" not in fn.params or fn.name == "<module>":
            continue
        builds = any(isinstance(x, ast.Call) and any(k.arg == "algorithms" and norm(k.value) == "algorithms" for k in x.keywords) and norm(x.func).endswith("Registry")
                     for x in fn_nodes(fn))
        for s in eng.cg.calls_in(fn):
            if not isinstance(s.node, ast.Call):
                continue
            for c in s.callees:
                if "algorithms" not in c.params or c is fn or (c.name == "__init__"):
                    continue
                n += 1
                a = eng.cg.arg_for_param(s, c, "algorithms")
                ok = a is not None and norm(a) == "algorithms"
                if not ok and a is None and builds:
                    r = eng.cg.arg_for_param(s, c, "registry") if "registry" in c.params else None
                    ok = r is not None and norm(r) == "registry"
                ctx.check(ok, "R05.13", fn, s.node, f"{fn.short} -> {c.short}", f"{fn.short} does not hand its `algorithms` allow-list on to {c.short} "
                          f"({'argument omitted' if a is None else 'passes ' + norm(a)}): the list the caller gave is not the one the gate sees", "algorithms=algorithms (or the registry built from it)",
                          construct=f"algorithms forwarding {fn.short} -> {c.short}")
    ctx.count("R05.13", n, 12, "call sites between functions that both take `algorithms`")


def r05_15(ctx) -> None:
    """R05.15  "every other alg, enc or zip value ... makes the call fail (for a well-typed name with the unsupported-algorithm error)": every raise
    that an algorithm gate (get_alg / get_enc / get_zip of the registries and what they call inside the registry modules) can reach constructs
    UnsupportedAlgorithmError or a subclass of it."""
    eng = ctx.eng
    P = eng.prog
    want = P.cls("errors:UnsupportedAlgorithmError")
    gates = []
    for cn in ("rfc7515.registry:JWSRegistry", "rfc7516.registry:JWERegistry"):
        c = P.cls(cn)
        for sub in [c] + c.all_subclasses():
            for m in ("get_alg", "get_enc", "get_zip"):
                if m in sub.methods:
                    gates.append(sub.methods[m])
    scope: List[FunctionInfo] = []
    for g in gates:
        for f in eng.cg.reachable([g]):
            if f not in scope and f.module.short.endswith("registry") and f.name != "check_header" and not f.name.startswith("validate") and f.cls is not None:
                scope.append(f)
    n = 0
    for f in scope:
        for node in fn_nodes(f):
            if not isinstance(node, ast.Raise) or node.exc is None:
                continue
            n += 1
            e = node.exc.func if isinstance(node.exc, ast.Call) else node.exc
            r = P.resolve_expr(f.module, e, f)
            ok = isinstance(r, type(want)) and r.is_subclass_of(want)
            ctx.check(ok, "R05.15", f, node, f"{f.short} :: {norm(node)[:60]}", f"an algorithm gate refuses a name with `{norm(e)}`, not with UnsupportedAlgorithmError",
                      "raise UnsupportedAlgorithmError(...)", construct=f"gate raises {norm(e)} in {f.short}")
    ctx.count("R05.15", n, 4, "raise statements reachable from the algorithm gates")


def run(ctx) -> None:
    from .common import forwarding_discipline
    ctx.guard(forwarding_discipline, "R05.14", ['registry', 'algorithms', 'name', 'strict_check_header', 'verify_all_recipients'], 44)  # arguments are handed on under their own name (generic routing rule, rules/common.py)
    ctx.guard(r05_15)
    ctx.guard(r05_13)
    ctx.guard(r05_12)
    from .c01 import r01_2 as _r01_2, verify_family as _vf
    ctx.guard_as("R05.17", _r01_2, _vf(ctx.eng))  # every signature of a general JSON JWS passes the algorithm gate: the verifying loop is not left at the first success
    ctx.guard(r05_10)
    ctx.guard(r05_16)
    ctx.guard(r05_1)
    verified = ctx.guard(r05_3) or []
    ctx.extra["verified_gates"] = [f.short for f in verified]
    ctx.guard(r05_2, verified)
    ctx.guard(r05_4)
    ctx.guard(r05_5, verified)
    ctx.guard(r05_6)
    ctx.guard(r05_7)
    ctx.guard(r05_9, verified)
    from .c15 import r15_3
    ctx.guard_as("R05.11", r15_3)  # alg / enc / zip header values are only type-checked by the header tables: which names are usable is the gate's decision
    # every zip value that is present is looked up (and refused when unknown): the compression condition is presence, not truthiness
    from .c04 import r04_2
    ctx.guard_as("R05.8", r04_2)
    ctx.note("explicitly empty `algorithms=[]` is treated like an absent list by the code (`if algorithms:`); the statement's "
             "reading is ambiguous against the documented API - observation only, no verdict")
    ctx.assume("the frozen tables of jv/spec/tables.py (property statement + docs/guide/algorithms.rst)")
