"""C06 - operations succeed only with a key suited to the algorithm and operation.

R06.1 use gate (check_use on every key entering an operation)    R06.2 key_ops / private-material gate (get_op_key table)
R06.3 curve gates                                                R06.4 size gates
R06.5 unsafe symmetric-secret warning
audit: key-type gate sites (verdict-bearing under C16 E4 only)
"""
from __future__ import annotations
import ast
from typing import Dict, List, Optional, Set, Tuple

from ..program import AnalysisError, ClassInfo, FunctionInfo, fn_nodes, norm
from ..callgraph import CallSite
from ..cfg import cfg_of, CNode
from ..decide import truth_table
from ..fold import Inst, is_unknown
from ..spec import tables as T
from .common import (as_less, resolve_all, JWE_CONSUME, JWE_PRODUCE, JWS_CONSUME, JWS_PRODUCE, can_reach_exit, const_value, entries, impls,
                     is_const, names_in, scope_of, succ_by_label)


def _family_scopes(eng) -> Tuple[Set[FunctionInfo], Set[FunctionInfo]]:
    sig: Set[FunctionInfo] = set()
    enc: Set[FunctionInfo] = set()
    for e in entries(eng, JWS_CONSUME + JWS_PRODUCE + [("jws", "validate_compact")]):
        sig.update(scope_of(eng, e))
    for e in entries(eng, JWE_CONSUME + JWE_PRODUCE):
        enc.update(scope_of(eng, e))
    return sig, enc


def _key_producers(eng) -> List[FunctionInfo]:
    gk = eng.prog.func("jwk:guess_key")
    kp = [gk]
    changed = True
    while changed:
        changed = False
        for fn in eng.prog.all_functions():
            if fn in kp:
                continue
            rets = [n for n in fn_nodes(fn) if isinstance(n, ast.Return) and n.value is not None]
            if rets and all(isinstance(r.value, ast.Call) and (eng.cg.site_of.get(id(r.value)) is not None)
                            and eng.cg.site_of[id(r.value)].callees
                            and all(c in kp for c in eng.cg.site_of[id(r.value)].callees) for r in rets):
                kp.append(fn)
                changed = True
    return kp


def _checked_key_producers(eng, kp: List[FunctionInfo]) -> Dict[str, List[FunctionInfo]]:
    """functions that hand out a selected key only after `<key>.check_use(<use>)` on it (a key finder that does the use gate itself): use -> functions"""
    out: Dict[str, List[FunctionInfo]] = {"sig": [], "enc": []}
    for fn in eng.prog.all_functions():
        if fn in kp or fn.name == "<module>":
            continue
        rets = [n for n in fn_nodes(fn) if isinstance(n, ast.Return) and n.value is not None]
        if not rets or not all(isinstance(r.value, ast.Name) for r in rets):
            continue
        cfg = cfg_of(fn)
        for want in ("sig", "enc"):
            ok = True
            for r in rets:
                var = r.value.id
                defs = [d for d in eng.flow._defs(fn).get(var, []) if d[0] == "assign"]
                if not defs or not all(isinstance(d[1], ast.Call) and eng.cg.site_of.get(id(d[1])) is not None and eng.cg.site_of[id(d[1])].callees
                                       and all(c in kp for c in eng.cg.site_of[id(d[1])].callees) for d in defs):
                    ok = False
                    break
                checks = [cfg.node_of(n) for n in fn_nodes(fn) if isinstance(n, ast.Call) and isinstance(n.func, ast.Attribute) and n.func.attr == "check_use"
                          and isinstance(n.func.value, ast.Name) and n.func.value.id == var and n.args and const_value(n.args[0]) == want]
                checks = [c for c in checks if c is not None]
                rn = cfg.node_of(r)
                if not checks or rn is None or not cfg.must_pass(cfg.entry, rn, checks):
                    ok = False
                    break
            if ok:
                out[want].append(fn)
    return out


# ----------------------------------------------------------------------------------------------- R06.1
def r06_1(ctx) -> None:
    eng = ctx.eng
    sig, enc = _family_scopes(eng)
    kp = _key_producers(eng)
    ckp = _checked_key_producers(eng, kp)
    n_land = 0
    n_chk = 0
    for fn in sorted(sig | enc, key=lambda f: f.qualname):
        if fn in kp or fn.name == "<module>":
            continue
        want = "sig" if fn in sig and fn not in enc else ("enc" if fn in enc and fn not in sig else None)
        cfg = None
        for s in eng.cg.calls_in(fn):
            if not isinstance(s.node, ast.Call) or not s.callees:
                continue
            if want is not None and all(c in ckp[want] for c in s.callees):
                n_land += 1
                n_chk += 1
                ctx.ok("R06.1", f"{fn.short} :: {norm(s.node)[:60]}", f"every finder behind this call checks the use {want!r} itself")
                continue
            if not all(c in kp or (want is not None and c in ckp[want]) for c in s.callees) or not any(c in kp for c in s.callees):
                continue
            par = eng.prog.parent(s.node)
            if not (isinstance(par, (ast.Assign, ast.AnnAssign))):
                ctx.fail("R06.1", fn, s.node, "the key selected for the operation is used without being bound (cannot apply the use gate)")
                continue
            tgt = par.targets[0] if isinstance(par, ast.Assign) else par.target
            if not isinstance(tgt, ast.Name):
                ctx.fail("R06.1", fn, par, "the selected key is not bound to a local name")
                continue
            if want is None:
                ctx.fail("R06.1", fn, par, "function is shared by the JWS and JWE families: cannot decide the required use", construct="family of " + fn.short)
                continue
            n_land += 1
            cfg = cfg or cfg_of(fn)
            K = cfg.node_of(par)
            var = tgt.id
            checks: List[CNode] = []
            for n in fn_nodes(fn):
                if isinstance(n, ast.Call) and isinstance(n.func, ast.Attribute) and n.func.attr == "check_use" \
                        and isinstance(n.func.value, ast.Name) and n.func.value.id == var and n.args:
                    lit = const_value(n.args[0])
                    if lit == want:
                        cn = cfg.node_of(n)
                        if cn is not None:
                            checks.append(cn)
                            n_chk += 1
                    else:
                        ctx.fail("R06.1", fn, n, f"check_use is called with {lit!r}, the {('JWS' if want == 'sig' else 'JWE')} family requires {want!r}")
            uses: List[Tuple[CNode, ast.AST]] = []
            for n in fn_nodes(fn):
                if isinstance(n, ast.Name) and n.id == var and isinstance(n.ctx, ast.Load):
                    p2 = eng.prog.parent(n)
                    if isinstance(p2, ast.Attribute) and p2.value is n and p2.attr in ("check_use", "check_alg", "kid", "ensure_kid"):
                        continue
                    cn = cfg.node_of(n)
                    if cn is not None and cn is not K:
                        uses.append((cn, p2 if p2 is not None else n))
            reach = cfg.reachable(K)
            bad = False
            for cn, ctxnode in uses:
                if cn not in reach:
                    continue
                if not cfg.must_pass(K, cn, checks):
                    ctx.fail("R06.1", fn, cn.ast, f"the key is used without a preceding {var}.check_use({want!r}) on this path",
                             construct=f"use of {var} before check_use: {norm(cn.ast)[:80]}")
                    bad = True
            if not bad:
                ctx.ok("R06.1", f"{fn.short} :: {norm(par)[:60]}", f"{var}.check_use({want!r}) precedes all {len(uses)} uses")
    ctx.count("R06.1/landing", n_land, 11, "sites where a selected key enters an operation")
    ctx.count("R06.1/check_use", n_chk, 11, "check_use sites")
    # recipients loops in the JWE entries (keys pre-attached to the message object)
    msg_mod = eng.prog.mod("rfc7516.message")
    consumer_scope: Set[FunctionInfo] = set()
    for f in msg_mod.functions:
        if f.name in ("perform_encrypt", "perform_decrypt"):
            consumer_scope.update(eng.cg.reachable([f]))
    n_loops = 0
    performers = [f for f in msg_mod.functions if f.name in ("perform_encrypt", "perform_decrypt")]
    for E in entries(eng, JWE_CONSUME + JWE_PRODUCE):
        ecfg = cfg_of(E)
        pnodes = [ecfg.node_of(s.node) for s in eng.cg.calls_in(E) if any(c in performers for c in s.callees)]
        pnodes = [p for p in pnodes if p is not None]
        if not pnodes:
            raise AnalysisError(f"R06.1: {E.short} does not call perform_encrypt/perform_decrypt")
        before = {E}
        for s in eng.cg.calls_in(E):
            cn = ecfg.node_of(s.node)
            if cn is not None and s.callees and any(p in ecfg.reachable(cn) for p in pnodes) and cn not in pnodes:
                for c in s.callees:
                    before.update(eng.cg.reachable([c]))
        for fn in sorted(before, key=lambda f: f.qualname):
            if fn in consumer_scope or fn.name == "<module>":
                continue
            cfg = cfg_of(fn)
            for L in [n for n in cfg.nodes if n.kind == "loop"]:
                it = L.ast.iter  # type: ignore[union-attr]
                if not (isinstance(it, ast.Attribute) and it.attr == "recipients") and not (isinstance(it, ast.Name) and it.id == "recipients") \
                        and not any(x.endswith(".recipients") for x in resolve_all(eng, fn, it)):
                    continue
                tv = L.ast.target  # type: ignore[union-attr]
                if not isinstance(tv, ast.Name):
                    continue
                n_loops += 1
                rv = tv.id
                checks = []
                for n in fn_nodes(fn):
                    if isinstance(n, ast.Call) and isinstance(n.func, ast.Attribute) and n.func.attr == "check_use" and n.args \
                            and const_value(n.args[0]) == "enc":
                        cn = cfg.node_of(n)
                        if cn is not None:
                            checks.append(cn)
                # every iteration path (loop head -iter-> ... -> loop head) passes a check_use("enc")
                ok = True
                for s in succ_by_label(cfg, L, "iter"):
                    if L in cfg.reachable(s, checks) and not (s in checks):
                        ok = False
                inst = f"{E.short} -> {fn.short} :: for {rv} in {norm(it)}"
                if not ok:
                    w = None
                    for s in succ_by_label(cfg, L, "iter"):
                        w = w or cfg.path_avoiding(s, L, checks)
                    ctx.fail("R06.1", fn, L.ast, "a recipient can keep a pre-attached key whose declared `use` is never checked "
                             "(an iteration path without check_use(\"enc\"))", construct=f"for {rv} in {norm(it)}: iteration without check_use",
                             path=[repr(x) for x in (w or [])][:10])
                else:
                    ctx.ok("R06.1", inst, "every iteration path passes check_use(\"enc\")")
    ctx.count("R06.1/loops", n_loops, 2, "recipient loops in JWE entries")


# ----------------------------------------------------------------------------------------------- R06.2
def _model_methods(eng) -> Dict[Tuple[str, str], FunctionInfo]:
    P = eng.prog
    out: Dict[Tuple[str, str], FunctionInfo] = {}
    for (cname, meth) in T.OP_KEY_LITERALS:
        base, _, fam = cname.partition("@")
        cands = [c for c in P.classes.values() if c.name == base]
        if fam == "jws":
            cands = [c for c in cands if c.module.name.endswith("jws_algs")]
        elif fam == "jwe":
            cands = [c for c in cands if c.module.name.endswith("jwe_algs")]
        if len(cands) != 1:
            raise AnalysisError(f"R06.2: class {cname} not found exactly once")
        f = cands[0].methods.get(meth)
        if f is None:
            raise AnalysisError(f"R06.2: {cname}.{meth} vanished")
        out[(cname, meth)] = f
    return out


def r06_2(ctx) -> None:
    eng = ctx.eng
    P = eng.prog
    F = eng.folder
    mm = _model_methods(eng)
    n = 0
    for (cname, meth), fn in sorted(mm.items()):
        lits = set()
        for s in eng.cg.calls_in(fn):
            if isinstance(s.node, ast.Call) and s.attr == "get_op_key":
                v = const_value(s.node.args[0]) if s.node.args else None
                lits.add(v)
                n += 1
        want = T.OP_KEY_LITERALS[(cname, meth)]
        ctx.check(lits == want, "R06.2", fn, fn.node, f"{fn.short} :: get_op_key literal", f"{cname}.{meth} obtains its native key with "
                  f"get_op_key{sorted(map(repr, lits))}, the operation requires {sorted(want)} (key_ops / private-material gate)",
                  f"get_op_key({sorted(want)})", construct=f"get_op_key literals of {cname}.{meth}")
    ctx.count("R06.2/get_op_key", n, 20, "get_op_key call sites in algorithm methods")
    # no raw accessor on key objects inside algorithm models
    keybase = P.cls("rfc7517.models:BaseKey")
    keyfam = set([keybase] + keybase.all_subclasses())
    roots = [P.cls("rfc7515.model:JWSAlgModel"), P.cls("rfc7516.models:KeyManagement"), P.cls("rfc7516.models:JWEEncModel")]
    models: Set[ClassInfo] = set()
    for r in roots:
        models.add(r)
        models.update(r.all_subclasses())
    ALLOW = {("DirectAlgModel", "compute_cek", "raw_value"): "dir uses the shared symmetric key itself as CEK; the statement does not list "
             "dir among the operations that consult key_ops"}
    m = 0
    for c in models:
        for fn in c.methods.values():
            for node in fn_nodes(fn):
                if isinstance(node, ast.Attribute) and node.attr in ("raw_value", "private_key", "public_key", "_raw_value", "dict_value") \
                        and isinstance(node.ctx, ast.Load):
                    classes, ext, is_any, _ = eng.cg._recv_classes(fn, node.value)
                    if not (any(k in keyfam for k in classes) or (is_any and not ext)):
                        continue
                    m += 1
                    why = ALLOW.get((c.name, fn.name, node.attr))
                    ctx.check(why is not None, "R06.2", fn, node, f"{fn.short} :: {norm(node)}", "an algorithm model reads key material directly "
                              f"({norm(node)}) instead of key.get_op_key(<operation>): key_ops and private-material checks are bypassed",
                              f"whitelisted: {why}")
    ctx.count("R06.2/raw", m, 1, "direct key-material reads in models")
    # get_op_key consults check_key_op first and hands out private / public per the registry
    gok = keybase.lookup("get_op_key")
    cko = keybase.lookup("check_key_op")
    if gok is None or cko is None:
        raise AnalysisError("BaseKey.get_op_key / check_key_op vanished")
    cfg = cfg_of(gok)
    chk_nodes = [cfg.node_of(s.node) for s in eng.cg.calls_in(gok) if cko in s.callees and isinstance(s.node, ast.Call)
                 and s.node.args and norm(s.node.args[0]) == gok.pos_params[1]]
    chk_nodes = [c for c in chk_nodes if c is not None]
    for r in cfg.returns():
        ok = bool(chk_nodes) and cfg.must_pass(cfg.entry, r, chk_nodes)
        ctx.check(ok, "R06.2", gok, r.ast, f"{gok.short} :: {norm(r.ast)}", "get_op_key can hand out key material without check_key_op(operation)",
                  "check_key_op(operation) dominates")
    sn = gok.self_name

    def atom_g(e):
        t = norm(e)
        if t == "reg.private" or t.endswith(".private"):
            return ("reg_private", True)
        if isinstance(e, ast.Compare) and norm(e.left) == f"{sn}.private_key" and is_const(e.comparators[0], None):
            return ("has_private", isinstance(e.ops[0], ast.IsNot))
        return None
    tab = truth_table(gok, ["reg_private"], atom_g)
    for (rp,), outs in tab.items():
        for o in outs:
            if o.kind != "return":
                continue
            rv = norm(o.node.ast.value) if o.node is not None and o.node.ast.value is not None else ""
            want = f"{sn}.private_key" if rp else f"{sn}.public_key"
            ctx.check(rv == want, "R06.2", gok, o.node.ast if o.node else None, f"{gok.short} :: private={rp}",
                      f"get_op_key returns {rv} for an operation whose registry entry has private={rp}", f"returns {want}",
                      construct=f"get_op_key result for private={rp}")
    # check_key_op truth table
    csn = cko.self_name
    op = cko.pos_params[1]

    KO = (f"{csn}.get('key_ops')", f"{csn}.dict_value.get('key_ops')")
    REG = f"{csn}.operation_registry[{op}]"

    def RC(e) -> str:
        r = resolve_all(eng, cko, e)
        return r[0] if len(r) == 1 else norm(e)

    def atom_c(e):
        if isinstance(e, ast.Compare) and len(e.ops) == 1:
            l, r = RC(e.left), RC(e.comparators[0])
            if l in KO and is_const(e.comparators[0], None):
                return ("has_key_ops", isinstance(e.ops[0], ast.IsNot))
            if l == op and r in KO and isinstance(e.ops[0], (ast.In, ast.NotIn)):
                return ("op_listed", isinstance(e.ops[0], ast.In))
            if l == op and r.endswith("operation_registry") and isinstance(e.ops[0], (ast.In, ast.NotIn)):
                return ("op_known", isinstance(e.ops[0], ast.In))
        t = RC(e)
        if t in KO:
            return ("has_key_ops", True)
        if t == f"{REG}.private":
            return ("reg_private", True)
        if t == f"{csn}.is_private":
            return ("is_private", True)
        return None
    atoms = ["has_key_ops", "op_listed", "reg_private", "is_private", "op_known"]
    tab2 = truth_table(cko, atoms, atom_c)
    # (key_ops is the key's declared key_ops and reg the registry entry of the operation: part of the atoms above)
    seen_atoms = set()
    for t_ in cfg_of(cko).nodes:
        if t_.kind == "test":
            a_ = atom_c(t_.ast)
            if a_:
                seen_atoms.add(a_[0])
    ctx.check({"has_key_ops", "op_listed"} <= seen_atoms, "R06.2", cko, cko.node, f"{cko.short} :: key_ops source", "check_key_op does not test the operation against the key's declared key_ops",
              "key_ops = self.get('key_ops'); operation in key_ops", construct="key_ops source")
    ctx.check({"reg_private", "is_private"} <= seen_atoms, "R06.2", cko, cko.node, f"{cko.short} :: registry entry", "check_key_op does not consult the operation's registry entry",
              "reg = self.operation_registry[operation]; reg.private", construct="operation registry lookup")
    for vals, outs in tab2.items():
        hk, ol, rp, ip, known = vals
        if not known:
            continue
        want_raise = (hk and not ol) or (rp and not ip)
        inst = f"{cko.short} :: key_ops={hk} listed={ol} needs-private={rp} is-private={ip}"
        good = True
        for o in outs:
            if o.unknown:
                ctx.fail("R06.2", cko, o.node.ast if o.node else None, f"check_key_op branches on an unknown condition {o.unknown}",
                         construct="unknown condition in check_key_op")
                good = False
            if want_raise and o.kind != "raise":
                ctx.fail("R06.2", cko, cko.node, f"check_key_op accepts although it must refuse ({inst.split(' :: ')[1]})",
                         construct="accepts: " + inst.split(" :: ")[1])
                good = False
            if (not want_raise) and o.kind == "raise":
                ctx.fail("R06.2", cko, o.node.ast if o.node else None, f"check_key_op refuses a permitted operation ({inst.split(' :: ')[1]})",
                         construct="refuses: " + inst.split(" :: ")[1])
                good = False
        if good and outs:
            ctx.ok("R06.2", inst, "raise" if want_raise else "accept")
    # folded operation registry
    reg = F.module_value(P.mod("registry"), "JWK_OPERATION_REGISTRY")
    if not isinstance(reg, dict):
        raise AnalysisError("JWK_OPERATION_REGISTRY did not fold")
    got = {}
    for k, v in reg.items():
        got[k] = (F.get_attr(v, "use"), F.get_attr(v, "private"))
    ctx.check(got == T.KEY_OPS, "R06.2", None, None, "JWK_OPERATION_REGISTRY", f"operation registry differs from RFC 7517 4.3 table: {got}",
              "private flags {sign, decrypt, unwrapKey}: True; {verify, encrypt, wrapKey, deriveKey}: False", construct="JWK_OPERATION_REGISTRY")
    bk = F.class_attr(keybase, "operation_registry")
    ctx.check(bk is reg or bk == reg, "R06.2", None, None, "BaseKey.operation_registry", "BaseKey.operation_registry is not JWK_OPERATION_REGISTRY",
              "is JWK_OPERATION_REGISTRY", construct="BaseKey.operation_registry")


# ----------------------------------------------------------------------------------------------- R06.3
def r06_3(ctx) -> None:
    eng = ctx.eng
    P = eng.prog
    F = eng.folder
    EC = P.cls("rfc7518.jws_algs:ECAlgModel")
    ck = EC.lookup("_check_key")
    n = 0
    for meth in ("sign", "verify"):
        fn = EC.methods.get(meth)
        if fn is None:
            raise AnalysisError(f"ECAlgModel.{meth} vanished")
        cfg = cfg_of(fn)
        keyp = fn.pos_params[-1]
        gates = []
        for s in eng.cg.calls_in(fn):
            if isinstance(s.node, ast.Call) and s.callees and _is_curve_gate(eng, s.callees) and s.node.args and norm(s.node.args[0]) == keyp:
                g = cfg.node_of(s.node)
                if g is not None:
                    gates.append(g)
        # inline form: if key.curve_name != self.curve: raise
        for t in cfg.nodes:
            if t.kind == "test" and _curve_test(t.ast, keyp, fn.self_name) and not can_reach_exit(cfg, succ_by_label(cfg, t, _curve_test(t.ast, keyp, fn.self_name))):
                gates.append(t)
        for s in eng.cg.calls_in(fn):
            if isinstance(s.node, ast.Call) and s.attr == "get_op_key":
                n += 1
                cn = cfg.node_of(s.node)
                ok = bool(gates) and cn is not None and cfg.must_pass(cfg.entry, cn, gates)
                ctx.check(ok, "R06.3", fn, s.node, f"{fn.short} :: curve gate before {norm(s.node)}", f"ECAlgModel.{meth} uses the key without "
                          "checking that it is on the algorithm's curve", "self._check_key(key) dominates get_op_key", construct=f"curve gate in ECAlgModel.{meth}")
    if ck is not None:
        cfg = cfg_of(ck)
        keyp = ck.pos_params[1]
        found = False
        for t in cfg.nodes:
            if t.kind == "test":
                lab = _curve_test(t.ast, keyp, ck.self_name)
                if lab and not can_reach_exit(cfg, succ_by_label(cfg, t, lab)) and cfg.dominates(t, cfg.exit):
                    found = True
        n += 1
        ctx.check(found, "R06.3", ck, ck.node, f"{ck.short}", "_check_key does not raise for every key whose curve differs from the algorithm's",
                  "raises iff key.curve_name != self.curve", construct="_check_key condition")
    # folded curves per algorithm
    algs = F.class_attr(P.cls("rfc7515.registry:JWSRegistry"), "algorithms")
    for name, spec in T.JWS_ALGS.items():
        if "curve" in spec[4]:
            inst = algs.get(name) if isinstance(algs, dict) else None
            cv = F.get_attr(inst, "curve") if inst is not None else None
            n += 1
            ctx.check(cv == spec[4]["curve"], "R06.3", None, None, f"{name} curve", f"{name} is bound to curve {cv!r}, RFC requires {spec[4]['curve']!r}",
                      f"curve = {cv}", construct=f"curve of {name}")
    # EdDSA: the native key must be an Ed25519 / Ed448 key
    ED = P.cls("rfc8037.jws_eddsa:EdDSAAlgModel")
    for meth in ("sign", "verify"):
        fn = ED.methods.get(meth)
        if fn is None:
            raise AnalysisError(f"EdDSAAlgModel.{meth} vanished")
        cfg = cfg_of(fn)
        prim = [s for s in eng.cg.calls_in(fn) if isinstance(s.node, ast.Call) and s.attr == meth and not s.callees]
        guards = []
        for t in cfg.nodes:
            if t.kind == "test" and isinstance(t.ast, ast.Call) and isinstance(t.ast.func, ast.Name) and t.ast.func.id == "isinstance" \
                    and len(t.ast.args) == 2:
                tys = t.ast.args[1].elts if isinstance(t.ast.args[1], ast.Tuple) else [t.ast.args[1]]
                names = [norm(x) for x in tys]
                if names and all(("Ed25519" in x or "Ed448" in x) and "X25519" not in x and "X448" not in x for x in names):
                    guards.append(t)
        for s in prim:
            n += 1
            cn = cfg.node_of(s.node)
            # the primitive is reachable only through the true edge of an isinstance test that names Ed25519 / Ed448 classes only
            ok = bool(guards) and cn is not None and cn not in cfg.reachable(cfg.entry, edge_filter=lambda a, b, lab, _g=guards: not (a in _g and lab == "true"))
            ctx.check(ok, "R06.3", fn, s.node, f"{fn.short} :: Ed key guard", f"EdDSA {meth} runs on a key that was not checked to be Ed25519/Ed448",
                      "isinstance(op_key, (Ed25519…, Ed448…)) guard dominates", construct=f"EdDSA {meth} key guard")
    ctx.count("R06.3", n, 9, "curve gate obligations")


def _is_curve_gate(eng, callees: List[FunctionInfo]) -> bool:
    for c in callees:
        cfg = cfg_of(c)
        if len(c.pos_params) < 2:
            return False
        ok = False
        for t in cfg.nodes:
            if t.kind == "test":
                lab = _curve_test(t.ast, c.pos_params[1], c.self_name)
                if lab and not can_reach_exit(cfg, succ_by_label(cfg, t, lab)):
                    ok = True
        if not ok:
            return False
    return bool(callees)


def _curve_test(e: Optional[ast.AST], keyp: str, selfn: Optional[str]) -> Optional[str]:
    """returns the label of the *mismatch* edge if e compares key.curve_name with self.curve"""
    if isinstance(e, ast.Compare) and len(e.ops) == 1 and isinstance(e.ops[0], (ast.Eq, ast.NotEq)):
        a, b = norm(e.left), norm(e.comparators[0])
        if {a, b} == {f"{keyp}.curve_name", f"{selfn}.curve"}:
            return "true" if isinstance(e.ops[0], ast.NotEq) else "false"
    return None


# ----------------------------------------------------------------------------------------------- R06.4
def r06_4(ctx) -> None:
    eng = ctx.eng
    P = eng.prog
    F = eng.folder
    kw = P.cls("rfc7516.models:JWEKeyWrapping")
    chk = eng.prog.implementations(kw, "check_op_key", include_abstract=True)
    n = 0
    for C in chk:
        cfg = cfg_of(C)
        p = C.pos_params[1]
        ok = False
        for t in cfg.nodes:
            if t.kind == "test" and isinstance(t.ast, ast.Compare) and len(t.ast.ops) == 1:
                txt = {norm(t.ast.left), norm(t.ast.comparators[0])}
                if txt == {f"len({p}) * 8", f"{C.self_name}.key_size"} and isinstance(t.ast.ops[0], (ast.NotEq, ast.Eq)):
                    lab = "true" if isinstance(t.ast.ops[0], ast.NotEq) else "false"
                    if not can_reach_exit(cfg, succ_by_label(cfg, t, lab)) and cfg.dominates(t, cfg.exit):
                        ok = True
        n += 1
        ctx.check(ok, "R06.4", C, C.node, C.short, "check_op_key does not refuse every key whose size differs from the algorithm's key_size",
                  "raises iff len(op_key)*8 != self.key_size", construct="check_op_key condition")
    # the size gate precedes the cipher call
    sites = [("rfc7518.jwe_algs:AESAlgModel", "wrap_cek", ("aes_key_wrap",)), ("rfc7518.jwe_algs:AESAlgModel", "unwrap_cek", ("aes_key_unwrap",)),
             ("rfc7518.jwe_algs:AESGCMAlgModel", "encrypt_cek", ("AES", "Cipher")), ("rfc7518.jwe_algs:AESGCMAlgModel", "decrypt_cek", ("AES", "Cipher"))]
    for cname, meth, prims in sites:
        fn = P.cls(cname).methods.get(meth)
        if fn is None:
            raise AnalysisError(f"{cname}.{meth} vanished")
        cfg = cfg_of(fn)
        gates = [cfg.node_of(s.node) for s in eng.cg.calls_in(fn) if isinstance(s.node, ast.Call) and s.callees and all(c in chk for c in s.callees)]
        gates = [g for g in gates if g is not None]
        pcs = [s for s in eng.cg.calls_in(fn) if isinstance(s.node, ast.Call) and not s.callees and any(x.split(".")[-1] in prims for x in s.ext)]
        if not pcs:
            raise AnalysisError(f"R06.4: no cipher primitive call found in {cname}.{meth}")
        for s in pcs:
            n += 1
            cn = cfg.node_of(s.node)
            # the key given to the primitive must be the checked one
            gargs = set()
            for g in gates:
                for c2 in eng.cg.calls_in(fn):
                    if cfg.node_of(c2.node) is g and isinstance(c2.node, ast.Call) and c2.node.args:
                        gargs.add(norm(c2.node.args[0]))
            used = {nm for a in (list(s.node.args) + [k.value for k in s.node.keywords]) for nm in names_in(a)}
            ok = cn is not None and bool(gates) and cfg.must_pass(cfg.entry, cn, gates) and (not gargs or bool(gargs & used) or s.ext[0].endswith("Cipher"))
            ctx.check(ok, "R06.4", fn, s.node, f"{fn.short} :: size gate before {norm(s.node)[:40]}", f"{cname.split(':')[1]}.{meth} feeds a key of unchecked size to the cipher",
                      "check_op_key(key) dominates the primitive", construct=f"size gate before {s.ext[0].split('.')[-1]} in {meth}")
    # dir: exact CEK size;   RSA: >= 2048 to encrypt
    d = P.cls("rfc7518.jwe_algs:DirectAlgModel").methods.get("compute_cek")
    if d is None:
        raise AnalysisError("DirectAlgModel.compute_cek vanished")
    cfg = cfg_of(d)
    sizep = d.pos_params[1]
    ok = False
    for t in cfg.nodes:
        if t.kind == "test" and isinstance(t.ast, ast.Compare) and len(t.ast.ops) == 1 and isinstance(t.ast.ops[0], (ast.NotEq, ast.Eq)):
            txt = [norm(t.ast.left), norm(t.ast.comparators[0])]
            if sizep in txt and any(x.startswith("len(") and x.endswith(") * 8") for x in txt):
                lab = "true" if isinstance(t.ast.ops[0], ast.NotEq) else "false"
                var = [x for x in txt if x != sizep][0][4:-5]
                rets_ok = all(norm(r.ast.value) == var for r in cfg.returns()) and \
                    all(resolve_all(eng, d, r.ast.value) == ["recipient.recipient_key.raw_value"] for r in cfg.returns())
                if not can_reach_exit(cfg, succ_by_label(cfg, t, lab)) and all(cfg.dominates(t, r) for r in cfg.returns()) and rets_ok:
                    ok = True
    n += 1
    ctx.check(ok, "R06.4", d, d.node, d.short, "dir does not require the key to have exactly the size of the content-encryption key",
              "raises iff len(cek)*8 != size, returns the checked value", construct="dir size condition")
    rsa = P.cls("rfc7518.jwe_algs:RSAAlgModel")
    e = rsa.methods.get("encrypt_cek")
    if e is None:
        raise AnalysisError("RSAAlgModel.encrypt_cek vanished")
    cfg = cfg_of(e)
    ok = False
    for t in cfg.nodes:
        if t.kind == "test" and isinstance(t.ast, ast.Compare) and len(t.ast.ops) == 1:
            bad_lab = None
            al = as_less(t.ast)
            if al is not None:
                lo, opx, hi = norm(al[0]), al[1], norm(al[2])
                mine = f"{e.self_name}.key_size"
                # too short:  key.key_size < self.key_size  (true -> refuse);   long enough:  self.key_size <= key.key_size  (false -> refuse)
                if opx == "<" and lo.endswith(".key_size") and lo != mine and hi == mine:
                    bad_lab = "true"
                elif opx == "<=" and lo == mine and hi.endswith(".key_size") and hi != mine:
                    bad_lab = "false"
            if bad_lab and not can_reach_exit(cfg, succ_by_label(cfg, t, bad_lab)):
                enc_calls = [cfg.node_of(s.node) for s in eng.cg.calls_in(e) if isinstance(s.node, ast.Call) and s.attr == "encrypt" and not s.callees]
                if enc_calls and all(c is not None and cfg.dominates(t, c) for c in enc_calls):
                    ok = True
    n += 1
    ctx.check(ok, "R06.4", e, e.node, e.short, "RSA key encryption does not refuse keys shorter than the model's key_size before encrypting",
              "raise iff op_key.key_size < self.key_size dominates encrypt", construct="RSA minimum size gate")
    ks = F.class_attr(rsa, "key_size")
    n += 1
    ctx.check(isinstance(ks, int) and ks >= 2048, "R06.4", None, None, "RSAAlgModel.key_size", f"RSA minimum key size folds to {ks!r} (< 2048)",
              f"folds to {ks}", construct="RSAAlgModel.key_size")
    # folded key sizes of the wrapping algorithms
    algs = F.class_attr(P.cls("rfc7516.registry:JWERegistry"), "algorithms")
    for name, (ktypes, size, _rec) in T.JWE_ALGS.items():
        inst = algs["alg"].get(name) if isinstance(algs, dict) else None
        if inst is None:
            continue
        got = F.get_attr(inst, "key_size")
        n += 1
        ctx.check(got == size, "R06.4", None, None, f"{name} key_size", f"{name}: key_size folds to {got!r}, expected {size!r}", f"key_size = {got}",
                  construct=f"key_size of {name}")
    ctx.count("R06.4", n, 20, "size gate obligations")


# ----------------------------------------------------------------------------------------------- R06.5
def r06_5(ctx) -> None:
    eng = ctx.eng
    P = eng.prog
    F = eng.folder
    ob = P.cls("rfc7518.oct_key:OctBinding")
    fn = ob.methods.get("import_from_bytes")
    if fn is None:
        raise AnalysisError("OctBinding.import_from_bytes vanished")
    cfg = cfg_of(fn)
    vp = fn.pos_params[1]
    warn = [s for s in eng.cg.calls_in(fn) if isinstance(s.node, ast.Call) and any(x == "warnings.warn" for x in s.ext)]
    ok = False
    prefixes = None
    for t in cfg.nodes:
        if t.kind == "test" and isinstance(t.ast, ast.Call) and isinstance(t.ast.func, ast.Attribute) and t.ast.func.attr == "startswith" \
                and norm(t.ast.func.value) == vp and t.ast.args:
            v = F.expr(t.ast.args[0], {}, fn.module)
            if isinstance(v, (tuple, list)):
                prefixes = list(v)
                for w in warn:
                    wn = cfg.node_of(w.node)
                    if wn is not None and wn in cfg.reachable(succ_by_label(cfg, t, "true")[0]) and \
                            wn not in cfg.reachable(cfg.entry, edge_filter=lambda a, b, lab, _t=t: not (a is _t and lab == "true")):
                        # every true-path passes the warning
                        # ... and the prefix test itself is evaluated for every value (no pre-filter in front of it)
                        if all(cfg.must_pass(s, cfg.exit, [wn]) for s in succ_by_label(cfg, t, "true")) and cfg.must_pass(cfg.entry, cfg.exit, [t]):
                            ok = True
    ctx.check(ok, "R06.5", fn, fn.node, fn.short, "importing PEM/SSH-looking text as an oct key does not always raise the warning",
              "warnings.warn on every path where value.startswith(<unsafe prefixes>)", construct="unsafe secret warning")
    missing = [p for p in T.UNSAFE_PREFIXES if prefixes is None or p not in prefixes]
    ctx.check(not missing, "R06.5", fn, fn.node, "unsafe prefixes", f"unsafe-secret prefixes missing: {missing}", f"{len(T.UNSAFE_PREFIXES)} prefixes present",
              construct="unsafe secret prefixes")
    # OctKey.import_key(bytes/str) reaches it: BaseKey.import_key's non-dict branch calls binding.import_from_bytes
    ik = P.cls("rfc7517.models:BaseKey").lookup("import_key")
    reach = eng.cg.reachable([ik]) if ik is not None else []
    ctx.check(fn in reach, "R06.5", ik, None, "import_key -> import_from_bytes", "BaseKey.import_key no longer reaches OctBinding.import_from_bytes",
              "reachable", construct="import path to import_from_bytes")


def r06_8(ctx) -> None:
    """R06.8  "declared key_ops must include the operation": check_key_op decides with `operation not in key_ops`, which is list membership only if
    key_ops IS a list - for a string it is a substring search ("wrapKey" in "unwrapKey").  So the validator registered for the JWK member "key_ops"
    must refuse everything that is not a list of registered operation names.  Decided by folding the registered validator on probe values."""
    from ..fold import FoldRaise, is_unknown
    eng = ctx.eng
    P, F = eng.prog, eng.folder
    reg = F.module_value(P.mod("registry"), "JWK_PARAMETER_REGISTRY")
    if not isinstance(reg, dict) or "key_ops" not in reg:
        raise AnalysisError("JWK_PARAMETER_REGISTRY['key_ops'] did not fold")
    v = F.get_attr(reg["key_ops"], "validate")
    ops = sorted(T.KEY_OPERATIONS) if hasattr(T, "KEY_OPERATIONS") else ["sign", "verify", "encrypt", "decrypt", "wrapKey", "unwrapKey", "deriveKey", "deriveBits"]
    probes = [([], True), (["sign"], True), (list(ops), True), (["sign", "zz"], False), (["Sign"], False), ("sign", False), ("unwrapKey", False), ("", False),
              (("sign",), False), ({"sign": 1}, False), (None, False), (1, False), ([["sign"]], False)]
    bad = []
    for val, accept in probes:
        try:
            r = F.call(v, [val], {})
            if is_unknown(r):
                raise AnalysisError("the key_ops validator did not fold")
            got = True
        except FoldRaise as ex:
            got = getattr(ex, "name", "")
        if accept and got is not True:
            bad.append(f"refuses {val!r}")
        elif not accept and got is True:
            bad.append(f"accepts {val!r}")
        elif not accept and got != "ValueError":
            bad.append(f"refuses {val!r} with {got}, not ValueError")
    fn = getattr(v, "fn", None)
    ctx.check(not bad, "R06.8", fn, fn.node if fn is not None else None, "validator of the JWK member key_ops",
              "the key_ops validator " + "; ".join(bad[:3]) + ": check_key_op's `operation not in key_ops` is a substring search on a string (a key declared \"unwrapKey\" may wrapKey)",
              "a list of registered operation names, nothing else", construct="key_ops validator")
    # ... and the gate itself is a membership test of the operation in that member
    ck = P.cls("rfc7517.models:BaseKey").methods.get("check_key_op")
    if ck is None:
        raise AnalysisError("BaseKey.check_key_op vanished")


def r06_9(ctx) -> None:
    """R06.9  "the key's declared use must match": check_use refuses exactly when a use is declared and differs from what the operation needs - no other
    member of the key (key_ops, alg, kid) switches the check off.  Folded on probe JWK views."""
    from .common import basekey_accessor_verdicts
    eng = ctx.eng
    v = basekey_accessor_verdicts(eng)
    fn = eng.prog.cls("rfc7517.models:BaseKey").methods.get("check_use")
    if v is None:
        ctx.ok("R06.9", "check_use (fold inconclusive)", "decided by R06.1 (use gate shape)", nontrivial=False)
        return
    bad = [t for c_, t in v if c_ in ("use", "alg")]
    ctx.check(not bad, "R06.9", fn, fn.node if fn else None, "check_use / check_alg (folded on probe keys)", "; ".join(bad[:2]), "refuses iff declared and different", construct="check_use decision")


def audit_key_type(ctx) -> None:
    eng = ctx.eng
    P = eng.prog
    ck = impls(eng, "rfc7515.model:JWSAlgModel", "check_key_type", include_abstract=True) + \
        impls(eng, "rfc7516.models:KeyManagement", "check_key_type", include_abstract=True)
    sites = []
    for fn in P.all_functions():
        for s in eng.cg.calls_in(fn):
            if any(c in ck for c in s.callees):
                sites.append(f"{fn.short}:{getattr(s.node, 'lineno', 0)}")
    ctx.note(f"key-type gate (audit only, G4): {len(sites)} check_key_type call sites: {sorted(sites)}; every algorithm x key-class mismatch also "
             "fails inside the primitive, so the statement 'the call fails' holds without it; clean failure is decided under C16 E4")
    ctx.extra["check_key_type_sites"] = len(sites)


def run(ctx) -> None:
    from .common import forwarding_discipline
    ctx.guard(forwarding_discipline, "R06.7", ['key', 'public_key', 'private_key', 'find_key', 'operation', 'recipient'], 51)  # arguments are handed on under their own name (generic routing rule, rules/common.py)
    from .c14 import r14_10
    ctx.guard_as("R06.6", r14_10)  # raw key text given to an operation reaches the unsafe-text warning (OctKey.import_key), no direct construction
    ctx.guard(r06_1)
    ctx.guard(r06_2)
    ctx.guard(r06_3)
    ctx.guard(r06_4)
    ctx.guard(r06_5)
    ctx.guard(r06_8)
    ctx.guard(r06_9)
    from .c11 import r11_22 as _r11_22
    ctx.guard_as("R06.10", _r11_22)  # "the key's declared use / key_ops must permit the operation": the view check_use / check_key_op read is stored in the key only after it was completed with the caller's parameters and validated (seed C06-s: thumbprint() cached the bare value members, so `use` / `key_ops` given as parameters were never merged)
    ctx.guard(audit_key_type)
    ctx.assume("primitives of cryptography fail for keys of the wrong type (backs the audit-only key-type gate)")
