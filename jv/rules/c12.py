"""C12 - public-facing outputs never contain private key material.

R12.1 private-flag table of every value_registry = RFC table      R12.2 BaseKey.as_dict filter and private-on-public error
R12.3 export_public_key bodies are free of private accessors      R12.4 the epk header value is as_dict(private=False)
R12.5 KeySet.as_dict passes `private` through to every key        R12.6 who-may-call on key material (token modules, header sinks)
R12.7 PEM / DER export branches                                   R12.8 thumbprint members are required public members
"""
from __future__ import annotations
import ast
from typing import Dict, List, Optional, Set, Tuple

from ..program import AnalysisError, ClassInfo, FunctionInfo, fn_nodes, norm
from ..cfg import cfg_of
from ..fold import Inst, is_unknown
from ..spec import tables as T
from .common import inconclusive_on_error as _ioe
from .common import can_reach_exit, const_value, is_const, names_in, scope_of, succ_by_label

KEY_CLASSES = {"OctKey": "rfc7518.oct_key:OctKey", "RSAKey": "rfc7518.rsa_key:RSAKey", "ECKey": "rfc7518.ec_key:ECKey",
               "OKPKey": "rfc8037.okp_key:OKPKey"}
PRIVATE_ACCESSORS = {"private_numbers", "private_bytes", "private_value", "private_key", "raw_value", "_raw_value", "get_op_key",
                     "dict_value", "_dict_value", "as_pem", "as_der", "as_bytes", "original_value", "private_bytes_raw"}
DECLASSIFY = {"Cipher", "encryptor", "decryptor", "update", "finalize", "encrypt", "aes_key_wrap", "derive", "exchange", "sign", "digest",
              "thumbprint", "token_bytes", "urandom", "kid", "encrypt_and_digest"}
TOKEN_MODULES = ("jws", "jwe", "jwt", "rfc7515.", "rfc7516.", "rfc7797.")


def _registry_flags(eng, cname: str) -> Dict[str, Tuple[object, object]]:
    F = eng.folder
    c = eng.prog.cls(KEY_CLASSES[cname])
    v = F.class_attr(c, "value_registry")
    if not isinstance(v, dict):
        raise AnalysisError(f"{cname}.value_registry did not fold")
    return {k: (F.get_attr(p, "private"), F.get_attr(p, "required")) for k, p in v.items()}


def r12_1(ctx) -> None:
    eng = ctx.eng
    for cname, (kty, members) in T.KEY_VALUES.items():
        got = _registry_flags(eng, cname)
        want = {k: (p, r) for k, (p, r) in members.items()}
        diff = {k: (got.get(k), want.get(k)) for k in set(got) | set(want) if got.get(k) != want.get(k)}
        ctx.check(not diff, "R12.1", None, None, f"{cname}.value_registry", f"{cname}.value_registry private/required flags differ from RFC 7518/8037: {diff}",
                  "private members " + str(sorted(k for k, (p, _) in want.items() if p)), construct=f"{cname}.value_registry")
        kt = eng.folder.class_attr(eng.prog.cls(KEY_CLASSES[cname]), "key_type")
        ctx.check(kt == kty, "R12.1", None, None, f"{cname}.key_type", f"{cname}.key_type folds to {kt!r}", f"= {kty}", construct=f"{cname}.key_type")
    allpriv = set()
    for cname in T.KEY_VALUES:
        allpriv |= {k for k, (p, _) in _registry_flags(eng, cname).items() if p}
    ctx.check(allpriv == T.PRIVATE_MEMBERS, "R12.1", None, None, "private member names", f"set of private members {sorted(allpriv)} != {sorted(T.PRIVATE_MEMBERS)}",
              "= {d,p,q,dp,dq,qi,oth,k}", construct="private member set")


@_ioe
def _as_dict_folded(ctx, fn) -> Optional[List[str]]:
    """Fold BaseKey.as_dict on probe keys (an oct key, a private and a public RSA key; private None / True / False; with and without extra params,
    one of which carries the name of a private member): the result is a new dict holding the key's members - without those the class's
    value_registry flags private when `private is False` - overlaid with the params; the key's own dict view is neither returned nor changed; a
    public key asked for its private form refuses with ValueError.  None when it does not fold or a test was decided one way only."""
    from ..fold import Inst, FuncVal, FoldRaise, is_unknown
    eng = ctx.eng
    P, F = eng.prog, eng.folder
    probes = [("rfc7518.oct_key:OctKey", {"kty": "oct", "k": "S", "kid": "1"}, True),
              ("rfc7518.rsa_key:RSAKey", {"kty": "RSA", "n": "N", "e": "E", "d": "D", "p": "P", "q": "Q", "dp": "1", "dq": "2", "qi": "3", "kid": "2"}, True),
              ("rfc7518.rsa_key:RSAKey", {"kty": "RSA", "n": "N", "e": "E", "alg": "RS256"}, False),
              ("rfc7518.rsa_key:RSAKey", {"kty": "RSA", "n": "N", "e": "E", "d": "GIVEN-AS-PARAMETER"}, False),  # a public-only key whose JWK view still carries a private member
              ("rfc7518.ec_key:ECKey", {"kty": "EC", "crv": "P-256", "x": "X", "y": "Y", "d": "D"}, True)]
    problems: List[str] = []
    F.start_trace()
    try:
        for cname, dv, is_priv in probes:
            c = P.cls(cname)
            reg = F.class_attr(c, "value_registry")
            if not isinstance(reg, dict):
                return None
            flagged = {k for k, p_ in reg.items() if F.get_attr(p_, "private") is True}
            for priv in (None, True, False):
                for params in ({}, {"use": "sig"}, {"use": "sig", next(iter(flagged), "zz"): "PARAM"}):
                    inst = Inst(c, {"dict_value": dict(dv), "is_private": is_priv})
                    own = inst.attrs["dict_value"]
                    where = f"{c.name}({'private' if is_priv else 'public'}).as_dict(private={priv!r}, **{params!r})"
                    try:
                        r = F.call(FuncVal(c.lookup("as_dict"), None, inst), [priv], dict(params))
                    except FoldRaise as ex:
                        if not (priv is True and not is_priv and getattr(ex, "name", "") == "ValueError"):
                            problems.append(f"{where} raises {getattr(ex, 'name', '?')}")
                        continue
                    if is_unknown(r) or not isinstance(r, dict):
                        return None
                    if priv is True and not is_priv:
                        problems.append(f"{where}: a public key hands out a 'private' form")
                        continue
                    base = {k: v for k, v in dv.items() if not (priv is False and k in flagged)}
                    want = dict(base)
                    want.update(params)
                    if r != want:
                        problems.append(f"{where} folds to the members {sorted(r)}, expected {sorted(want)}" + (" (values differ)" if sorted(r) == sorted(want) else ""))
                    if r is own:
                        problems.append(f"{where} returns the key's own dict view")
                    if own != dv:
                        problems.append(f"{where} changes the key's own dict view")
    except AnalysisError:
        return None
    finally:
        sided = F.one_sided(ignore=(".__init__",))
    return None if sided else problems


def r12_2(ctx) -> None:
    eng = ctx.eng
    bk = eng.prog.cls("rfc7517.models:BaseKey")
    fn = bk.methods.get("as_dict")
    if fn is None:
        raise AnalysisError("BaseKey.as_dict vanished")
    # no key class overrides it
    over = [f for f in eng.prog.implementations(bk, "as_dict") if f is not fn]
    ctx.check(not over, "R12.2", over[0] if over else None, over[0].node if over else None, "as_dict overrides", "a key class overrides as_dict (the private filter is bypassed)",
              "single implementation", construct="as_dict override")
    folded = _as_dict_folded(ctx, fn)
    if folded is not None:
        ctx.check(not folded, "R12.2", fn, fn.node, f"{fn.short} (folded on probe keys)", "as_dict does not return a fresh copy of the key's dict view without the private members when private is False: "
                  + "; ".join(folded[:2]), "fresh dict; private=False removes the members flagged private; params added; a public key refuses private=True", construct="as_dict private filter")
        return
    cfg = cfg_of(fn)
    sn = fn.self_name
    pp = "private"
    # (a) private export of a public-only key is an error
    t_priv = [t for t in cfg.nodes if t.kind == "test" and norm(t.ast) == pp]
    t_isp = [t for t in cfg.nodes if t.kind == "test" and norm(t.ast) == f"{sn}.is_private"]
    oka = False
    for tp in t_priv:
        for ti in t_isp:
            # private true, then is_private false -> raise
            if ti in [s for s in succ_by_label(cfg, tp, "true")] and not can_reach_exit(cfg, succ_by_label(cfg, ti, "false")):
                if all(cfg.dominates(tp, r) for r in cfg.returns()):
                    oka = True
    ctx.check(oka, "R12.2", fn, fn.node, "as_dict :: private export of a public key", "as_dict(private=True) on a public-only key does not raise before any return",
              "raise ValueError iff private and not self.is_private, dominating every return", construct="private-on-public guard")
    # (b) the returned dict is a copy
    rets = cfg.returns()
    rv = {norm(r.ast.value) for r in rets if r.ast.value is not None}
    okb = len(rv) == 1
    var = next(iter(rv)) if okb else None
    if okb:
        defs = [d for d in eng.flow._defs(fn).get(var, []) if d[0] == "assign"]
        from .c05 import _resolve_local
        okb = len(defs) == 1 and _resolve_local(eng, fn, defs[0][1]) in (f"{sn}.dict_value.copy()", f"dict({sn}.dict_value)", f"{{**{sn}.dict_value}}")
        if okb and isinstance(defs[0][1], ast.Name):
            # returned through an alias of the copy: the aliased local must not be stored anywhere else
            al = defs[0][1].id
            okb = not any(isinstance(n, ast.Assign) and any(not isinstance(t, ast.Name) for t in n.targets) and any(isinstance(x, ast.Name) and x.id == al for x in ast.walk(n.value))
                          for n in ast.walk(fn.node))
    ctx.check(okb, "R12.2", fn, fn.node, "as_dict :: returns a copy", "as_dict does not return a fresh copy of the key's dict view (callers could alter the key, the filter could alter it)",
              "data = self.dict_value.copy()", construct="as_dict copy")
    # (c) on the private-is-False path every registry-private member is deleted
    t_false = [t for t in cfg.nodes if t.kind == "test" and isinstance(t.ast, ast.Compare) and norm(t.ast.left) == pp and is_const(t.ast.comparators[0], False)]
    okc = False
    why = "no `private is False` / `is not False` test"
    for t in t_false:
        lab = "true" if isinstance(t.ast.ops[0], ast.Is) else ("false" if isinstance(t.ast.ops[0], ast.IsNot) else None)
        if lab is None:
            continue
        starts = succ_by_label(cfg, t, lab)
        loops = [l for l in cfg.nodes if l.kind == "loop" and norm(l.ast.iter) in (f"{sn}.dict_value", f"list({var})", f"list({var}.keys())", f"{sn}.dict_value.keys()",
                                                                                       f"{sn}.value_registry", f"list({sn}.dict_value)")]
        for l in loops:
            kv = norm(l.ast.target)
            dels = [x for x in cfg.nodes if x.kind == "stmt" and isinstance(x.ast, ast.Delete) and norm(x.ast.targets[0]) == f"{var}[{kv}]"]
            pops = [x for x in cfg.nodes if x.kind == "stmt" and isinstance(x.ast, ast.Expr) and norm(x.ast.value).startswith(f"{var}.pop({kv}")]
            dels = dels + pops
            privt = [x for x in cfg.nodes if x.kind == "test" and norm(x.ast) == f"{sn}.value_registry[{kv}].private"]
            if not dels or not privt:
                why = "loop without a `value_registry[k].private` guarded deletion"
                continue
            # every return reachable from the False branch passes the loop; the private test's true edge leads to the deletion
            if not all(cfg.must_pass(s0, r, [l]) for s0 in starts for r in rets if r in cfg.reachable(s0)):
                why = "a return on the public path bypasses the filter loop"
                continue
            if not all(any(d in cfg.reachable(s1, [l]) for d in dels) and l not in cfg.reachable(s1, dels + [l]) for x in privt for s1 in succ_by_label(cfg, x, "true")):
                why = "a private member can survive an iteration"
                continue
            # the private test is reached for every key that is in the registry
            inreg = [x for x in cfg.nodes if x.kind == "test" and isinstance(x.ast, ast.Compare) and norm(x.ast.left) == kv
                     and norm(x.ast.comparators[0]) == f"{sn}.value_registry" and isinstance(x.ast.ops[0], ast.In)]
            if norm(l.ast.iter) != f"{sn}.value_registry" and not inreg:
                why = "membership in value_registry not tested"
                continue
            okc = True
    ctx.check(okc, "R12.2", fn, fn.node, "as_dict :: public filter", f"as_dict(private=False) does not remove every member flagged private in the key's value_registry ({why})",
              "for k in dict_value: if k in value_registry and value_registry[k].private: del data[k]", construct="public filter of as_dict")
    # params merged after filtering must not re-introduce private members: they are caller supplied; not a library leak


def r12_3(ctx) -> None:
    eng = ctx.eng
    P = eng.prog
    base = P.cls("rfc7517.pem:CryptographyBinding")
    fs = eng.prog.implementations(base, "export_public_key")
    ctx.count("R12.3", len(fs), 3, "export_public_key implementations")
    for fn in fs:
        bad = []
        for node in fn_nodes(fn):
            if isinstance(node, ast.Attribute) and node.attr in ("private_numbers", "private_bytes", "private_value", "private_key", "d", "p", "q", "dmp1", "dmq1", "iqmp"):
                bad.append(norm(node))
        kname = fn.cls.name.replace("Binding", "Key") if fn.cls else ""
        priv = {k for k, (p, _) in T.KEY_VALUES.get(kname, ("", {}))[1].items() if p}
        keys = set()
        for node in fn_nodes(fn):
            if isinstance(node, ast.Dict):
                keys |= {const_value(k) for k in node.keys if k is not None}
            if isinstance(node, ast.Subscript) and isinstance(node.ctx, ast.Store):
                keys.add(const_value(node.slice))
        ctx.check(not bad and not (keys & priv), "R12.3", fn, fn.node, fn.short, f"export_public_key touches private material: accessors {bad}, members {sorted(keys & priv)}",
                  f"members {sorted(k for k in keys if k)}; no private accessor", construct="export_public_key body")
    # OctBinding has no public form: convert_raw_key_to_dict ignores `private` (an oct key is its secret) - the filter in as_dict removes k


def r12_4(ctx) -> None:
    eng = ctx.eng
    n = 0
    for fn in eng.prog.all_functions():
        for s in eng.cg.calls_in(fn):
            if isinstance(s.node, ast.Call) and s.attr == "add_header" and s.node.args and const_value(s.node.args[0]) == "epk" and len(s.node.args) > 1:
                n += 1
                v = s.node.args[1]
                ok = isinstance(v, ast.Call) and isinstance(v.func, ast.Attribute) and v.func.attr == "as_dict" and \
                    any(k.arg == "private" and is_const(k.value, False) for k in v.keywords) or \
                    (isinstance(v, ast.Call) and isinstance(v.func, ast.Attribute) and v.func.attr == "as_dict" and v.args and is_const(v.args[0], False))
                ctx.check(bool(ok), "R12.4", fn, s.node, f"{fn.short} :: epk", "the ephemeral key placed in the header is not exported with the literal private=False",
                          "as_dict(private=False)", construct="epk header value")
        for node in fn_nodes(fn):
            if isinstance(node, ast.Subscript) and isinstance(node.ctx, ast.Store) and const_value(node.slice) == "epk":
                n += 1
                ctx.fail("R12.4", fn, node, "epk is written to a header outside the add_header sink")
    ctx.count("R12.4", n, 1, "epk sinks")


def r12_5(ctx) -> None:
    eng = ctx.eng
    ks = eng.prog.cls("_keys:KeySet")
    fn = ks.methods.get("as_dict")
    if fn is None:
        raise AnalysisError("KeySet.as_dict vanished")
    calls = [s for s in eng.cg.calls_in(fn) if isinstance(s.node, ast.Call) and s.attr == "as_dict"]
    ctx.count("R12.5", len(calls), 1, "as_dict calls in KeySet.as_dict")
    for s in calls:
        ok = any(k.arg == "private" and norm(k.value) == "private" for k in s.node.keywords) or (s.node.args and norm(s.node.args[0]) == "private")
        if not ok:
            ctx.fail("R12.5", fn, s.node, "KeySet.as_dict does not pass its `private` argument to this key's as_dict: as_dict(private=False) on a set "
                     "still exports the member (for oct keys: the secret `k`)", construct="key.as_dict without private [" + norm(s.node)[:40] + "]")
        else:
            ctx.ok("R12.5", f"{fn.short} :: {norm(s.node)[:50]}", "private flag passed through")
    # every key of the set is exported
    cfg = cfg_of(fn)
    loops = [l for l in cfg.nodes if l.kind == "loop" and norm(l.ast.iter) in (f"{fn.self_name}.keys", f"{fn.self_name}")]
    ctx.check(len(loops) == 1, "R12.5", fn, fn.node, f"{fn.short} :: iterates self.keys", "KeySet.as_dict does not iterate all keys", "for key in self.keys", construct="KeySet.as_dict loop")


def _closure_names(eng, fn: FunctionInfo, e: ast.AST) -> Tuple[Set[str], List[ast.Call]]:
    """attribute / call names in the transitive local-definition closure of e, stopping at declassifying calls"""
    attrs: Set[str] = set()
    calls: List[ast.Call] = []
    seen: Set[str] = set()
    stack = [e]
    while stack:
        x = stack.pop()
        # do not look inside declassifying calls
        def walk(n):
            if isinstance(n, ast.Call):
                nm = n.func.attr if isinstance(n.func, ast.Attribute) else (n.func.id if isinstance(n.func, ast.Name) else "")
                calls.append(n)
                if nm in DECLASSIFY:
                    return
            if isinstance(n, ast.Attribute):
                attrs.add(n.attr)
                if n.attr in DECLASSIFY:
                    return
            if isinstance(n, ast.Name) and n.id not in seen and n.id not in fn.params:
                seen.add(n.id)
                for kind, dn, extra in eng.flow._defs(fn).get(n.id, []):
                    if kind == "assign" and isinstance(dn, ast.AST):
                        stack.append(dn)
            for c in ast.iter_child_nodes(n):
                walk(c)
        walk(x)
    return attrs, calls


def r12_6(ctx) -> None:
    eng = ctx.eng
    P = eng.prog
    kb = P.cls("rfc7517.models:BaseKey")
    keyfam = set([kb] + kb.all_subclasses()) | {P.cls("_keys:KeySet")}
    n = 0
    for m in P.modules.values():
        if not any(m.short == t or m.short.startswith(t) for t in TOKEN_MODULES):
            continue
        for fn in m.functions:
            if fn.cls is not None and fn.cls in keyfam:
                continue
            for node in fn_nodes(fn):
                if isinstance(node, ast.Attribute) and node.attr in ("raw_value", "private_key", "dict_value", "as_pem", "as_der", "as_bytes", "_raw_value", "_dict_value", "original_value"):
                    classes, ext, is_any, _ = eng.cg._recv_classes(fn, node.value)
                    if any(c in keyfam for c in classes) or (is_any and not ext and not classes):
                        n += 1
                        ctx.fail("R12.6", fn, node, f"token-producing code reads key material directly ({norm(node)})")
                if isinstance(node, ast.Call) and isinstance(node.func, ast.Attribute) and node.func.attr == "as_dict":
                    classes, ext, is_any, _ = eng.cg._recv_classes(fn, node.func.value)
                    if any(c in keyfam for c in classes) or (is_any and not ext and not classes):
                        n += 1
                        ok = any(k.arg == "private" and is_const(k.value, False) for k in node.keywords) or (node.args and is_const(node.args[0], False))
                        ctx.check(bool(ok), "R12.6", fn, node, f"{fn.short} :: {norm(node)[:50]}", "a key is exported inside token-producing code without the literal private=False",
                                  "as_dict(private=False)")
    # header sinks in the whole package
    sinks = 0
    for fn in P.all_functions():
        for s in eng.cg.calls_in(fn):
            if isinstance(s.node, ast.Call) and s.attr == "add_header" and len(s.node.args) >= 2:
                sinks += 1
                name = const_value(s.node.args[0])
                v = s.node.args[1]
                attrs, calls = _closure_names(eng, fn, v)
                bad = sorted(a for a in attrs if a in PRIVATE_ACCESSORS)
                for c in calls:
                    if isinstance(c.func, ast.Attribute) and c.func.attr == "as_dict":
                        if not (any(k.arg == "private" and is_const(k.value, False) for k in c.keywords) or (c.args and is_const(c.args[0], False))):
                            bad.append("as_dict() without private=False")
                ctx.check(not bad, "R12.6", fn, s.node, f"{fn.short} :: add_header({name!r}, …)", f"a header value derives from key material through {bad} "
                          "(not a cipher output, CSPRNG value, kid or public export)", "value derives from: " + ",".join(sorted(attrs & (DECLASSIFY | {'as_dict'}))) or "constants",
                          construct=f"add_header({name!r}) value")
    ctx.count("R12.6/sinks", sinks, 7, "add_header sinks")
    ctx.ok("R12.6", "token modules", f"{n} key-material accesses in token modules (0 expected)")


def r12_7(ctx) -> None:
    eng = ctx.eng
    P = eng.prog
    d = P.func("rfc7517.pem:dump_pem_key")
    from .common import dump_pem_verdicts
    folded = dump_pem_verdicts(eng)
    if folded is not None:
        bad = [t for c, t in folded if c == "branch"]
        ctx.check(not bad, "R12.7", d, d.node, "dump_pem_key (folded on a probe grid)", "the non-private branch of dump_pem_key is not restricted to public_bytes(SubjectPublicKeyInfo): " + "; ".join(bad[:2]),
                  "private_bytes only when `private` is truthy; else public_bytes(SubjectPublicKeyInfo)", construct="dump_pem_key branches")
        ab = P.cls("rfc7517.pem:CryptographyBinding").methods.get("as_bytes")
        if ab is None:
            raise AnalysisError("CryptographyBinding.as_bytes vanished")
        _as_bytes_paths(ctx, ab, d)
        return
    cfg = cfg_of(d)
    tests = [t for t in cfg.nodes if t.kind == "test" and norm(t.ast) == "private"]
    ok = False
    for t in tests:
        pub = [s for s in eng.cg.calls_in(d) if isinstance(s.node, ast.Call) and s.attr == "public_bytes"]
        prv = [s for s in eng.cg.calls_in(d) if isinstance(s.node, ast.Call) and s.attr in ("private_bytes", "private_bytes_raw")]
        if not pub:
            continue
        f_reach = set()
        for s0 in succ_by_label(cfg, t, "false"):
            f_reach |= cfg.reachable(s0)
        t_only = lambda s: cfg.node_of(s.node) not in cfg.reachable(cfg.entry, edge_filter=lambda a, b, lab, _t=t: not (a is _t and lab == "true"))
        if all(t_only(s) for s in prv) and all(cfg.node_of(s.node) in f_reach for s in pub):
            fmt = [k.value for s in pub for k in s.node.keywords if k.arg == "format"]
            if fmt and all(norm(x).endswith("SubjectPublicKeyInfo") for x in fmt):
                ok = True
    ctx.check(ok, "R12.7", d, d.node, "dump_pem_key", "the non-private branch of dump_pem_key is not restricted to public_bytes(SubjectPublicKeyInfo)",
              "private_bytes only under `if private`; else public_bytes(SubjectPublicKeyInfo)", construct="dump_pem_key branches")
    ab = P.cls("rfc7517.pem:CryptographyBinding").methods.get("as_bytes")
    if ab is None:
        raise AnalysisError("CryptographyBinding.as_bytes vanished")
    _as_bytes_paths(ctx, ab, d)


def _private_atom(pname: str):
    """atoms over the tri-state `private` argument: T = `private is True`, F = `private is False` (bool | None: truthiness is T)"""
    def atom(e: ast.AST):
        if isinstance(e, ast.UnaryOp) and isinstance(e.op, ast.Not):
            r = atom(e.operand)
            return (r[0], not r[1]) if r else None
        if isinstance(e, ast.Name) and e.id == pname:
            return ("T", True)
        if isinstance(e, ast.Compare) and len(e.ops) == 1 and isinstance(e.left, ast.Name) and e.left.id == pname and isinstance(e.comparators[0], ast.Constant):
            cv = e.comparators[0].value
            pos = isinstance(e.ops[0], (ast.Is, ast.Eq))
            if not pos and not isinstance(e.ops[0], (ast.IsNot, ast.NotEq)):
                return None
            if cv is True:
                return ("T", pos)
            if cv is False:
                return ("F", pos)
            if cv is None:
                return ("N", pos)
        return None
    return atom


def _as_bytes_paths(ctx, ab, d) -> None:
    """R12.7 (second half), decided per path: whatever the shape of as_bytes, on every path the native key and the `private` flag handed
    to dump_pem_key agree with what the caller asked for:  private is True -> (key.private_key, truthy flag);  private is False ->
    (key.public_key, falsy flag);  otherwise (None) -> (key.raw_value, key.is_private)."""
    from ..decide import call_views
    eng = ctx.eng
    kp = ab.pos_params[0] if ab.pos_params and ab.pos_params[0] not in ("self", "cls") else (ab.pos_params[1] if len(ab.pos_params) > 1 else "key")
    if "private" not in ab.params:
        raise AnalysisError("as_bytes lost its `private` parameter")
    is_dump = lambda c: any(x is d for s in eng.cg.calls_in(ab) if s.node is c for x in s.callees)
    views, without = call_views(ab, _private_atom("private"), is_dump)
    ctx.check(without == 0, "R12.7", ab, ab.node, "as_bytes :: every path serialises through dump_pem_key", f"{without} path(s) of as_bytes return without calling dump_pem_key",
              "all paths call dump_pem_key", construct="as_bytes branches")
    dpos = {p: i for i, p in enumerate(d.pos_params)}
    n = 0
    for v in views:
        def arg(name):
            i = dpos.get(name)
            if i is not None and i < len(v.args):
                return v.args[i]
            return v.keywords.get(name)
        k, fl = arg(d.pos_params[0]), arg("private")
        kt = norm(k) if k is not None else "<omitted>"
        ft = norm(fl) if fl is not None else "<omitted>"
        lits = v.literals
        # the caller's request on this path: True / False / None (a path may cover several)
        cases = []
        for name, t_, f_, n_ in (("True", True, False, False), ("False", False, True, False), ("None", False, False, True)):
            if lits.get("T", t_) == t_ and lits.get("F", f_) == f_ and lits.get("N", n_) == n_:
                cases.append(name)
        if v.unknown:
            ctx.fail("R12.7", ab, v.call, f"as_bytes reaches dump_pem_key under a test this rule cannot decide ({v.unknown[0][:50]})", construct="as_bytes branches")
            continue
        for c in cases:
            n += 1
            if c == "True":
                ok = kt == f"{kp}.private_key" and ft in ("private", "True")
            elif c == "False":
                ok = kt == f"{kp}.public_key" and ft in ("private", "False")
            else:
                ok = kt == f"{kp}.raw_value" and ft == f"{kp}.is_private"
            ctx.check(ok, "R12.7", ab, v.call, f"CryptographyBinding.as_bytes :: private is {c}",
                      f"as_bytes does not map private=False to key.public_key and private=True to key.private_key: with private={c} it serialises `{kt[:40]}` with flag `{ft[:30]}`",
                      "True -> (private_key, True); False -> (public_key, False); None -> (raw_value, key.is_private)", construct="as_bytes branches")
    ctx.count("R12.7", n, 3, "as_bytes (path, request) pairs decided")


def r12_8(ctx) -> None:
    eng = ctx.eng
    for cname in T.KEY_VALUES:
        fl = _registry_flags(eng, cname)
        req = {k for k, (p, r) in fl.items() if r}
        leak = {k for k in req if fl[k][0]} - ({"k"} if cname == "OctKey" else set())
        ctx.check(not leak, "R12.8", None, None, f"{cname} thumbprint members", f"thumbprint of {cname} would hash-in private members {sorted(leak)}",
                  f"required members {sorted(req)} are public" + (" (oct k only as digest input)" if cname == "OctKey" else ""), construct=f"{cname} thumbprint members")
    # the thumbprint is a digest, never the members themselves
    th = eng.prog.func("rfc7638:thumbprint")
    calls = {x for s in eng.cg.calls_in(th) for x in s.ext}
    ctx.check(any(x.startswith("hashlib.") for x in calls), "R12.8", th, th.node, "thumbprint digests", "thumbprint does not pass the members through a hash", "hashlib digest",
              construct="thumbprint digest")


def r12_9(ctx) -> None:
    """the caller's `private` choice reaches the function that acts on it: wherever a function with a `private` parameter calls a
    function with a `private` parameter, it hands its own value on (a dropped argument silently selects the callee's default -
    for as_bytes that is "whatever the key holds", i.e. the private key)"""
    eng = ctx.eng
    n = 0
    for fn in eng.prog.all_functions():
        if "private" not in fn.params:
            continue
        for s in eng.cg.calls_in(fn):
            if not isinstance(s.node, ast.Call):
                continue
            for c in s.callees:
                if "private" not in c.params or c is fn:
                    continue
                n += 1
                if fn.short == "rfc7517.pem:CryptographyBinding.as_bytes" and c.short == "rfc7517.pem:dump_pem_key":
                    ctx.ok("R12.9", f"{fn.short} -> {c.short}", "decided per path by R12.7 (key and flag agree with the request on every path)")
                    continue
                a = eng.cg.arg_for_param(s, c, "private")
                ok = a is not None and norm(a) == "private"
                ctx.check(ok, "R12.9", fn, s.node, f"{fn.short} -> {c.short}", f"{fn.short} does not pass its `private` argument on to {c.short} "
                          f"({'argument omitted: the callee default applies' if a is None else 'passes ' + norm(a)}): a request for the public form can yield the private key",
                          "private=private", construct=f"private flag forwarding {fn.short} -> {c.short}")
    ctx.count("R12.9", n, 10, "call sites between functions that both take `private`")


def r12_11(ctx) -> None:
    """what a key exports is serialised from its native key / filtered JWK view: the text or dict it was imported from
    (`original_value`) is never read outside the constructor - an imported file may hold more than the key that was loaded from it"""
    eng = ctx.eng
    n = 0
    for fn in eng.prog.all_functions():
        for node in fn_nodes(fn):
            if isinstance(node, ast.Attribute) and node.attr == "original_value" and isinstance(node.ctx, ast.Load):
                n += 1
                ctx.fail("R12.11", fn, node, f"{fn.short} reads `original_value` (the imported text / dict): an export or accessor could echo material that was never filtered",
                         construct=f"original_value read in {fn.short}")
    ctx.ok("R12.11", "reads of original_value", f"{n} read(s) of the imported value outside BaseKey.__init__'s own parameter")


KEY_STATE_FIELDS = ("_raw_value", "original_value", "_dict_value")


def r12_13(ctx) -> None:
    """R12.13  what a key object holds is fixed when it is constructed: the native key, the imported value and the JWK view
    (`_raw_value`, `original_value`, `_dict_value`) are assigned in BaseKey.__init__ only.  A key "made public" by swapping its native key
    afterwards keeps whatever its JWK view already materialised (d, p, q ...) - the view and the native key are no longer the same key."""
    eng = ctx.eng
    init = eng.prog.cls("rfc7517.models:BaseKey").methods.get("__init__")
    if init is None:
        raise AnalysisError("BaseKey.__init__ vanished")
    n = 0
    for fn in eng.prog.all_functions():
        for node in fn_nodes(fn):
            hit = None
            if isinstance(node, ast.Attribute) and isinstance(node.ctx, (ast.Store, ast.Del)) and node.attr in KEY_STATE_FIELDS:
                hit = node.attr
            elif isinstance(node, ast.Call) and isinstance(node.func, ast.Name) and node.func.id in ("setattr", "delattr") and len(node.args) >= 2 \
                    and const_value(node.args[1]) in KEY_STATE_FIELDS:
                hit = const_value(node.args[1])
            elif isinstance(node, ast.Call) and isinstance(node.func, ast.Attribute) and node.func.attr in ("update", "__setitem__", "pop", "clear", "setdefault") \
                    and isinstance(node.func.value, ast.Attribute) and node.func.value.attr == "__dict__":
                hit = "__dict__"
            if hit is None:
                continue
            if fn is init:
                n += 1
                continue
            ctx.fail("R12.13", fn, node, f"{fn.short} re-assigns `{hit}` of a key object after construction: the JWK view already built from the previous native key "
                     f"(private members included) stays behind", construct=f"{hit} assigned in {fn.short}")
    ctx.count("R12.13", n, 3, "assignments of the key state fields in BaseKey.__init__")


def r12_15(ctx) -> None:
    """R12.15  the private / public choice of an export is made in ONE place per exporter: no key class overrides as_dict, as_bytes, as_pem, as_der
    or the binding's as_bytes (an override is a second selector that R12.2 / R12.7 do not decide - `private is True or password is not None`
    hands out the private key to a caller who asked for the public one and also gave a password)."""
    eng = ctx.eng
    P = eng.prog
    bk = P.cls("rfc7517.models:BaseKey")
    n = 0
    ak = P.cls("rfc7517.models:AsymmetricKey")
    for meth in ("as_dict", "as_bytes", "as_pem", "as_der"):
        owner = bk if meth == "as_dict" else ak
        base = owner.methods.get(meth)
        if base is None:
            raise AnalysisError(f"{owner.name}.{meth} vanished")
        n += 1
        over = [f for f in P.implementations(owner, meth) if f is not base]
        ctx.check(not over, "R12.15", over[0] if over else base, (over[0] if over else base).node, f"BaseKey.{meth} :: single implementation",
                  f"{over[0].short if over else ''} overrides {meth}: the private / public selection of the base class is bypassed", "one implementation", construct=f"override of {meth}")
    cb = P.cls("rfc7517.pem:CryptographyBinding")
    base = cb.methods.get("as_bytes")
    if base is not None:
        n += 1
        over = [f for f in P.implementations(cb, "as_bytes") if f is not base]
        ctx.check(not over, "R12.15", over[0] if over else base, (over[0] if over else base).node, "CryptographyBinding.as_bytes :: single implementation",
                  f"{over[0].short if over else ''} overrides the binding's as_bytes: its own private / public selector is not the one R12.7 decides", "one implementation",
                  construct="override of binding as_bytes")
    ctx.count("R12.15", n, 5, "exporters with a single implementation")


def run(ctx) -> None:
    ctx.guard(r12_15)
    from .common import forwarding_discipline
    ctx.guard(forwarding_discipline, "R12.12", ['private', 'password', 'encoding', 'params'], 21)  # arguments are handed on under their own name (generic routing rule, rules/common.py)
    ctx.guard(r12_11)
    ctx.guard(r12_13)
    # "every JWS/JWE/JWT serialization contains none of the private parameters": the header encoder serialises JSON values only (no default= hook that
    # would turn a Key object given as "jwk" into its full dict), and "jwk" header values are validated as plain dicts
    from .c07 import r07_5
    from .c15 import r15_3
    ctx.guard_as("R12.14", r07_5)
    ctx.guard_as("R12.14", r15_3)
    # a key's JWK view holds only its own material: no method of a key class writes into an object shared with other keys / the caller
    from .c20 import r20_1, key_class_functions
    from ..effects import Effects
    ctx.guard_as("R12.10", r20_1, Effects(ctx.eng.prog, ctx.eng.cg), key_class_functions(ctx.eng))
    ctx.guard(r12_9)
    ctx.guard(r12_1)
    ctx.guard(r12_2)
    ctx.guard(r12_3)
    ctx.guard(r12_4)
    ctx.guard(r12_5)
    ctx.guard(r12_6)
    ctx.guard(r12_7)
    ctx.guard(r12_8)
    ctx.assume("pyca public_bytes / public_numbers never expose private parameters")
