"""C10 - claims validation accepts exactly the claim sets that satisfy the request.

The decision logic touches claim values only through comparisons, membership and isinstance: a finite table.
R10.1 time comparisons in linear normal form       R10.2 numeric type guard dominates the comparison
R10.3 error class per failure                      R10.4 essential claims present and not null
R10.5 check_value truth table                      R10.6 dispatch / aud intersection
R10.7 claims are not modified                      R10.8 default now
"""
from __future__ import annotations
import ast
from typing import Dict, List, Optional, Tuple

from ..program import AnalysisError, FunctionInfo, fn_nodes, norm
from ..cfg import cfg_of
from ..decide import truth_table
from ..effects import Effects
from .common import inconclusive_on_error as _ioe
from .common import resolve_all, can_reach_exit, const_value, is_const, succ_by_label

REG = "rfc7519.registry:JWTClaimsRegistry"
BASE = "rfc7519.registry:ClaimsRegistry"


def _linear(e: ast.AST, syms: Dict[str, str]) -> Optional[Dict[str, int]]:
    """linear form {symbol: coefficient} of an expression over the named symbols (+, -, unary -, parentheses)"""
    t = norm(e)
    if t in syms:
        return {syms[t]: 1}
    if isinstance(e, ast.Constant) and isinstance(e.value, (int, float)) and not isinstance(e.value, bool):
        return {"1": int(e.value)} if e.value else {}
    if isinstance(e, ast.BinOp) and isinstance(e.op, (ast.Add, ast.Sub)):
        a, b = _linear(e.left, syms), _linear(e.right, syms)
        if a is None or b is None:
            return None
        out = dict(a)
        for k, v in b.items():
            out[k] = out.get(k, 0) + (v if isinstance(e.op, ast.Add) else -v)
        return {k: v for k, v in out.items() if v}
    if isinstance(e, ast.UnaryOp) and isinstance(e.op, ast.USub):
        a = _linear(e.operand, syms)
        return None if a is None else {k: -v for k, v in a.items()}
    return None


def _cmp_normal(c: ast.Compare, syms) -> Optional[Tuple[Dict[str, int], str]]:
    """lhs - rhs as a linear form together with the operator: (form, op) meaning `form op 0`"""
    if len(c.ops) != 1:
        return None
    a, b = _linear(c.left, syms), _linear(c.comparators[0], syms)
    if a is None or b is None:
        return None
    f = dict(a)
    for k, v in b.items():
        f[k] = f.get(k, 0) - v
    f = {k: v for k, v in f.items() if v}
    op = {ast.Lt: "<", ast.LtE: "<=", ast.Gt: ">", ast.GtE: ">="}.get(type(c.ops[0]))
    if op is None:
        return None
    return f, op


def r10_1_2_3(ctx) -> None:
    eng = ctx.eng
    R = eng.prog.cls(REG)
    spec = {
        # method: (claim, form of `value - bound`, ops that raise, error class)
        "validate_exp": ("exp", {"value": 1, "now": -1, "leeway": 1}, ("<", "<="), "ExpiredTokenError"),
        "validate_nbf": ("nbf", {"value": 1, "now": -1, "leeway": -1}, (">",), "InvalidTokenError"),
        "validate_iat": ("iat", {"value": 1, "now": -1, "leeway": -1}, (">",), "InvalidTokenError"),
    }
    for mname, (claim, want_form, want_ops, err) in spec.items():
        fn = R.methods.get(mname)
        if fn is None:
            raise AnalysisError(f"JWTClaimsRegistry.{mname} vanished")
        cfg = cfg_of(fn)
        vp = fn.pos_params[1]
        sn = fn.self_name
        syms = {vp: "value", f"{sn}.now": "now", f"{sn}.leeway": "leeway"}
        # R10.2 numeric guard
        guards = []
        for t in cfg.nodes:
            if t.kind != "test":
                continue
            e = t.ast
            isnum = False
            if isinstance(e, ast.Call) and isinstance(e.func, ast.Name) and e.func.id == "isinstance" and len(e.args) == 2 and norm(e.args[0]) == vp \
                    and norm(e.args[1]) in ("(int, float)", "(float, int)"):
                isnum = True
            elif isinstance(e, ast.Call) and e.args and norm(e.args[0]) == vp:
                s = eng.cg.site_of.get(id(e))
                if s is not None and s.callees and all(_is_numeric_pred(c) for c in s.callees):
                    isnum = True
            if isnum:
                bad = succ_by_label(cfg, t, "false")
                if not can_reach_exit(cfg, bad) and _raise_is(cfg, bad, "InvalidClaimError", claim):
                    guards.append(t)
        cmps = [t for t in cfg.nodes if t.kind == "test" and isinstance(t.ast, ast.Compare) and _cmp_normal(t.ast, syms) is not None]
        ok2 = bool(guards) and bool(cmps) and all(cfg.must_pass(cfg.entry, c, guards) for c in cmps)
        ctx.check(ok2, "R10.2", fn, fn.node, f"{fn.short} :: numeric guard", f"{claim}: the value is compared with the clock without a dominating isinstance(value, (int, float)) "
                  f"guard raising InvalidClaimError({claim!r})", "numeric type guard dominates the comparison", construct=f"numeric guard of {mname}")
        # R10.1 / R10.3
        good = False
        why = "no comparison of value with now and leeway found"
        for t in cmps:
            nf = _cmp_normal(t.ast, syms)
            assert nf is not None
            form, op = nf
            # normalise sign: coefficient of value must be +1
            if form.get("value") == -1:
                form = {k: -v for k, v in form.items()}
                op = {"<": ">", "<=": ">=", ">": "<", ">=": "<="}[op]
            if form != want_form:
                why = f"compares {form} {op} 0, expected {want_form}"
                continue
            if op in want_ops:
                bad = succ_by_label(cfg, t, "true")
                acc = succ_by_label(cfg, t, "false")
            elif op in [{"<": ">=", "<=": ">", ">": "<=", ">=": "<"}[o] for o in want_ops]:
                bad = succ_by_label(cfg, t, "false")
                acc = succ_by_label(cfg, t, "true")
            else:
                why = f"operator {op} on {form}: wrong direction"
                continue
            if can_reach_exit(cfg, bad):
                why = "the out-of-window branch can return normally"
                continue
            if not _raise_is(cfg, bad, err, None):
                why = f"the out-of-window branch does not raise {err}"
                continue
            if not can_reach_exit(cfg, acc):
                why = "the in-window branch cannot return"
                continue
            if not cfg.dominates(t, cfg.exit):
                why = "the comparison does not dominate the normal exit"
                continue
            good = True
        ctx.check(good, "R10.1", fn, fn.node, f"{fn.short} :: window", f"{claim}: time window comparison is wrong ({why})",
                  f"raises {err} iff " + ("value - now + leeway < 0" if claim == "exp" else "value - now - leeway > 0"), construct=f"time window of {mname}")
        # request options are still honoured for the time claims
        cv = [s for s in eng.cg.calls_in(fn) if isinstance(s.node, ast.Call) and s.attr == "check_value" and len(s.node.args) == 2
              and const_value(s.node.args[0]) == claim and norm(s.node.args[1]) == vp]
        okc = bool(cv) and all(cfg.must_pass(cfg.entry, cfg.exit, [cfg.node_of(s.node)]) for s in cv)
        ctx.check(okc, "R10.6", fn, fn.node, f"{fn.short} :: check_value", f"{mname} does not apply the request's value / values options", f"self.check_value({claim!r}, value) on every accepting path",
                  construct=f"check_value in {mname}")


def _is_numeric_pred(fn: FunctionInfo) -> bool:
    rets = cfg_of(fn).returns()
    return bool(rets) and all(norm(r.ast.value) in (f"isinstance({fn.pos_params[0]}, (int, float))", f"isinstance({fn.pos_params[0]}, (float, int))") for r in rets)


def _raise_is(cfg, starts, cls_name: str, arg: Optional[str]) -> bool:
    seen = False
    for s0 in starts:
        for n in cfg.reachable(s0):
            if n.kind == "stmt" and isinstance(n.ast, ast.Raise) and n.ast.exc is not None:
                e = n.ast.exc
                nm = norm(e.func if isinstance(e, ast.Call) else e).split(".")[-1]
                if nm != cls_name:
                    return False
                if arg is not None and not (isinstance(e, ast.Call) and e.args and const_value(e.args[0]) == arg):
                    return False
                seen = True
    return seen


def r10_4(ctx) -> None:
    eng = ctx.eng
    B = eng.prog.cls(BASE)
    v = B.methods.get("validate")
    init = B.methods.get("__init__")
    if v is None or init is None:
        raise AnalysisError("ClaimsRegistry.validate/__init__ vanished")
    sn = v.self_name
    cp = v.pos_params[1]
    # essential_keys = keys whose option has a truthy "essential"
    ek = [n for n in fn_nodes(init) if isinstance(n, ast.Assign) and norm(n.targets[0]) == f"{init.self_name}.essential_keys"]
    ok1 = False
    if len(ek) == 1:
        v_ = ek[0].value
        if isinstance(v_, ast.Call) and isinstance(v_.func, ast.Name) and v_.func.id in ("set", "frozenset") and len(v_.args) == 1 and isinstance(v_.args[0], (ast.GeneratorExp, ast.ListComp)):
            v_ = v_.args[0]
        if isinstance(v_, (ast.SetComp, ast.GeneratorExp, ast.ListComp)) and len(v_.generators) == 1 and len(v_.generators[0].ifs) == 1:
            g_ = v_.generators[0]
            it_ = norm(g_.iter)
            kp = init.node.args.kwarg.arg if init.node.args.kwarg else "kwargs"
            cond_ = norm(g_.ifs[0])
            if it_ == kp and isinstance(g_.target, ast.Name):
                k_ = g_.target.id
                ok1 = norm(v_.elt) == k_ and cond_ in (f"{kp}[{k_}].get('essential')", f"{kp}[{k_}]['essential']", f"{kp}.get({k_}).get('essential')")
            elif it_ == f"{kp}.items()" and isinstance(g_.target, ast.Tuple) and len(g_.target.elts) == 2 and all(isinstance(e_, ast.Name) for e_ in g_.target.elts):
                k_, o_ = g_.target.elts[0].id, g_.target.elts[1].id
                ok1 = norm(v_.elt) == k_ and cond_ in (f"{o_}.get('essential')", f"{o_}['essential']")
    ctx.check(ok1, "R10.4", init, ek[0] if ek else init.node, f"{init.short} :: essential_keys", "essential_keys is not the set of claims whose option has a truthy `essential`",
              "{key for key in kwargs if kwargs[key].get('essential')}", construct="essential_keys")
    cfg = cfg_of(v)
    missed = [n for n in fn_nodes(v) if isinstance(n, ast.Assign) and isinstance(n.value, (ast.SetComp, ast.ListComp))]
    ok2 = False
    for m in missed:
        comp = m.value
        g = comp.generators[0]
        if norm(g.iter) == f"{sn}.essential_keys" and len(g.ifs) == 1:
            cond = g.ifs[0]
            kv = norm(g.target)
            if isinstance(cond, ast.Compare) and isinstance(cond.ops[0], ast.Is) and is_const(cond.comparators[0], None) \
                    and norm(cond.left) in (f"{cp}.get({kv})", f"{cp}.get({kv}, None)"):
                var = norm(m.targets[0])
                for t in cfg.nodes:
                    if t.kind == "test" and norm(t.ast) == var:
                        bad = succ_by_label(cfg, t, "true")
                        if not can_reach_exit(cfg, bad) and _raise_is(cfg, bad, "MissingClaimError", None) and cfg.dominates(t, cfg.exit):
                            ok2 = True
    ctx.check(ok2, "R10.4", v, v.node, f"{v.short} :: missing essential claims", "validate() does not raise MissingClaimError exactly when an essential claim is absent or null",
              "raise MissingClaimError iff some essential key has claims.get(key) is None", construct="essential claims check")


def r10_5(ctx) -> None:
    eng = ctx.eng
    B = eng.prog.cls(BASE)
    fn = B.methods.get("check_value")
    if fn is None:
        raise AnalysisError("ClaimsRegistry.check_value vanished")
    vp = fn.pos_params[2]

    OPT = f"{fn.self_name}.options.get({fn.pos_params[1]})"
    AB, OV, OVS = f"{OPT}.get('allow_blank')", f"{OPT}.get('value')", f"{OPT}.get('values')"

    def R(e: ast.AST) -> str:
        r = resolve_all(eng, fn, e)
        return r[0] if len(r) == 1 else norm(e)

    def atom(e: ast.AST):
        t = R(e)
        if t == OPT:
            return ("has_option", True)
        if t == AB:
            return ("allow_blank", True)
        if isinstance(e, ast.Compare) and len(e.ops) == 1:
            l, r = R(e.left), R(e.comparators[0])
            op = e.ops[0]
            if l == vp and r in ("''", '""') and isinstance(op, (ast.Eq, ast.NotEq)):
                return ("blank", isinstance(op, ast.Eq))
            if l == OV and is_const(e.comparators[0], None) and isinstance(op, (ast.Is, ast.IsNot)):
                return ("has_value", isinstance(op, ast.IsNot))
            if l == OVS and is_const(e.comparators[0], None) and isinstance(op, (ast.Is, ast.IsNot)):
                return ("has_values", isinstance(op, ast.IsNot))
            if {l, r} == {vp, OV} and isinstance(op, (ast.Eq, ast.NotEq)):
                return ("eq_value", isinstance(op, ast.Eq))
            if l == vp and r == OVS and isinstance(op, (ast.In, ast.NotIn)):
                return ("in_values", isinstance(op, ast.In))
        return None
    atoms = ["has_option", "allow_blank", "blank", "has_value", "eq_value", "has_values", "in_values"]
    tab = truth_table(fn, atoms, atom)
    good = True
    n = 0
    for vals, outs in tab.items():
        ho, ab, bl, hv, ev, hvs, iv = vals
        want_raise = ho and ((not ab and bl) or (hv and not ev) or (hvs and not iv))
        n += 1
        for o in outs:
            if o.unknown:
                ctx.fail("R10.5", fn, o.node.ast if o.node else None, f"check_value branches on an unknown condition {o.unknown}", construct="unknown condition in check_value")
                good = False
            if want_raise and o.kind != "raise":
                ctx.fail("R10.5", fn, fn.node, f"check_value accepts although the request is not met (option={ho} allow_blank={ab} blank={bl} value?{hv} eq={ev} values?{hvs} in={iv})",
                         construct=f"accepts option={ho} allow_blank={ab} blank={bl} value={hv}/{ev} values={hvs}/{iv}")
                good = False
            if not want_raise and o.kind == "raise":
                ctx.fail("R10.5", fn, o.node.ast if o.node else None, f"check_value refuses a claim that meets the request (option={ho} allow_blank={ab} blank={bl} value?{hv} eq={ev} values?{hvs} in={iv})",
                         construct=f"refuses option={ho} allow_blank={ab} blank={bl} value={hv}/{ev} values={hvs}/{iv}")
                good = False
            if want_raise and o.kind == "raise" and o.exc.split(".")[-1] != "InvalidClaimError":
                ctx.fail("R10.5", fn, o.node.ast if o.node else None, f"check_value raises {o.exc}, not InvalidClaimError", construct="check_value error class")
                good = False
    if good:
        ctx.ok("R10.5", f"{fn.short} :: truth table", f"{n} atom assignments: raise InvalidClaimError iff option and ((not allow_blank and value == '') or value != option.value or value not in option.values)")


def r10_6(ctx) -> None:
    eng = ctx.eng
    B = eng.prog.cls(BASE)
    v = B.methods["validate"]
    cfg = cfg_of(v)
    sn = v.self_name
    cp = v.pos_params[1]
    loops = [l for l in cfg.nodes if l.kind == "loop" and norm(l.ast.iter) in (cp, f"{cp}.keys()", f"{cp}.items()")]
    ok = len(loops) == 1
    ctx.check(ok, "R10.6", v, v.node, f"{v.short} :: visits every claim", "validate() does not iterate over all claims", "for key in claims", construct="claims iteration")
    # getattr dispatch wins, else check_value when the key has an option
    ga = [n for n in fn_nodes(v) if isinstance(n, ast.Call) and isinstance(n.func, ast.Name) and n.func.id == "getattr" and len(n.args) >= 2
          and isinstance(n.args[1], ast.BinOp) and const_value(n.args[1].left) == "validate_"]
    okd = len(ga) == 1
    cv = [s for s in eng.cg.calls_in(v) if isinstance(s.node, ast.Call) and s.attr == "check_value"]
    opt = [t for t in cfg.nodes if t.kind == "test" and isinstance(t.ast, ast.Compare) and isinstance(t.ast.ops[0], ast.In) and norm(t.ast.comparators[0]) == f"{sn}.options"]
    okd = okd and bool(cv) and bool(opt)
    ctx.check(okd, "R10.6", v, v.node, f"{v.short} :: dispatch", "claims are not dispatched to validate_<claim> or, for claims with an option, to check_value",
              "func = getattr(self, 'validate_' + key, None); func(value) elif key in self.options: check_value", construct="claim dispatch")
    # aud
    R = eng.prog.cls(REG)
    a = R.methods.get("validate_aud")
    if a is None:
        raise AnalysisError("validate_aud vanished")
    cfg = cfg_of(a)
    vp = a.pos_params[1]
    anyt = [t for t in cfg.nodes if t.kind == "test" and isinstance(t.ast, ast.Call) and isinstance(t.ast.func, ast.Name) and t.ast.func.id == "any"]
    oka = False
    for t in anyt:
        g = t.ast.args[0] if t.ast.args else None
        if isinstance(g, (ast.ListComp, ast.GeneratorExp)) and isinstance(g.elt, ast.Compare) and isinstance(g.elt.ops[0], ast.In):
            itx = resolve_all(eng, a, g.generators[0].iter)
            OPTA = f"{a.self_name}.options.get('aud')"
            need_ = {f"{OPTA}.get('values')", f"[{OPTA}.get('value')]"}
            if need_ <= set(itx) and set(itx) <= need_ | {"None", "[]"} and norm(g.elt.left) == norm(g.generators[0].target):
                bad = succ_by_label(cfg, t, "false")
                if not can_reach_exit(cfg, bad) and _raise_is(cfg, bad, "InvalidClaimError", "aud"):
                    lst = norm(g.elt.comparators[0])
                    defs = [d for d in eng.flow._defs(a).get(lst, []) if d[0] == "assign"]
                    texts = sorted(norm(d[1]) for d in defs)
                    if texts == sorted([vp, f"[{vp}]"]):
                        # the bare value is used only when it is a real collection of audiences: for a str (itself a
                        # Sequence) `v in value` is a substring test, so anything but list / tuple / set must be wrapped
                        bare = [d[1] for d in defs if norm(d[1]) == vp]
                        bn = cfg.node_of(bare[0])
                        okw = bn is not None
                        for path in (cfg.guards_of(bn) if bn is not None else []):
                            if not any(outcome and _is_collection_test(tn.ast, vp) for tn, outcome in path):
                                okw = False
                        wrapped = [d[1] for d in defs if norm(d[1]) == f"[{vp}]"]
                        wn = cfg.node_of(wrapped[0])
                        # and a value that is not such a collection always reaches the wrapping assignment or leaves
                        oka = okw and wn is not None
    ctx.check(oka, "R10.6", a, a.node, f"{a.short} :: intersection", "aud is not accepted exactly when at least one requested audience is among the token's audiences (scalar wrapped in a list)",
              "raise InvalidClaimError('aud') iff not any(v in aud_list for v in option_values)", construct="aud intersection")


def _is_collection_test(e: ast.AST, vp: str) -> bool:
    """isinstance(<vp>, list) / (list, tuple) / set ... - element containers only (never str / Sequence / Iterable)"""
    if not (isinstance(e, ast.Call) and isinstance(e.func, ast.Name) and e.func.id == "isinstance" and len(e.args) == 2 and norm(e.args[0]) == vp):
        return False
    tys = e.args[1].elts if isinstance(e.args[1], ast.Tuple) else [e.args[1]]
    return bool(tys) and all(isinstance(t, ast.Name) and t.id in ("list", "tuple", "set", "frozenset") for t in tys)


def r10_7_8(ctx, with_r10_8: bool = True) -> None:
    eng = ctx.eng
    fx = Effects(eng.prog, eng.cg)
    B = eng.prog.cls(BASE)
    v = B.methods["validate"]
    mp = fx.mutated_params(v)
    ctx.check(v.pos_params[1] not in mp, "R10.7", v, v.node, f"{v.short} :: claims untouched", f"validate() or a callee stores into the claims object (mutated: {sorted(mp)})",
              f"mutated parameters {sorted(mp)} exclude the claims", construct="claims mutated by validate")
    R = eng.prog.cls(REG)
    for m in R.methods.values():
        if m.name.startswith("validate_"):
            mp2 = fx.mutated_params(m)
            ctx.check(m.pos_params[1] not in mp2, "R10.7", m, m.node, f"{m.short} :: value untouched", "a claim validator mutates the claim value", "no store", construct=f"value mutated by {m.name}")
    if not with_r10_8:
        return
    init = R.methods.get("__init__")
    if init is None:
        raise AnalysisError("JWTClaimsRegistry.__init__ vanished")
    cfg = cfg_of(init)
    ok = False
    for t in cfg.nodes:
        if t.kind == "test" and isinstance(t.ast, ast.Compare) and norm(t.ast.left) == "now" and isinstance(t.ast.ops[0], ast.Is) and is_const(t.ast.comparators[0], None):
            for s0 in succ_by_label(cfg, t, "true"):
                for n in cfg.reachable(s0):
                    if n.kind == "stmt" and isinstance(n.ast, ast.Assign) and norm(n.ast.targets[0]) == "now" and norm(n.ast.value) in ("int(time.time())", "time.time()"):
                        ok = True
    st = [n for n in fn_nodes(init) if isinstance(n, ast.Assign) and norm(n.targets[0]) == f"{init.self_name}.now" and norm(n.value) == "now"]
    sl = [n for n in fn_nodes(init) if isinstance(n, ast.Assign) and norm(n.targets[0]) == f"{init.self_name}.leeway" and norm(n.value) == "leeway"]
    d = init.param_default("leeway")
    ctx.check(ok and bool(st) and bool(sl) and is_const(init.param_default("now"), None) and const_value(d) == 0, "R10.8", init, init.node, f"{init.short} :: default now",
              "with no explicit now the current time is not used (or now / leeway are not stored as given)", "now = int(time.time()) when None; leeway default 0",
              construct="default now")


def r10_11(ctx) -> None:
    """R10.11  the verdict on a claims set is a function of (options, now, leeway, claims): after construction a registry is only read.  No method of
    the claims registries other than `__init__` stores on the instance, on the class (`cls.x = ...`, `type(self).x = ...`, a mutated class-level
    container) or on a module-level object - a memo kept on the class is shared by the subclasses that inherit the attribute, so what one registry
    class computed first decides what another one does later."""
    eng = ctx.eng
    P = eng.prog
    fx = Effects(P, eng.cg)
    cr = P.cls("rfc7519.registry:ClaimsRegistry")
    n = 0
    for c in [cr] + cr.all_subclasses():
        for nm, m in sorted(c.methods.items()):
            # everything the method can reach inside the claims module counts (a helper that does the store for it)
            todo, seen = [m], {m}
            while todo:
                f = todo.pop()
                for s_ in eng.cg.calls_in(f):
                    for g in s_.callees:
                        if g not in seen and g.module.short.startswith("rfc7519"):
                            seen.add(g)
                            todo.append(g)
            for f in seen:
                for ef in fx.of(f):
                    n += 1
                    kinds = {r.kind for r in ef.roots}
                    shared = kinds & {"cls", "global"}
                    on_self = "self" in kinds and f.name != "__init__"
                    ctx.check(not shared and not on_self, "R10.11", f, ef.node, f"{m.short} :: {norm(ef.node)[:60]}",
                              f"`{norm(ef.node)[:70]}` stores on {'the class / a module-level object' if shared else 'the registry instance outside __init__'}: "
                              "a later validation (of this or an inheriting registry class) depends on what was validated before", "registries are only read after construction",
                              construct=f"registry state written in {f.short}")
    ctx.count("R10.11", n, 2, "stores in the claims registries")


def r10_9(ctx) -> None:
    """R10.9  "otherwise it raises the error of the matching class": the exception flow (S9) of validate() and of every validate_<claim> method lets
    only the library's claim errors (subclasses of JoseError) escape - nothing that formats, converts or compares a claim value on the way to the
    error (e.g. a date formatter in the error message) can replace it by ValueError / OverflowError / TypeError for far-out values."""
    eng = ctx.eng
    P = eng.prog
    from ..excflow import ExcFlow
    cr = P.cls("rfc7519.registry:ClaimsRegistry")
    base = P.cls("errors:JoseError")
    ents = [m for c in [cr] + cr.all_subclasses() for nm, m in sorted(c.methods.items()) if nm == "validate" or nm.startswith("validate_")]
    if len(ents) < 4:
        raise AnalysisError("claims validation entries vanished")
    xf = ExcFlow(P, eng.cg)
    xf.solve(ents)
    if xf.unclassified:
        raise AnalysisError(f"R10.9: external callees without a throws-table entry: {sorted(xf.unclassified)[:6]}")
    n = 0
    bad: Dict[Tuple[str, str], List[str]] = {}
    for en in ents:
        for esc in xf.summary(en):
            n += 1
            c = P.classes.get("joserfc." + esc.exc) if ":" in esc.exc else None
            if c is not None and c.is_subclass_of(base):
                continue
            bad.setdefault((esc.exc, esc.origin), []).append(en.short)
    for (exc, origin), ens in sorted(bad.items()):
        fn = ents[0]
        ctx.fail("R10.9", P.func(ens[0]) if ens else fn, None, f"{exc} raised by `{origin[:60]}` escapes from {sorted(set(ens))[:3]}: a claim that must be refused with the matching claim error "
                 "is refused with another exception class", construct=f"{exc} from {origin[:50]} escapes claims validation")
    ctx.count("R10.9", n, 15, "(entry, escaping exception, origin) triples of the claims validators")


BUILTIN_CLAIM_RULES = {"aud", "exp", "nbf", "iat"}


def r10_10(ctx) -> None:
    """R10.10  "claims without a request or built-in rule are ignored": validate() dispatches on the claim NAME to a method `validate_<name>`, so the
    set of built-in rules is the set of such methods on the registry classes.  It is exactly {aud, exp, nbf, iat}: a helper that happens to be called
    validate_<something> silently becomes a rule for a claim of that name."""
    eng = ctx.eng
    cr = eng.prog.cls("rfc7519.registry:ClaimsRegistry")
    n = 0
    seen = set()
    for c in [cr] + cr.all_subclasses():
        for name, m in sorted(c.methods.items()):
            if not name.startswith("validate_"):
                continue
            n += 1
            claim = name[len("validate_"):]
            seen.add(claim)
            ctx.check(claim in BUILTIN_CLAIM_RULES, "R10.10", m, m.node, f"{m.short}", f"{c.name}.{name} is reachable through the validate_<claim name> dispatch: a claim literally named "
                      f"`{claim}` is now judged by it although the statement gives that claim no built-in rule", f"validate_<name> only for {sorted(BUILTIN_CLAIM_RULES)}",
                      construct=f"dispatch target validate_{claim}")
    miss = BUILTIN_CLAIM_RULES - seen
    ctx.check(not miss, "R10.10", None, None, "built-in claim rules", f"built-in rules vanished for {sorted(miss)}", "aud, exp, nbf, iat", construct="built-in claim rule set")
    # the dispatch itself: getattr(self, "validate_" + key, None)
    v = cr.methods.get("validate")
    if v is None:
        raise AnalysisError("ClaimsRegistry.validate vanished")
    disp = [x for x in fn_nodes(v) if isinstance(x, ast.Call) and isinstance(x.func, ast.Name) and x.func.id == "getattr" and len(x.args) >= 2]
    okd = any(isinstance(x.args[1], ast.BinOp) and const_value(x.args[1].left) == "validate_" for x in disp) or \
        any(isinstance(x.args[1], ast.JoinedStr) and x.args[1].values and const_value(x.args[1].values[0]) == "validate_" for x in disp)
    ctx.check(okd, "R10.10", v, v.node, "validate :: dispatch", "validate() no longer dispatches on 'validate_' + claim name (the rule about the method set does not describe it any more)",
              "getattr(self, 'validate_' + key, None)", construct="claims dispatch form")
    ctx.count("R10.10", n, 4, "validate_<claim> methods")


def _oracle(claims: dict, options: dict, now, leeway) -> str:
    """the statement's verdict for one claims set: "ok" or the name of the error class (single-claim probes: no question of which error wins)"""
    for k, opt in options.items():
        if opt.get("essential") and claims.get(k) is None:
            return "MissingClaimError"

    def check_value(k, v):
        opt = options.get(k)
        if not opt:
            return "ok"
        if not opt.get("allow_blank") and v == "":
            return "InvalidClaimError"
        if opt.get("value") is not None and v != opt.get("value"):
            return "InvalidClaimError"
        if opt.get("values") is not None and v not in opt.get("values"):
            return "InvalidClaimError"
        return "ok"
    for k, v in claims.items():
        if k in ("exp", "nbf", "iat"):
            if not isinstance(v, (int, float)):
                return "InvalidClaimError"
            if k == "exp" and v < now - leeway:
                return "ExpiredTokenError"
            if k != "exp" and v > now + leeway:
                return "InvalidTokenError"
            r = check_value(k, v)
        elif k == "aud":
            opt = options.get("aud")
            r = "ok"
            if opt:
                vals = opt.get("values")
                if vals is None and opt.get("value"):
                    vals = [opt.get("value")]
                if vals:
                    auds = v if isinstance(v, list) else [v]
                    if not any(x in auds for x in vals):
                        r = "InvalidClaimError"
        elif k in options:
            r = check_value(k, v)
        else:
            r = "ok"
        if r != "ok":
            return r
    return "ok"


def _claim_probes():
    out = []
    now = 1000
    for leeway in (0, 60):
        for claim in ("exp", "nbf", "iat"):
            for v in (now - leeway - 1, now - leeway + 1, now, now + leeway, now + leeway + 1, now - leeway - 0.5, now + leeway + 0.5, "1000", None, [1000], {"a": 1}):
                out.append(({claim: v}, {}, now, leeway))
            out.append(({claim: now + 1 if claim == "exp" else now - 1}, {claim: {"value": 424242}}, now, leeway))      # in the window, but not the requested value
            out.append(({claim: now + 1 if claim == "exp" else now - 1}, {claim: {"values": [now + 1, now - 1]}}, now, leeway))
    import itertools as _it
    opts = []
    for ab, v, vs, es in _it.product(("<absent>", True, False, None), ("<absent>", "a", "", "ab", 0), ("<absent>", ["a", "b"], ["", "a"], ["ab"], []), ("<absent>", True, False)):
        o = {}
        if ab != "<absent>":
            o["allow_blank"] = ab
        if v != "<absent>":
            o["value"] = v
        if vs != "<absent>":
            o["values"] = list(vs)
        if es != "<absent>":
            o["essential"] = es
        opts.append(o)
    vals = ["<absent>", None, "a", "b", "c", "", "ab", 0, 1, ["a"]]
    for o in opts:
        for v in vals:
            out.append(({} if v == "<absent>" else {"x": v}, {"x": dict(o)}, now, 0))
    for v in vals:
        out.append(({} if v == "<absent>" else {"x": v}, {}, now, 0))  # no request at all: ignored
    for o in ({}, {"value": "a"}, {"values": ["a", "b"]}, {"values": []}, {"value": ""}, {"essential": True}, {"value": "a", "values": ["b"]}, {"allow_blank": False, "value": "a"},
              {"value": "ab"}, {"values": ["ab", "zz"]}, {"values": ["b", "a"]}, {"essential": True, "values": ["a"]}):
        for v in ("a", "c", "", "abc", "ab", ["a", "x"], ["x"], [], ["c", "b"], ["abc"], ["x", "ab"], "<absent>", None):
            out.append(({} if v == "<absent>" else {"aud": v}, {"aud": dict(o)}, now, 0))
    out.append(({"x": "a", "exp": now + 10, "zz": {"k": [1]}, "aud": "me"}, {"x": {"value": "a"}, "aud": {"value": "me"}}, now, 5))
    out.append(({"zz": object}, {}, now, 0))
    return out


@_ioe
def _claims_folded(ctx) -> Optional[List[Tuple[str, str]]]:
    """Decide R10.1 - R10.6 and R10.8 by partial evaluation: JWTClaimsRegistry(now, leeway, **request).validate(claims) is folded on a grid of
    single-claim probes (the boundaries now-leeway-1, now-leeway+1, now+leeway, now+leeway+1, floats, non-numbers; every request option and
    their combinations; scalar / list audiences) and the outcome compared with the statement's verdict (`_oracle`); exp == now-leeway is left
    open and not probed.  None when a probe does not fold, a test stays undecided or was decided one way only (DESIGN 11.11): the rules of
    shape then decide."""
    import copy as _copy
    from ..fold import FuncVal, ExtVal, FoldRaise, is_unknown
    eng = ctx.eng
    P, F = eng.prog, eng.folder
    R = P.cls(REG)
    problems: List[Tuple[str, str]] = []
    F.start_trace()
    try:
        # R10.8: the clock
        d = F.instantiate(R, [], {})
        nw = d.attrs.get("now")
        txt = repr(nw).replace("ext:", "")
        if not (isinstance(nw, ExtVal) and txt in ("int(time.time())", "time.time()")):
            if is_unknown(nw):
                return None
            problems.append(("R10.8", f"with no explicit now the registry's clock folds to {txt}, not the current time"))
        if d.attrs.get("leeway") != 0:
            problems.append(("R10.8", f"the default leeway folds to {d.attrs.get('leeway')!r}"))
        init_ = R.lookup("__init__")
        if init_ is not None:
            for dflt in list(init_.node.args.defaults) + [k_ for k_ in init_.node.args.kw_defaults if k_ is not None]:
                if any(isinstance(x_, ast.Call) for x_ in ast.walk(dflt)):
                    problems.append(("R10.8", f"a parameter default of the registry constructor is computed when the module is imported (`{norm(dflt)}`): the clock is frozen"))
        for nw_, lw_ in ((0, 0), (5, 7)):
            e = F.instantiate(R, [], {"now": nw_, "leeway": lw_})
            if e.attrs.get("now") != nw_ or e.attrs.get("leeway") != lw_ or isinstance(e.attrs.get("now"), bool):
                problems.append(("R10.8", f"now={nw_}, leeway={lw_} are stored as now={e.attrs.get('now')!r}, leeway={e.attrs.get('leeway')!r}"))
        for claims, opts, now, leeway in _claim_probes():
            want = _oracle(claims, opts, now, leeway)
            given = _copy.deepcopy(claims) if "zz" not in claims or claims["zz"] is not object else dict(claims)
            before = repr(given)
            try:
                inst = F.instantiate(R, [], dict(now=now, leeway=leeway, **_copy.deepcopy(opts)))
                r = F.call(FuncVal(R.lookup("validate"), None, inst), [given], {})
                got = "ok"
                if is_unknown(r):
                    return None
            except FoldRaise as ex:
                got = getattr(getattr(ex.exc, "cls", None), "name", None) or getattr(ex, "name", "") or "?"
            if got != want:
                ck = next(iter(claims), None)
                if "MissingClaimError" in (got, want):
                    rid = "R10.4"
                elif ck in ("exp", "nbf", "iat"):
                    v_ = claims[ck]
                    rid = "R10.2" if not isinstance(v_, (int, float)) else ("R10.1" if not opts else "R10.6")
                    if isinstance(v_, (int, float)) and not opts and "ok" not in (got, want):
                        rid = "R10.3"
                elif ck == "aud":
                    rid = "R10.6"
                else:
                    rid = "R10.5" if (ck is not None and ck in opts) else "R10.6"
                problems.append((rid, f"claims {claims!r} under the request {opts!r} at now={now}, leeway={leeway}: folds to {got}, the statement says {want}"))
            if repr(given) != before:
                problems.append(("R10.7", f"validate() modifies the claims {claims!r}"))
    except AnalysisError:
        return None
    finally:
        sided = F.one_sided(ignore=(".__init__",))
    return None if sided else problems


def run(ctx) -> None:
    folded = ctx.guard(_claims_folded)
    if folded is not None:
        by_rule: Dict[str, List[str]] = {}
        for rid, txt in folded:
            by_rule.setdefault(rid, []).append(txt)
        for rid in ("R10.1", "R10.2", "R10.3", "R10.4", "R10.5", "R10.6", "R10.8"):
            ps = by_rule.get(rid, [])
            ctx.check(not ps, rid, None, None, f"claims validation folded on the probe grid ({rid})", "; ".join(ps[:2]) + (f" (+{len(ps) - 2} more probes)" if len(ps) > 2 else ""),
                      "every probe of this clause agrees with the statement's verdict", construct=f"claims validation verdicts ({rid})")
        for txt in by_rule.get("R10.7", []):
            ctx.fail("R10.7", None, None, txt, construct="claims mutated by validate")
        ctx.count("R10.1/probes", len(_claim_probes()), 200, "claims probes")
    else:
        ctx.guard(r10_1_2_3)
        ctx.guard(r10_4)
        ctx.guard(r10_5)
        ctx.guard(r10_6)
    ctx.guard(r10_7_8, folded is None)
    ctx.guard(r10_9)
    ctx.guard(r10_10)
    ctx.guard(r10_11)
    ctx.assume("Python comparison semantics on the claim values (exotic value types are outside the statement)")
    ctx.note("whether exp == now - leeway is still valid is left open by the statement: both `<` and `<=` are accepted for exp")
