"""C19 - base64url and integer codecs are strict and lossless (claimed for configuration / layering only).

Bijectivity of the codec is a property of CPython's binascii C code over all octet strings - outside the analysed
source and not decided.  Decided, each a necessary condition:
R19.1 layering: base64 only in util.py, hex/binascii only in util.py and rfc7518/util.py
R19.2 strict decode configuration     R19.3 unpadded url-safe encode
R19.4 integer codecs                  R19.5 compact JSON header codec
"""
from __future__ import annotations
import ast
from typing import List

from ..program import AnalysisError, Ext, FunctionInfo, fn_nodes, norm
from ..cfg import cfg_of
from .common import can_reach_exit, const_value, is_const, succ_by_label
from .common import inconclusive_on_error as _ioe
from ..fold import ExtVal
from typing import Any


def r19_1(ctx) -> None:
    eng = ctx.eng
    n = 0
    for fn in eng.prog.all_functions():
        for s in eng.cg.calls_in(fn):
            for x in s.ext:
                root = x.split(".")[0]
                if root == "base64":
                    n += 1
                    ctx.check(fn.module.short == "util", "R19.1", fn, s.node, f"{fn.short} :: {x}", f"{x} is called outside joserfc/util.py: the strict codec is bypassed",
                              "inside util.py")
                elif root == "binascii":
                    n += 1
                    ctx.check(fn.module.short in ("util", "rfc7518.util"), "R19.1", fn, s.node, f"{fn.short} :: {x}", f"{x} is called outside the codec modules", "inside a codec module")
                elif x in ("codecs.decode", "codecs.encode") or x.startswith("builtins.bytes.fromhex") or x.endswith(".hex") and root == "builtins":
                    n += 1
                    ctx.check(fn.module.short in ("util", "rfc7518.util"), "R19.1", fn, s.node, f"{fn.short} :: {x}", f"ad-hoc codec {x} outside the codec modules", "inside a codec module")
    ctx.count("R19.1", n, 4, "base64 / binascii call sites")
    # module-level imports of base64 elsewhere
    for m in eng.prog.modules.values():
        if m.short == "util":
            continue
        for st in m.tree.body:
            if isinstance(st, ast.Import) and any(a.name == "base64" for a in st.names) or isinstance(st, ast.ImportFrom) and st.module == "base64":
                ctx.fail("R19.1", m.body_fn, st, "base64 imported outside joserfc/util.py")


def r19_2_3(ctx) -> None:
    eng = ctx.eng
    P = eng.prog
    d = P.func("util:urlsafe_b64decode")
    cfg = cfg_of(d)
    sp = d.pos_params[0]
    decs = [s for s in eng.cg.calls_in(d) if isinstance(s.node, ast.Call) and any(x.startswith("base64.") for x in s.ext)]
    if not decs:
        raise AnalysisError("urlsafe_b64decode: no base64 primitive")
    for s in decs:
        name = s.ext[0]
        kw = {k.arg: k.value for k in s.node.keywords}
        strict = is_const(kw.get("validate"), True)
        alt = s.node.args[1] if len(s.node.args) >= 2 else kw.get("altchars")
        ok = name == "base64.b64decode" and strict and alt is not None and const_value(alt) == b"-_"
        ctx.check(ok, "R19.2", d, s.node, f"{d.short} :: {norm(s.node)[:50]}", "the base64url decoder is not base64.b64decode(s, b'-_', validate=True): characters outside the alphabet are "
                  "silently discarded (lenient mode)", "b64decode(s, altchars=b'-_', validate=True)", construct="strict decode primitive")
        # '+' and '/' are refused before altchars maps '-_' onto them
        dn = cfg.node_of(s.node)
        tests = []
        for t in cfg.nodes:
            if t.kind == "test" and isinstance(t.ast, ast.Compare) and isinstance(t.ast.ops[0], ast.In) and norm(t.ast.comparators[0]) == sp and const_value(t.ast.left) in (b"+", b"/"):
                if not can_reach_exit(cfg, succ_by_label(cfg, t, "true")):
                    tests.append(const_value(t.ast.left))
                    if dn is not None and not cfg.must_pass(cfg.entry, dn, [t]) and False:
                        pass
        loop_form = False
        # the same refusal written as a loop over the two characters: `for c in (b"+", b"/"): if c in s: raise`
        for L in [n_ for n_ in cfg.nodes if n_.kind == "loop" and isinstance(n_.ast, ast.For) and isinstance(n_.ast.iter, (ast.Tuple, ast.List, ast.Set)) and isinstance(n_.ast.target, ast.Name)]:
            vals = [const_value(x) for x in L.ast.iter.elts]
            for t in cfg.nodes:
                if t.kind == "test" and isinstance(t.ast, ast.Compare) and len(t.ast.ops) == 1 and isinstance(t.ast.ops[0], ast.In) and norm(t.ast.comparators[0]) == sp \
                        and norm(t.ast.left) == L.ast.target.id and any(x is t.ast for x in ast.walk(L.ast)):
                    bad = succ_by_label(cfg, t, "true")
                    if not can_reach_exit(cfg, bad) and not any(L in cfg.reachable(b_) for b_ in bad) and dn is not None and cfg.dominates(L, dn):
                        tests.extend(v for v in vals if v in (b"+", b"/"))
                        loop_form = True
        # ... or as any(<c> in s for <c> in (b"+", b"/"))
        for t in cfg.nodes:
            e_ = t.ast if t.kind == "test" else None
            if isinstance(e_, ast.Call) and isinstance(e_.func, ast.Name) and e_.func.id == "any" and len(e_.args) == 1 and isinstance(e_.args[0], (ast.GeneratorExp, ast.ListComp)) \
                    and len(e_.args[0].generators) == 1 and not e_.args[0].generators[0].ifs:
                g_ = e_.args[0].generators[0]
                c_ = e_.args[0].elt
                if isinstance(g_.iter, (ast.Tuple, ast.List)) and isinstance(c_, ast.Compare) and len(c_.ops) == 1 and isinstance(c_.ops[0], ast.In) and norm(c_.left) == norm(g_.target) \
                        and norm(c_.comparators[0]) == sp and not can_reach_exit(cfg, succ_by_label(cfg, t, "true")) and dn is not None and cfg.dominates(t, dn):
                    tests.extend(const_value(x) for x in g_.iter.elts if const_value(x) in (b"+", b"/"))
                    loop_form = True
        ok2 = set(tests) == {b"+", b"/"}
        if ok2 and not loop_form:
            # both rejections precede the decode
            rej = [t for t in cfg.nodes if t.kind == "test" and isinstance(t.ast, ast.Compare) and (const_value(t.ast.left) in (b"+", b"/") or (
                isinstance(t.ast.ops[0], ast.In) and norm(t.ast.comparators[0]) == sp and isinstance(t.ast.left, ast.Name)))]
            ok2 = dn is not None and dn not in cfg.reachable(cfg.entry, edge_filter=lambda a, b, lab: not (a in rej and lab == "false")) or \
                (dn is not None and all(cfg.dominates(t, dn) or any(cfg.dominates(t2, dn) for t2 in rej) for t in rej))
        ctx.check(ok2, "R19.2", d, d.node, f"{d.short} :: '+' and '/' refused", "'+' and '/' (the standard alphabet) are not refused before decoding with altchars", "raise if b'+' in s or b'/' in s",
                  construct="standard alphabet refused")
        # padding restored from the length
        from .common import resolve_all as _ra
        pads = [n for n in fn_nodes(d) if isinstance(n, (ast.AugAssign, ast.Assign)) and any("-len(" in t_.replace(" ", "") and "%4" in t_.replace(" ", "") and "b'='" in t_
                                                                                         for t_ in _ra(eng, d, n.value))]
        ctx.check(bool(pads), "R19.2", d, d.node, f"{d.short} :: padding", "padding is not restored as '=' * (-len(s) % 4) (impossible lengths must fail in the strict decoder)",
                  "s += b'=' * (-len(s) % 4)", construct="padding restoration")
        # the refusal is a ValueError subclass
        raises = [n for n in fn_nodes(d) if isinstance(n, ast.Raise) and n.exc is not None]
        okr = all(norm(r.exc.func if isinstance(r.exc, ast.Call) else r.exc) in ("binascii.Error", "ValueError") for r in raises)
        ctx.check(okr and bool(raises), "R19.2", d, d.node, f"{d.short} :: error class", "refusals are not binascii.Error / ValueError", "binascii.Error (a ValueError)", construct="decode error class")
    e = P.func("util:urlsafe_b64encode")
    t = [norm(r.value) for r in fn_nodes(e) if isinstance(r, ast.Return)]
    ctx.check(t == ["base64.urlsafe_b64encode(s).rstrip(b'=')"], "R19.3", e, e.node, e.short, f"urlsafe_b64encode returns {t}: not the URL-safe alphabet with the padding stripped",
              "base64.urlsafe_b64encode(s).rstrip(b'=')", construct="encode configuration")


@_ioe
def _i2b_folded(ctx):
    """Fold util.int_to_base64 on probe integers with urlsafe_b64encode intercepted (answered by the real encoder, which is stdlib and not under
    test): negatives are refused with ValueError, every other integer is handed over as its minimal unsigned big-endian octets (none for 0, no
    leading zero octet at 2**8k - 1 / 2**8k boundaries) and the result is the text of that encoding.  -> deviations, or None when inconclusive."""
    import base64
    from ..fold import FuncVal, FoldRaise, is_unknown
    eng = ctx.eng
    F = eng.folder
    fn = eng.prog.func("util:int_to_base64")
    ue = eng.prog.func("util:urlsafe_b64encode")
    problems: List[str] = []
    probes = [-1, -255, -2 ** 70, 0, 1, 127, 128, 255, 256, 257, 65535, 65536, 2 ** 24 - 1, 2 ** 24, 2 ** 64 - 1, 2 ** 64, 2 ** 255, 2 ** 256 - 1, 2 ** 521 - 1, 0x0102030405]
    F.start_trace()
    try:
        for n in probes:
            seen: List[Any] = []

            def hook(b, seen=seen):
                v = b.get(ue.pos_params[0])
                seen.append(v)
                if not isinstance(v, bytes):
                    raise FoldRaise(ExtVal("TypeError", (), (), True))
                return base64.urlsafe_b64encode(v).rstrip(b"=")
            F.intercepts = {"util:urlsafe_b64encode": hook}
            try:
                r = F.call(FuncVal(fn, None, None), [n], {})
                got = "ok"
            except FoldRaise as ex:
                got = getattr(ex, "name", "") or "?"
                r = None
            finally:
                F.intercepts = {}
            if n < 0:
                if got == "ok":
                    problems.append(f"int_to_base64({n}) is not refused")
                elif got != "ValueError":
                    problems.append(f"int_to_base64({n}) is refused with {got}, not ValueError")
                continue
            want = n.to_bytes((n.bit_length() + 7) // 8, "big")
            if got != "ok":
                problems.append(f"int_to_base64({n if n < 2 ** 70 else hex(n)}) raises {got}")
                continue
            if is_unknown(r) or len(seen) != 1 or is_unknown(seen[0]):
                return None
            if seen[0] != want:
                problems.append(f"int_to_base64({n if n < 2 ** 70 else hex(n)[:20]}) encodes the octets {seen[0]!r:.40}, the minimal unsigned big-endian form is {want!r:.40}")
            elif r != base64.urlsafe_b64encode(want).rstrip(b"=").decode("ascii"):
                problems.append(f"int_to_base64({n if n < 2 ** 70 else hex(n)[:20]}) returns {r!r:.40}, not the text of the encoding")
    finally:
        sided = F.one_sided(ignore=("to_str", "to_bytes"))
    return None if sided else problems


@_ioe
def _to_bytes_folded(ctx):
    """Fold util.to_bytes on probe values: an immutable `bytes` object may come back as itself; a mutable octet buffer (bytearray, memoryview) comes back
    as a NEW `bytes` object with the same octets.  -> deviations, or None when inconclusive."""
    from ..fold import FuncVal, FoldRaise, is_unknown
    eng = ctx.eng
    F = eng.folder
    fn = eng.prog.func("util:to_bytes")
    problems: List[str] = []
    F.start_trace()
    for p in (b"", b"ab", bytearray(b"ab"), bytearray(), memoryview(b"ab"), memoryview(bytearray(b"cd")), "ab", 12):
        try:
            r = F.call(FuncVal(fn, None, None), [p], {})
        except FoldRaise:
            if isinstance(p, (bytearray, memoryview)):
                continue  # a refusal shares nothing
            return None
        if is_unknown(r):
            return None
        if isinstance(p, (bytearray, memoryview)):
            if r is p or type(r) is not bytes:
                problems.append(f"to_bytes({type(p).__name__}) hands back {'its argument' if r is p else 'a ' + type(r).__name__}")
    if F.one_sided():
        return None
    return sorted(set(problems))


def r19_13(ctx) -> None:
    """R19.13  `to_bytes` hands back its argument itself only when that is an (immutable) `bytes` object: everything else - text, numbers, and mutable
    octet buffers such as `bytearray` / `memoryview` - becomes a new `bytes` value.  Key material, header segments and thumbprint inputs that went through
    it cannot change under the library when the caller re-uses a buffer."""
    eng = ctx.eng
    fn = eng.prog.func("util:to_bytes")
    p_ = fn.pos_params[0]
    fi = _to_bytes_folded(ctx)
    if fi is not None:
        ctx.check(not fi, "R19.13", fn, fn.node, f"{fn.short} :: returns its argument", "to_bytes returns its argument itself for something that is not an immutable `bytes` object "
                  "(a bytearray handed in stays shared with the caller: what was imported can change afterwards): " + "; ".join(fi[:2]), "return x only under isinstance(x, bytes); bytes(x) otherwise",
                  construct="to_bytes identity return")
        ctx.count("R19.13", 1, 1, "returns of the argument itself in to_bytes")
        return
    cfg = cfg_of(fn)
    n = 0
    for r in cfg.returns():
        v = r.ast.value  # type: ignore[union-attr]
        if not (isinstance(v, ast.Name) and v.id == p_):
            continue
        n += 1
        tests = [t for t in cfg.nodes if t.kind == "test" and isinstance(t.ast, ast.Call) and isinstance(t.ast.func, ast.Name) and t.ast.func.id == "isinstance" and len(t.ast.args) == 2
                 and norm(t.ast.args[0]) == p_ and norm(t.ast.args[1]) in ("bytes", "(bytes,)")
                 and r not in cfg.reachable(cfg.entry, edge_filter=lambda a, b, lab, _t=t: not (a is _t and lab == "true"))]
        ctx.check(bool(tests), "R19.13", fn, r.ast, f"{fn.short} :: returns its argument", "to_bytes returns its argument itself for something that is not known to be an immutable `bytes` object "
                  "(a bytearray handed in stays shared with the caller: what was imported can change afterwards)", "return x only under isinstance(x, bytes); bytes(x) otherwise",
                  construct="to_bytes identity return")
    ctx.count("R19.13", n, 1, "returns of the argument itself in to_bytes")


def r19_4_5(ctx) -> None:
    eng = ctx.eng
    P = eng.prog
    from .c05 import _resolve_local
    import re as _re
    i2b = P.func("util:int_to_base64")
    cfg = cfg_of(i2b)
    np_ = i2b.pos_params[0]
    guard = [t for t in cfg.nodes if t.kind == "test" and isinstance(t.ast, ast.Compare) and norm(t.ast.left) == np_ and isinstance(t.ast.ops[0], ast.Lt) and const_value(t.ast.comparators[0]) == 0]
    guard += [t for t in cfg.nodes if t.kind == "test" and isinstance(t.ast, ast.Compare) and norm(t.ast.comparators[0]) == np_ and isinstance(t.ast.ops[0], ast.Gt) and const_value(t.ast.left) == 0]
    tb = [n for n in fn_nodes(i2b) if isinstance(n, ast.Call) and isinstance(n.func, ast.Attribute) and n.func.attr == "to_bytes" and norm(n.func.value) == np_]
    ok = bool(guard) and not can_reach_exit(cfg, succ_by_label(cfg, guard[0], "true")) and bool(tb) and cfg.node_of(tb[0]) is not None and cfg.dominates(guard[0], cfg.node_of(tb[0]))
    if ok:
        x = tb[0]
        L = _resolve_local(eng, i2b, x.args[0]).replace(" ", "") if x.args else ""
        signed = [k.value for k in x.keywords if k.arg == "signed"]
        ok = L in (f"({np_}.bit_length()+7)//8", f"-(-{np_}.bit_length()//8)") and len(x.args) >= 2 and const_value(x.args[1]) == "big" and (not signed or is_const(signed[0], False))
    rets = [_resolve_local(eng, i2b, r.value) for r in fn_nodes(i2b) if isinstance(r, ast.Return) and r.value is not None]
    ok = ok and len(rets) == 1 and rets[0].startswith(f"urlsafe_b64encode({np_}.to_bytes(")
    fi = _i2b_folded(ctx)
    if fi is not None:
        ctx.check(not fi, "R19.4", i2b, i2b.node, i2b.short, "int_to_base64 does not refuse negatives before encoding the minimal unsigned big-endian form: " + "; ".join(fi[:2]),
                  "raise if num < 0; to_bytes(ceil(bit_length/8), 'big'); urlsafe_b64encode", construct="int_to_base64")
    else:
        ctx.check(ok, "R19.4", i2b, i2b.node, i2b.short, "int_to_base64 does not refuse negatives before encoding the minimal unsigned big-endian form", "raise if num < 0; to_bytes(ceil(bit_length/8), 'big'); urlsafe_b64encode",
                  construct="int_to_base64")
    b2i = P.func("util:base64_to_int")
    sp = b2i.pos_params[0]
    D = f"urlsafe_b64decode(to_bytes({sp}))"
    rets = [_resolve_local(eng, b2i, r.value) for r in fn_nodes(b2i) if isinstance(r, ast.Return) and r.value is not None]
    okb = len(rets) == 1
    if okb:
        t = rets[0]
        okb = t in tuple(f"int.from_bytes({D}, {bo}'big'{sg})" for bo in ("", "byteorder=") for sg in ("", ", signed=False")) or _is_int_of_hex(t, D)
    ctx.check(okb, "R19.4", b2i, b2i.node, b2i.short, "base64_to_int is not the unsigned big-endian decoder of the strict base64url decoding", "int(hex of urlsafe_b64decode(s), 16)",
              construct="base64_to_int")
    # R19.5
    jd = P.func("util:json_b64decode")
    calls = [s for s in eng.cg.calls_in(jd) if isinstance(s.node, ast.Call)]
    has_loads = any(any(x == "json.loads" for x in s.ext) for s in calls)
    has_dec = any(any(c.short == "util:urlsafe_b64decode" for c in s.callees) for s in calls)
    loads = [s for s in calls if any(x == "json.loads" for x in s.ext)]
    from .c05 import _resolve_local
    okj = has_loads and has_dec and all(_resolve_local(eng, jd, s.node.args[0]).startswith("urlsafe_b64decode(") for s in loads)
    ctx.check(okj, "R19.5", jd, jd.node, jd.short, "json_b64decode is not json.loads applied to the strict base64url decoding", "json.loads(urlsafe_b64decode(to_bytes(text, 'ascii')))",
              construct="json_b64decode")
    # "JSON header encoding followed by decoding returns an equal object": every header decoder is json_b64decode, and its json.loads has no
    # object_hook / object_pairs_hook / parse_* argument (a hook sees nested objects too and changes or refuses what is a valid header)
    n_loads = 0
    for fn in P.all_functions():
        for s_ in eng.cg.calls_in(fn):
            if isinstance(s_.node, ast.Call) and any(x == "json.loads" for x in s_.ext) and fn.module.short in ("util", "rfc7515.compact", "rfc7515.json", "rfc7516.compact", "rfc7516.json",
                                                                                                             "rfc7797.compact", "rfc7797.json"):
                n_loads += 1
                extra = sorted(k.arg or "**" for k in s_.node.keywords)
                ctx.check(not extra and len(s_.node.args) == 1, "R19.5", fn, s_.node, f"{fn.short} :: {norm(s_.node)[:50]}", f"a header / token JSON decoder calls json.loads with {extra}: "
                          "decoding no longer returns the object that was encoded", "json.loads(data)", construct=f"json.loads hooks in {fn.short}")
    ctx.count("R19.5/loads", n_loads, 1, "json.loads calls in the codec and serialization modules")
    # who may parse JSON: header decoding has one implementation - apart from json_b64decode only the JWT claims decoder calls json.loads
    callers = sorted({fn.short for fn in P.all_functions() for s_ in eng.cg.calls_in(fn) if any(x in ("json.loads", "json.load", "json.JSONDecoder.decode") for x in s_.ext)})
    allowed = {"util:json_b64decode", "jwt:decode"}
    ctx.check(set(callers) <= allowed and "util:json_b64decode" in callers, "R19.5", None, None, "json.loads callers", f"JSON is parsed outside the one header decoder: {sorted(set(callers) - allowed)}",
              f"only {sorted(allowed)}", construct=f"JSON parsed in {sorted(set(callers) - allowed)}")
    je = P.func("util:json_b64encode")
    dumps = [n for n in fn_nodes(je) if isinstance(n, ast.Call) and norm(n.func) == "json.dumps"]
    oke = len(dumps) == 1
    if oke:
        kw = {k.arg: k.value for k in dumps[0].keywords}
        sep = kw.get("separators")
        oke = isinstance(sep, ast.Tuple) and [const_value(e) for e in sep.elts] == [",", ":"]
        # the text is then encoded as ASCII: non-ASCII members must be escaped by the serializer
        ea = kw.get("ensure_ascii")
        enc_ascii = any(isinstance(n, ast.Call) and norm(n.func) == "to_bytes" and len(n.args) >= 2 and const_value(n.args[1]) == "ascii" for n in fn_nodes(je))
        if enc_ascii:
            oke = oke and (ea is None or is_const(ea, True))
    ctx.check(oke, "R19.5", je, je.node, je.short, "json_b64encode does not use compact separators", "separators=(',', ':')", construct="json_b64encode separators")
    # to_bytes is the single text->octets conversion; it must encode strictly
    tb_ = P.func("util:to_bytes")
    d = tb_.param_default("errors")
    ctx.check(const_value(d) == "strict" and const_value(tb_.param_default("charset")) == "utf-8", "R19.5", tb_, tb_.node, tb_.short, "to_bytes does not default to strict UTF-8", "utf-8 / strict",
              construct="to_bytes defaults")
    encs = [n_ for n_ in fn_nodes(tb_) if isinstance(n_, ast.Call) and isinstance(n_.func, ast.Attribute) and n_.func.attr == "encode"]
    ctx.check(bool(encs) and all([norm(a) for a in n_.args] + [f"{k.arg}={norm(k.value)}" for k in n_.keywords] in (["charset", "errors"], ["charset", "errors=errors"], ["encoding=charset", "errors=errors"])
                                 for n_ in encs), "R19.5", tb_, tb_.node, f"{tb_.short} :: encode", "to_bytes does not encode with (charset, errors) in that order: an unknown error-handler name "
              "turns an encoding failure into LookupError", "x.encode(charset, errors)", construct="to_bytes encode arguments")


def _is_int_of_hex(text: str, D: str) -> bool:
    """`int(<lower-case hex of the octets D>, 16)`: hexlify(D), D.hex(), or ''.join of a two-digit hex format of every octet of D (iterated directly or
    through struct.unpack('<n>B', D)), with %-formatting, an f-string, format() or str.format"""
    try:
        e = ast.parse(text, mode="eval").body
    except SyntaxError:
        return False
    if not (isinstance(e, ast.Call) and norm(e.func) == "int" and len(e.args) == 2 and const_value(e.args[1]) == 16):
        return False
    h = e.args[0]
    if norm(h) in (f"binascii.hexlify({D})", f"{D}.hex()", f"hexlify({D})"):
        return True
    if not (isinstance(h, ast.Call) and isinstance(h.func, ast.Attribute) and h.func.attr == "join" and const_value(h.func.value) == "" and len(h.args) == 1
            and isinstance(h.args[0], (ast.ListComp, ast.GeneratorExp)) and len(h.args[0].generators) == 1 and not h.args[0].generators[0].ifs):
        return False
    g = h.args[0].generators[0]
    if not isinstance(g.target, ast.Name):
        return False
    b = g.target.id
    it = norm(g.iter)
    its = (D, f"struct.unpack('%sB' % len({D}), {D})", f"struct.unpack(f'{{len({D})}}B', {D})", f"struct.unpack('%dB' % len({D}), {D})", f"struct.unpack('{{}}B'.format(len({D})), {D})",
           f"bytearray({D})", f"list({D})")
    if it not in its:
        return False
    elt = norm(h.args[0].elt)
    return elt in (f"'%02x' % {b}", f"f'{{{b}:02x}}'", f"format({b}, '02x')", f"'{{:02x}}'.format({b})", f"'%02x' % ({b},)")


# pyca number constructors: slot (positional index / keyword) -> JWK member (RFC 7518 6.2 / 6.3)
NUMBER_SLOTS = {
    "RSAPublicNumbers": (["e", "n"], {"e": "e", "n": "n"}),
    "RSAPrivateNumbers": (["p", "q", "d", "dmp1", "dmq1", "iqmp", "public_numbers"], {"p": "p", "q": "q", "d": "d", "dmp1": "dp", "dmq1": "dq", "iqmp": "qi"}),
    "EllipticCurvePublicNumbers": (["x", "y", "curve"], {"x": "x", "y": "y"}),
    "EllipticCurvePrivateNumbers": (["private_value", "public_numbers"], {"private_value": "d"}),
}
MANDATORY_SLOTS = {("RSAPublicNumbers", "e"), ("RSAPublicNumbers", "n"), ("EllipticCurvePublicNumbers", "x"), ("EllipticCurvePublicNumbers", "y"),
                   ("EllipticCurvePrivateNumbers", "private_value"), ("RSAPrivateNumbers", "d")}


def r19_8(ctx) -> None:
    """R19.8  "positive integers in JWKs round-trip exactly": every integer that a JWK import hands to a pyca number constructor is
    base64_to_int(obj["<the member of that slot>"]) - the decoder of R19.2, applied to the right member, with nothing in between
    (no look-up table of "well known" encodings, no other decoder, no swapped member)."""
    eng = ctx.eng
    from .common import resolve_all
    n = 0
    for fn in eng.prog.all_functions():
        if fn.name not in ("import_private_key", "import_public_key") or fn.cls is None:
            continue
        op = fn.pos_params[-1]
        # the two locals that receive the recovered prime factors, whatever they are called: `P, Q = rsa_recover_prime_factors(...)`
        PN, QN = "p", "q"
        for st in fn_nodes(fn):
            if isinstance(st, ast.Assign) and len(st.targets) == 1 and isinstance(st.targets[0], ast.Tuple) and len(st.targets[0].elts) == 2 \
                    and all(isinstance(x, ast.Name) for x in st.targets[0].elts) and isinstance(st.value, ast.Call) and norm(st.value.func).endswith("rsa_recover_prime_factors"):
                PN, QN = st.targets[0].elts[0].id, st.targets[0].elts[1].id
        for node in fn_nodes(fn):
            if not (isinstance(node, ast.Call) and isinstance(node.func, ast.Name) and node.func.id in NUMBER_SLOTS):
                continue
            order, member = NUMBER_SLOTS[node.func.id]
            given = [(order[i], a) for i, a in enumerate(node.args) if i < len(order)] + [(kw.arg, kw.value) for kw in node.keywords if kw.arg]
            for slot, a in given:
                if slot not in member:
                    continue
                texts = resolve_all(eng, fn, a)
                want = f"base64_to_int({op}['{member[slot]}'])"
                direct = any(_reads_member_directly(t, op) for t in texts)
                if not direct and (node.func.id, slot) not in MANDATORY_SLOTS:
                    # computed from other numbers (CRT parameters recovered from n, e, d): pyca's helpers with their arguments in the documented order
                    dd = f"base64_to_int({op}['d'])"
                    comp = {"dmp1": f"rsa_crt_dmp1({dd}, {PN})", "dmq1": f"rsa_crt_dmq1({dd}, {QN})", "iqmp": f"rsa_crt_iqmp({PN}, {QN})", "p": PN, "q": QN}
                    n += 1
                    ctx.check(texts == [comp.get(slot, "?")], "R19.8", fn, node, f"{fn.short} :: {node.func.id}.{slot} (computed)", f"the recovered CRT value for {slot} is {texts}, "
                              f"not {comp.get(slot)}", comp.get(slot, ""), construct=f"computed {node.func.id}.{slot} in {fn.short}")
                    continue
                n += 1
                ctx.check(texts == [want], "R19.8", fn, node, f"{fn.short} :: {node.func.id}.{slot}", f"the integer given to {node.func.id}({slot}=...) is {texts}, not "
                          f"{want}: the JWK member does not reach the key as the number it encodes", want, construct=f"{node.func.id}.{slot} in {fn.short}")
    # p, q of the recovery branch come from rsa_recover_prime_factors(n, d, e) of the public numbers built above
    for fn in eng.prog.all_functions():
        if fn.name != "import_private_key" or fn.cls is None:
            continue
        op = fn.pos_params[-1]
        for node in fn_nodes(fn):
            if isinstance(node, ast.Call) and isinstance(node.func, ast.Name) and node.func.id == "rsa_recover_prime_factors":
                n += 1
                got = [t_ for a in node.args for t_ in resolve_all(eng, fn, a)]
                pub = f"RSAPublicNumbers(base64_to_int({op}['e']), base64_to_int({op}['n']))"
                want = [f"{pub}.n", f"base64_to_int({op}['d'])", f"{pub}.e"]
                ctx.check(got == want, "R19.8", fn, node, f"{fn.short} :: rsa_recover_prime_factors", f"the prime factors are recovered from {got}, not from (n, d, e)", "rsa_recover_prime_factors(n, d, e)",
                          construct=f"rsa_recover_prime_factors arguments in {fn.short}")
    ctx.count("R19.8", n, 20, "integers handed from a JWK to a pyca number constructor")


def _reads_member_directly(text: str, op: str) -> bool:
    """`f(obj['m'])`, `TABLE[obj['m']]`, `T.get(obj['m'], ...)` or `obj['m']` itself: one step from the JWK member to the number"""
    try:
        e = ast.parse(text, mode="eval").body
    except SyntaxError:
        return False

    def member(x: ast.AST) -> bool:
        return isinstance(x, ast.Subscript) and isinstance(x.value, ast.Name) and x.value.id == op

    if member(e):
        return True
    if isinstance(e, ast.Call):
        return any(member(a) for a in e.args) or any(member(k.value) for k in e.keywords)
    if isinstance(e, ast.Subscript):
        return member(e.slice)
    if isinstance(e, (ast.IfExp, ast.BoolOp, ast.BinOp)):
        return any(member(x) or (isinstance(x, ast.Call) and any(member(a) for a in x.args)) for x in ast.walk(e))
    return False


def r19_10(ctx) -> None:
    """R19.10  "ValueError for any character outside the alphabet other than trailing =": the octet-string members of a JWK (oct k, OKP x / d) reach
    the strict decoder exactly as they were given - `urlsafe_b64decode(to_bytes(obj[member]))`, nothing stripped, replaced or re-encoded in between
    (a `.strip(b"=")` also removes LEADING padding characters, `.replace` / `.translate` admit a second alphabet)."""
    from .common import resolve_all
    eng = ctx.eng
    dec = eng.prog.func("util:urlsafe_b64decode")
    n = 0
    for fn in eng.prog.all_functions():
        if fn.cls is None or not fn.name.startswith("import_") or not fn.module.short.startswith(("rfc7518.oct_key", "rfc8037.okp_key", "rfc7518.ec_key", "rfc7518.rsa_key")):
            continue
        op = fn.pos_params[-1] if fn.pos_params else None
        for s_ in eng.cg.calls_in(fn):
            if not (isinstance(s_.node, ast.Call) and dec in s_.callees and s_.node.args):
                continue
            n += 1
            texts = resolve_all(eng, fn, s_.node.args[0])
            import re as _re
            ok = bool(texts) and all(_re.fullmatch(r"to_bytes\(" + _re.escape(op or "") + r"\['[A-Za-z0-9_]+'\](, '(ascii|utf-8)')?\)", t_) for t_ in texts)
            ctx.check(ok, "R19.10", fn, s_.node, f"{fn.short} :: {norm(s_.node)[:50]}", f"the JWK member is not handed to the strict base64url decoder as it was given: {texts}",
                      f"urlsafe_b64decode(to_bytes({op}[member]))", construct=f"decoder input in {fn.short}")
    ctx.count("R19.10", n, 3, "octet-string JWK members decoded on import")


def run(ctx) -> None:
    ctx.guard(r19_10)
    from .common import octet_length_lint as _oll
    ctx.guard(_oll, "R19.9")  # integers round-trip exactly: bit sizes become octets by (bits + 7) // 8
    ctx.guard(r19_8)
    from .common import forwarding_discipline
    ctx.guard(forwarding_discipline, "R19.7", ['s', 'data'], 4)  # arguments are handed on under their own name (generic routing rule, rules/common.py)
    ctx.guard(r19_13)
    ctx.guard(r19_1)
    ctx.guard(r19_2_3)
    ctx.guard(r19_4_5)
    from .c11 import r11_2
    from .c07 import r07_2 as _r07_2
    ctx.guard_as("R19.12", _r07_2)  # "JSON header encoding followed by decoding returns an equal object": what is encoded as the protected header IS the protected header given
    from .c11 import r11_3 as _r11_3
    ctx.guard_as("R19.11", _r11_3)  # "integers in JWKs ... round-trip exactly": EC x / y / d are written with the curve's coordinate length (leading zero octets kept)
    ctx.guard_as("R19.6", r11_2)  # RSA integers are exported through the minimal-length codec
    from .c08 import r08_4 as _r08_4
    ctx.guard_as("R19.14", _r08_4)  # "decoding is strict": the apu / apv header values reach the Concat KDF through the strict base64url decoder in every key management mode
    ctx.note("undecided remainder: decode(encode(x)) == x and rejection of every non-alphabet character / impossible length for *all* octet strings is a property of "
             "CPython's binascii C code - outside the analysed source")
    ctx.assume("base64.b64decode(validate=True) rejects non-alphabet characters and impossible lengths (non-canonical trailing bits are accepted by CPython)")
