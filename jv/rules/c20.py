"""C20 - calls sharing keys, key sets, registries and algorithm objects are independent and thread-safe
(decided as effect-freedom: if no operation writes library-owned shared state, no schedule or history can make one
call observe another).

R20.1 no operation-reachable store into a shared object (models, registries, keys, key sets, bindings, module/class state)
R20.2 algorithm models are stateless; their attributes hold constants / immutable configuration only
R20.3 cryptographic contexts are bound to locals of the activation only
R20.6 memoised functions / properties are exactly the three whitelisted public_key caches
R20.4 no lost-update pair (a rebinding site and an in-place mutation site of the same shared field)
R20.5 no global/nonlocal writes, no mutable default arguments
"""
from __future__ import annotations
import ast
from typing import Dict, List, Optional, Set, Tuple

from ..program import AnalysisError, ClassInfo, FunctionInfo, fn_nodes, norm
from ..effects import Effect, Effects, Root
from ..fold import ExtVal, FuncVal, Inst, Unknown, ClassVal
from .common import scope_of

SHARED_ROOTS = ["rfc7515.model:JWSAlgModel", "rfc7516.models:JWEEncModel", "rfc7516.models:JWEZipModel",
                "rfc7516.models:KeyManagement", "rfc7515.registry:JWSRegistry", "rfc7516.registry:JWERegistry",
                "rfc7517.models:BaseKey", "_keys:KeySet", "_keys:JWKRegistry", "rfc7517.models:NativeKeyBinding"]
MODEL_ROOTS = SHARED_ROOTS[:4]

# one symbol and one reason each
WHITELIST = {
    ("rfc7517.models:BaseKey.dict_value", "_dict_value"): "W1 idempotent lazy JWK view of an immutable native key (filled from raw_value; every thread computes the same members)",
    ("rfc7517.models:BaseKey.ensure_kid", "_dict_value"): "W2 documented lazy assignment of the thumbprint kid, guarded by absence",
}
CONTEXT_CTORS = ("hmac.new", "hashlib.new", "ciphers.Cipher", "Cipher.encryptor", "Cipher.decryptor", ".encryptor", ".decryptor", "PBKDF2HMAC",
                 "ConcatKDFHash", ".padder", ".unpadder", "zlib.decompressobj", "zlib.compressobj", "ChaCha20_Poly1305.new",
                 "hashes.Hash", "hmac.HMAC")
IMMUTABLE_EXT = ("cryptography.hazmat.primitives.asymmetric.padding.", "cryptography.hazmat.primitives.hashes.", "hashlib.sha",
                 "cryptography.hazmat.primitives.asymmetric.ec.")


def shared_classes(eng) -> Set[ClassInfo]:
    out: Set[ClassInfo] = set()
    for r in SHARED_ROOTS:
        c = eng.prog.cls(r)
        out.add(c)
        out.update(c.all_subclasses())
    # closure: an object that a shared object keeps in a field (self.x = K(...)), or that lives at module / class level (X = K(...)), is shared too
    changed = True
    while changed:
        changed = False
        for fn in eng.prog.all_functions():
            owner_shared = fn.cls is not None and fn.cls in out
            top = fn.name == "<module>"
            if not (owner_shared or top):
                continue
            for s_ in eng.cg.calls_in(fn):
                if s_.kind != "ctor" or not isinstance(s_.node, ast.Call):
                    continue
                par = eng.prog.parent(s_.node)
                kept = False
                if isinstance(par, (ast.Assign, ast.AnnAssign)):
                    tg = par.targets if isinstance(par, ast.Assign) else [par.target]
                    if top and any(isinstance(t_, ast.Name) for t_ in tg):
                        kept = True
                    if owner_shared and any(isinstance(t_, ast.Attribute) and isinstance(t_.value, ast.Name) and t_.value.id in (fn.self_name, "cls") for t_ in tg):
                        kept = True
                if not kept:
                    continue
                for k in s_.callees:
                    if k.cls is not None and k.cls not in out and not any(b.name in ("Exception", "JoseError") for b in k.cls.mro):
                        out.add(k.cls)
                        out.update(k.cls.all_subclasses())
                        changed = True
    return out


def op_scope(eng) -> List[FunctionInfo]:
    seen: List[FunctionInfo] = []
    for e in eng.operation_entries():
        for f in scope_of(eng, e):
            if f not in seen:
                seen.append(f)
    # key / key-set / claims API used alongside operations
    extra = []
    P = eng.prog
    for cname, meths in (("rfc7517.models:BaseKey", ("as_dict", "thumbprint", "ensure_kid", "check_use", "check_alg", "get_op_key", "kid", "alg", "keys", "get")),
                         ("_keys:KeySet", ("as_dict", "get_by_kid", "pick_random_key", "__iter__", "__bool__")),
                         ("rfc7517.models:AsymmetricKey", ("as_bytes", "as_pem", "as_der"))):
        c = P.cls(cname)
        for m in meths:
            for f in eng.prog.implementations(c, m):
                extra.append(f)
    for f in eng.cg.reachable(extra):
        if f not in seen:
            seen.append(f)
    return seen


def _is_shared_effect(eng, ef: Effect, shared: Set[ClassInfo]) -> Tuple[bool, str]:
    fn = ef.fn
    # constructors initialising their own fresh instance
    if fn.name == "__init__" and fn.cls is not None:
        if all(r.kind == "self" or r.kind == "fresh" for r in ef.roots) and any(r.kind == "self" for r in ef.roots):
            return False, "constructor on its own fresh self"
    reasons = []
    for r in ef.roots:
        if r.kind == "global":
            reasons.append(f"module/class-level object {r.name}")
        elif r.kind in ("self", "cls") and any(c in shared for c in r.classes):
            reasons.append(f"{r.kind} of shared class {r.classes[0].name}" + ("" if not r.via else " via ." + ".".join(r.via)))
        elif r.kind in ("param", "closure") and any(c in shared for c in r.classes):
            reasons.append(f"parameter {r.name.rsplit('.', 1)[-1]} of shared class {'/'.join(c.name for c in r.classes if c in shared)}")
    if any(c in shared for c in ef.owner_classes) and not all(r.kind == "fresh" for r in ef.roots):
        if not reasons:
            reasons.append(f"object of shared class {'/'.join(c.name for c in ef.owner_classes if c in shared)}")
    if reasons:
        return True, "; ".join(sorted(set(reasons)))
    return False, ""


# ----------------------------------------------------------------------------------------------- R20.1
def key_class_functions(eng) -> Set[FunctionInfo]:
    """methods of the key classes and their native bindings (used when a sibling property runs R20.1 as a clause about keys)"""
    P = eng.prog
    out: Set[FunctionInfo] = set()
    for base in ("rfc7517.models:BaseKey", "rfc7517.models:NativeKeyBinding", "_keys:KeySet"):
        c = P.cls(base)
        for k in [c] + c.all_subclasses():
            out.update(k.methods.values())
    return out


def r20_1(ctx, fx: Effects, only: Optional[Set[FunctionInfo]] = None) -> None:
    eng = ctx.eng
    shared = shared_classes(eng)
    scope = op_scope(eng)
    if only is not None:
        scope = [f for f in scope if f in only]
    ctx.extra["operation_reachable_functions"] = len(scope)
    n = 0
    unknown_roots = 0
    for fn in scope:
        if fn.name == "<module>":
            continue
        for ef in fx.of(fn):
            n += 1
            if any(r.kind == "unknown" for r in ef.roots):
                unknown_roots += 1
            is_sh, why = _is_shared_effect(eng, ef, shared)
            inst = f"{fn.short} :: {norm(ef.node)[:60]}"
            if not is_sh:
                ctx.ok("R20.1", inst, "mutates " + ", ".join(sorted({repr(r) for r in ef.roots}))[:100], nontrivial=len(ef.roots) > 1)
                continue
            fields = {r.via[0] for r in ef.roots if r.via} or {ef.field}
            w = WHITELIST.get((fn.short, sorted(fields)[0])) if len(fields) == 1 else None
            if w is not None:
                ctx.ok("R20.1", inst, "whitelisted: " + w)
                continue
            ctx.fail("R20.1", fn, ef.node, f"an operation-reachable statement writes shared state ({why}): a later or concurrent call can observe it")
    ctx.count("R20.1", n, 110 if only is None else 10, "stores in operation-reachable functions")
    ctx.extra["effects_with_unknown_root"] = unknown_roots
    # mutating calls into shared objects through repo methods are covered because the callee's own effects are in scope
    # closures must not capture-and-mutate
    for fn in scope:
        for node in fn_nodes(fn):
            if isinstance(node, (ast.Global, ast.Nonlocal)):
                ctx.fail("R20.5", fn, node, "global / nonlocal write in operation-reachable code")


# ----------------------------------------------------------------------------------------------- R20.2
def r20_2(ctx, fx: Effects, family: Optional[str] = None) -> None:
    eng = ctx.eng
    P = eng.prog
    F = eng.folder
    models: Set[ClassInfo] = set()
    for r in MODEL_ROOTS:
        c = P.cls(r)
        models.add(c)
        models.update(c.all_subclasses())
    if family is not None:
        # borrowed as a clause of a JWS-only / JWE-only property: the models of the other family are not its business
        from .common import in_family
        models = {c for c in models if not c.methods or any(in_family(m_, family) for m_ in c.methods.values())}
    n = 0
    for c in sorted(models, key=lambda x: x.qualname):
        for m in c.methods.values():
            if m.name == "__init__":
                continue
            for ef in fx.of(m):
                if any(r.kind in ("self", "cls") and not r.via for r in ef.roots) or \
                        any(r.kind in ("self", "cls") for r in ef.roots):
                    n += 1
                    ctx.fail("R20.2", m, ef.node, "an algorithm model method stores on the shared model object (models are singletons used by every call)")
            if m.is_cached:
                ctx.fail("R20.2", m, m.node, "cached method/property on a shared algorithm model", construct="cache decorator on " + m.short)
            n += 1
    ctx.count("R20.2/methods", n, 60 if family is None else 20, "model methods scanned")
    # attributes of every registered / draft model instance
    insts: List[Inst] = []
    jws = F.class_attr(P.cls("rfc7515.registry:JWSRegistry"), "algorithms")
    jwe = F.class_attr(P.cls("rfc7516.registry:JWERegistry"), "algorithms")
    if isinstance(jws, dict):
        insts.extend(v for v in jws.values() if isinstance(v, Inst))
    if isinstance(jwe, dict):
        for loc in jwe.values():
            insts.extend(v for v in loc.values() if isinstance(v, Inst))
    for modname, var in (("drafts.jwe_ecdh_1pu", "JWE_ALG_MODELS"), ("drafts.jwe_chacha20", "JWE_ENC_MODELS")):
        v = F.module_value(P.mod(modname), var)
        if isinstance(v, list):
            insts.extend(x for x in v if isinstance(x, Inst))
    if family is not None:
        insts = [i_ for i_ in insts if i_.cls in models]
    ctx.count("R20.2/instances", len(insts), 45 if family is None else 10, "model instances")
    for inst in insts:
        bad = []
        for k, v in inst.attrs.items():
            if not _immutable_config(v):
                bad.append((k, repr(v)[:60]))
        ctx.check(not bad, "R20.2", None, None, f"{inst!r} attributes", f"model {inst!r} holds mutable / stateful attributes {bad}",
                  "constants, other models and immutable configuration objects only", construct=f"attributes of {inst!r}")
    # class-level attributes of model classes
    for c in sorted(models, key=lambda x: x.qualname):
        for a, e in c.class_attrs.items():
            v = F.class_attr(c, a)
            if isinstance(v, dict):
                # header parameter tables: read-only by R20.1 (no store reaches them)
                continue
            ok = _immutable_config(v) or isinstance(v, list) and all(isinstance(x, str) for x in v)
            ctx.check(ok, "R20.2", None, None, f"{c.name}.{a}", f"class attribute {c.name}.{a} holds a stateful object {repr(v)[:60]}",
                      "constant / immutable configuration", construct=f"class attribute {c.name}.{a}")


def _immutable_config(v) -> bool:
    if v is None or isinstance(v, (str, int, bool, bytes, float, tuple, frozenset)):
        return True
    if isinstance(v, Inst):
        return True  # another model / parameter description (checked on its own)
    if isinstance(v, (FuncVal, ClassVal)):
        return True
    if isinstance(v, ExtVal):
        nm = v.name
        if nm.startswith("ext:"):
            nm = nm[4:]
        return any(nm.startswith(p) for p in IMMUTABLE_EXT)
    return False


# ----------------------------------------------------------------------------------------------- R20.3
def r20_3(ctx) -> None:
    eng = ctx.eng
    P = eng.prog
    n = 0
    for fn in P.all_functions():
        for s in eng.cg.calls_in(fn):
            if not isinstance(s.node, ast.Call) or s.callees:
                continue
            name = (s.ext or ["?"])[0]
            if not any(name.endswith(x) or (x.startswith(".") and name.endswith(x)) for x in CONTEXT_CTORS):
                continue
            n += 1
            inst = f"{fn.short} :: {norm(s.node)[:50]}"
            if fn.name == "<module>":
                ctx.fail("R20.3", fn, s.node, "a stateful cryptographic context is created at import time (shared by every call)")
                continue
            # where does the value go
            par = P.parent(s.node)
            up = s.node
            while isinstance(par, (ast.Attribute, ast.Call)) and (getattr(par, "value", None) is up or getattr(par, "func", None) is up or up in getattr(par, "args", [])):
                # x.new(...).digest(), Cipher(AES(..)).. : consumed inline
                up, par = par, P.parent(par)
                if isinstance(up, ast.Call) and not isinstance(par, (ast.Attribute,)):
                    break
            bad = None
            if isinstance(par, (ast.Assign, ast.AnnAssign)):
                targets = par.targets if isinstance(par, ast.Assign) else [par.target]
                for t in targets:
                    if not isinstance(t, ast.Name):
                        bad = f"stored to {norm(t)}"
            if isinstance(par, ast.keyword) or isinstance(par, ast.Return):
                pass
            # default arguments / decorators are evaluated once
            own = P.owner(s.node)
            if own is not fn:
                bad = "evaluated outside the function body (default argument / decorator / class body)"
            ctx.check(bad is None, "R20.3", fn, s.node, inst, f"a stateful cryptographic context outlives the activation: {bad}",
                      "bound to a local / consumed inline")
    ctx.count("R20.3", n, 12, "context constructor calls")


# ----------------------------------------------------------------------------------------------- R20.4
def r20_4(ctx, fx: Effects) -> None:
    eng = ctx.eng
    shared = shared_classes(eng)
    scope = set(op_scope(eng))
    rebind: Dict[Tuple[str, str], List[Effect]] = {}
    inplace: Dict[Tuple[str, str], List[Effect]] = {}
    for fn in scope:
        if fn.name == "<module>":
            continue
        for ef in fx.of(fn):
            for r in ef.roots:
                if r.kind != "self" or not any(c in shared for c in r.classes):
                    continue
                cname = _root_class(r, shared)
                if ef.kind == "attr-set" and not r.via and fn.name != "__init__":
                    rebind.setdefault((cname, ef.field), []).append(ef)
                elif r.via and ef.kind in ("sub-set", "mut-call", "aug", "del"):
                    inplace.setdefault((cname, r.via[0]), []).append(ef)
    n = 0
    for key, rb in sorted(rebind.items()):
        ip = inplace.get(key, [])
        n += 1
        if ip:
            for e1 in rb:
                ctx.fail("R20.4", e1.fn, e1.node, f"lost update: field {key[1]} of shared class {key[0]} is rebound here while "
                         f"{', '.join(sorted({x.fn.short for x in ip}))} mutate(s) its referent in place; a concurrently computed value can "
                         "overwrite the object that just received the in-place update", construct=f"rebind {key[0]}.{key[1]} vs in-place update")
        else:
            ctx.ok("R20.4", f"{key[0]}.{key[1]}", "rebound only; no in-place mutation site")
    for key, ip in sorted(inplace.items()):
        if key not in rebind:
            n += 1
            ctx.ok("R20.4", f"{key[0]}.{key[1]}", "mutated in place only (no rebinding outside the constructor)")
    ctx.count("R20.4", n, 1, "shared fields written by operation-reachable code")


def _root_class(r: Root, shared) -> str:
    cs = [c for c in r.classes if c in shared]
    # normalise to the topmost shared base so that subclasses pair up
    c = cs[0]
    top = c
    for b in c.mro:
        if b in shared:
            top = b
    return top.name


# ----------------------------------------------------------------------------------------------- R20.5
def r20_5(ctx) -> None:
    eng = ctx.eng
    n = 0
    for fn in eng.prog.all_functions():
        if fn.name == "<module>" or isinstance(fn.node, ast.Lambda):
            continue
        a = fn.node.args
        for d in list(a.defaults) + [x for x in a.kw_defaults if x is not None]:
            n += 1
            if isinstance(d, (ast.List, ast.Dict, ast.Set, ast.ListComp, ast.DictComp, ast.SetComp)) or \
                    (isinstance(d, ast.Call) and not (isinstance(d.func, ast.Name) and d.func.id in ("frozenset", "tuple"))):
                ctx.fail("R20.5", fn, d, "mutable / call default argument: evaluated once and shared by every call")
        for node in fn_nodes(fn):
            if isinstance(node, (ast.Global, ast.Nonlocal)):
                ctx.fail("R20.5", fn, node, "global / nonlocal statement")
    ctx.ok("R20.5", "default arguments", f"{n} default values: no mutable display or call")
    ctx.count("R20.5", n, 120, "default argument values")


MEMO_WHITELIST = {
    "rfc7518.rsa_key:RSAKey.public_key": "idempotent cache of an immutable native public key derived from the key's own material (W3)",
    "rfc7518.ec_key:ECKey.public_key": "idempotent cache of an immutable native public key derived from the key's own material (W3)",
    "rfc8037.okp_key:OKPKey.public_key": "idempotent cache of an immutable native public key derived from the key's own material (W3)",
}


def r20_6(ctx, family: Optional[str] = None) -> None:
    """memoisation keeps a result object alive between calls: every cached function / cached property in the library is either on
    the whitelist (with its reason) or a violation - a cached mutable result (a decoded header dict) is shared by all callers, a
    cached view of mutable state (kid, alg) goes stale"""
    eng = ctx.eng
    n = 0
    for fn in eng.prog.all_functions():
        memo = [d for d in fn.decorators if d.split("(")[0].split(".")[-1] in ("cached_property", "lru_cache", "cache")]
        if not memo:
            continue
        if family is not None:
            from .common import in_family
            if not in_family(fn, family):
                continue
        n += 1
        w = MEMO_WHITELIST.get(fn.short)
        if w is not None:
            ctx.ok("R20.6", f"{fn.short} :: @{memo[0]}", "whitelisted: " + w)
        else:
            ctx.fail("R20.6", fn, fn.node, f"@{memo[0]} on {fn.short}: the memoised result is one object for every later call (shared if mutable, stale if it mirrors mutable state)",
                     construct=f"memoised {fn.short}")
    ctx.count("R20.6", n, 3, "memoised functions / properties")


def run(ctx) -> None:
    from .c11 import r11_22 as _r11_22
    ctx.guard(_r11_22, "R20.8")  # a failed call leaves no invalid state behind in a shared key (the lazily built JWK view is validated before it is stored)
    from .c13 import r13_4 as _r13_4
    ctx.guard_as("R20.7", _r13_4)  # a shared key's kid is written once: no later call replaces a kid that is present (the empty string included)
    fx = Effects(ctx.eng.prog, ctx.eng.cg)
    ctx.guard(r20_6)
    ctx.guard(r20_1, fx)
    ctx.guard(r20_2, fx)
    ctx.guard(r20_3)
    ctx.guard(r20_4, fx)
    ctx.guard(r20_5)
    ctx.assume("thread-safety inside pyca/OpenSSL objects held by a shared key")
    ctx.assume("each call is given its own header / claims / message objects (property statement)")
    ctx.note("cached_property public_key x3 on key classes is an idempotent cache of an immutable native key (W3)")
