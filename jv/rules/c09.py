"""C09 - JWT encode/decode is faithful and yields only JSON-object claims (structural clauses).

R09.1 claims are parsed only from the payload / plaintext of the object returned by the verified transport entry
R09.2 only JSON objects become claims     R09.3 parse failures map to InvalidPayloadError
R09.4 the caller's header is never mutated / handed to the transport     R09.5 typ default is overridable
R09.6 encode and decode select the transport with the same test          R09.7 NumericDate conversion of exp / iat / nbf
"""
from __future__ import annotations
import ast
from typing import List, Optional

from ..program import AnalysisError, FunctionInfo, fn_nodes, norm
from ..cfg import cfg_of
from ..effects import Effects
from .common import can_reach_exit, const_value, is_const, succ_by_label


def _loads_site(eng, dec: FunctionInfo):
    ss = [s for s in eng.cg.calls_in(dec) if isinstance(s.node, ast.Call) and any(x == "json.loads" for x in s.ext)]
    if len(ss) != 1:
        raise AnalysisError("jwt.decode: expected exactly one json.loads call")
    return ss[0]


def r09_1(ctx) -> None:
    eng = ctx.eng
    dec = eng.entry("jwt", "decode")
    s = _loads_site(eng, dec)
    a = s.node.args[0] if s.node.args else None
    if not isinstance(a, ast.Name):
        ctx.fail("R09.1", dec, s.node, "json.loads is not applied to a local holding the transport's payload")
        return
    # the octets parsed as claims are the payload of the object jws.deserialize_compact returned, or the plaintext of the object jwe.decrypt_compact
    # returned (integrity check first) - wherever in the jwt module that is written (helper functions or inline)
    from .common import resolve_all
    scope = [f for f in eng.cg.reachable([dec]) if f.module is dec.module]
    res = eng.flow.slice(dec, a, scope, [dec])
    want_fields = {"CompactSignature.payload", "CompactEncryption.plaintext"}
    okf = bool(res.fields) and set(res.fields) <= want_fields and not res.exploded
    ctx.check(okf, "R09.1", dec, s.node, f"{dec.short} :: source of the claims octets", f"the octets parsed as claims come from {sorted(res.fields) or 'no object field'}: not (only) the payload / "
              "plaintext of the verified / decrypted object", "obj.payload of deserialize_compact / obj.plaintext of decrypt_compact", construct="claims octets source")
    n = 0
    tr = {"payload": eng.entry("jws", "deserialize_compact"), "plaintext": eng.entry("jwe", "decrypt_compact")}
    for f in scope:
        for node in fn_nodes(f):
            if isinstance(node, ast.Attribute) and isinstance(node.ctx, ast.Load) and node.attr in tr and isinstance(node.value, ast.Name) and node.value.id not in f.params:
                n += 1
                defs = [d for k_, d, e_ in eng.flow._defs(f).get(node.value.id, []) if k_ == "assign" and isinstance(d, ast.Call)]
                good = bool(defs)
                for d in defs:
                    site = eng.cg.site_of.get(id(d))
                    if site is None or site.callees != [tr[node.attr]]:
                        good = False
                    else:
                        a0 = eng.cg.arg_for_param(site, tr[node.attr], "value")
                        if a0 is None or not any(("value" in t_) for t_ in resolve_all(eng, f, a0)):
                            good = False
                ctx.check(good, "R09.1", f, node, f"{f.short} :: {norm(node)}", f"`{norm(node)}` is read from an object that is not the result of "
                          f"{tr[node.attr].short}(<the token given to decode>, ...)", "object returned by the transport entry", construct=f"{node.attr} read in {f.short}")
    ctx.count("R09.1", n, 2, "payload / plaintext reads in the jwt module")
    # nothing else is parsed / returned: the Token is built from header+claims of these helpers only
    rets = cfg_of(dec).returns()
    for r in rets:
        v = r.ast.value
        ok = isinstance(v, ast.Call) and isinstance(v.func, ast.Name) and v.func.id == "Token" and len(v.args) == 2
        ctx.check(bool(ok), "R09.1", dec, r.ast, f"{dec.short} :: {norm(r.ast)}", "decode returns something other than Token(header, claims)", "Token(header, claims)")


def r09_2_3(ctx) -> None:
    eng = ctx.eng
    dec = eng.entry("jwt", "decode")
    cfg = cfg_of(dec)
    s = _loads_site(eng, dec)
    par = eng.prog.parent(s.node)
    tgt = par.targets[0] if isinstance(par, ast.Assign) else (par.target if isinstance(par, ast.AnnAssign) else None)
    if not isinstance(tgt, ast.Name):
        ctx.fail("R09.2", dec, s.node, "the parsed claims are not bound to a local")
        return
    var = tgt.id
    gates = []
    for t in cfg.nodes:
        if t.kind == "test" and isinstance(t.ast, ast.Call) and isinstance(t.ast.func, ast.Name) and t.ast.func.id == "isinstance" and len(t.ast.args) == 2 \
                and norm(t.ast.args[0]) == var and norm(t.ast.args[1]) == "dict":
            bad = succ_by_label(cfg, t, "false")
            if not can_reach_exit(cfg, bad) and _raises_only(cfg, bad, "InvalidPayloadError"):
                gates.append(t)
    for r in cfg.returns():
        ok = bool(gates) and cfg.must_pass(cfg.entry, r, gates)
        ctx.check(ok, "R09.2", dec, r.ast, f"{dec.short} :: {norm(r.ast)}", "a payload that is JSON but not an object (array, string, number, null) is returned as claims: "
                  "no isinstance(claims, dict) test with an InvalidPayloadError on its false edge dominates the return", "isinstance(claims, dict) gate dominates",
                  construct="return Token(header, claims)")
    # R09.3
    cur = eng.prog.parent(s.node)
    tr = None
    while cur is not None and not isinstance(cur, (ast.FunctionDef, ast.AsyncFunctionDef)):
        if isinstance(cur, ast.Try) and any(s.node is x for b in cur.body for x in ast.walk(b)):
            tr = cur
            break
        cur = eng.prog.parent(cur)
    ok = False
    if tr is not None:
        caught = set()
        allraise = True
        for h in tr.handlers:
            names = [norm(e) for e in (h.type.elts if isinstance(h.type, ast.Tuple) else [h.type])] if h.type is not None else ["Exception"]
            caught |= set(names)
            if not (h.body and isinstance(h.body[-1], ast.Raise) and h.body[-1].exc is not None and
                    norm(h.body[-1].exc.func if isinstance(h.body[-1].exc, ast.Call) else h.body[-1].exc) == "InvalidPayloadError"):
                allraise = False
        ok = allraise and (("ValueError" in caught and "TypeError" in caught) or "Exception" in caught)
    ctx.check(ok, "R09.3", dec, tr or s.node, f"{dec.short} :: json.loads handler", "a payload that is not JSON is not reported as InvalidPayloadError (handlers must cover ValueError and TypeError)",
              "except (TypeError, ValueError, …): raise InvalidPayloadError()", construct="json.loads error mapping")


def _raises_only(cfg, starts, name: str) -> bool:
    for s0 in starts:
        for n in cfg.reachable(s0):
            if n.kind == "stmt" and isinstance(n.ast, ast.Raise) and n.ast.exc is not None:
                nm = norm(n.ast.exc.func if isinstance(n.ast.exc, ast.Call) else n.ast.exc)
                if nm.split(".")[-1] != name:
                    return False
    return True


def r09_4_5(ctx) -> None:
    eng = ctx.eng
    enc = eng.entry("jwt", "encode")
    fx = Effects(eng.prog, eng.cg)
    hp = enc.pos_params[0]
    mp = fx.mutated_params(enc)
    ctx.check(hp not in mp, "R09.4", enc, enc.node, f"{enc.short} :: mutated parameters", f"jwt.encode (or a callee) stores into the caller's header object (mutated parameters: {sorted(mp)})",
              f"mutated parameters {sorted(mp)} exclude `{hp}`", construct="header parameter mutated")
    transports = [eng.entry("jws", "serialize_compact"), eng.entry("jwe", "encrypt_compact")]
    sites = [s for s in eng.cg.calls_in(enc) if isinstance(s.node, ast.Call) and any(c in transports for c in s.callees)]
    ctx.count("R09.4", len(sites), 2, "transport calls in jwt.encode")
    for s in sites:
        a0 = s.node.args[0] if s.node.args else None
        if a0 is None:
            ctx.fail("R09.4", enc, s.node, "transport called without a header argument")
            continue
        roots = fx.roots(enc, a0)
        fresh = all(r.kind == "fresh" for r in roots)
        ctx.check(fresh, "R09.4", enc, s.node, f"{enc.short} :: header given to {s.callees[0].short}", "the caller's own header object is handed to the transport (which records a kid in it "
                  f"when a key set is used): roots {roots}", "a fresh dict built in encode()", construct=f"header argument of {norm(s.node)[:40]}")
        # R09.5: the fresh dict gives the caller's members precedence over the typ default
        okt = False
        if isinstance(a0, ast.Name):
            for kind, dn, extra in eng.flow._defs(enc).get(a0.id, []):
                if kind == "assign" and isinstance(dn, ast.Dict):
                    keys = [const_value(k) if k is not None else "**" for k in dn.keys]
                    vals = dn.values
                    if "typ" in keys and "**" in keys and keys.index("typ") < keys.index("**") and norm(vals[keys.index("**")]) == hp \
                            and const_value(vals[keys.index("typ")]) == "JWT":
                        okt = True
            for n in fn_nodes(enc):
                if isinstance(n, ast.Call) and isinstance(n.func, ast.Attribute) and n.func.attr == "setdefault" and norm(n.func.value) == a0.id \
                        and len(n.args) == 2 and const_value(n.args[0]) == "typ" and const_value(n.args[1]) == "JWT":
                    okt = True
        ctx.check(okt, "R09.5", enc, s.node, f"{enc.short} :: typ default", "the header sent is not {'typ': 'JWT'} overridden by the caller's members (an explicit typ must win)",
                  "{'typ': 'JWT', **header}", construct="typ default precedence")


def r09_6(ctx) -> None:
    eng = ctx.eng
    tests = {}
    for nm in ("encode", "decode"):
        fn = eng.entry("jwt", nm)
        cfg = cfg_of(fn)
        ts = [t for t in cfg.nodes if t.kind == "test" and isinstance(t.ast, ast.Call) and isinstance(t.ast.func, ast.Name) and t.ast.func.id == "isinstance"]
        tests[nm] = sorted(norm(x.test) for x in fn_nodes(fn) if isinstance(x, (ast.If, ast.IfExp)) and "Registry" in norm(x.test))
        # JWE branch calls the JWE transport, the other branch the JWS transport
        for t in ts:
            if "JWERegistry" not in norm(t.ast):
                continue
            for lab, want in (("true", "jwe"), ("false", "jws")):
                reach = set()
                for s0 in succ_by_label(cfg, t, lab):
                    reach |= cfg.reachable(s0)
                called = set()
                for s in eng.cg.calls_in(fn):
                    cn = cfg.node_of(s.node)
                    if cn in reach:
                        for c in eng.cg.reachable(s.callees):
                            if c.module.short in ("jws", "jwe"):
                                called.add(c.module.short)
                only = cfg.reachable(cfg.entry, edge_filter=lambda a, b, l, _t=t, _lab=lab: not (a is _t and l == _lab))
                # transports reachable only through this edge
                ok = want in called
                ctx.check(ok, "R09.6", fn, t.ast, f"{fn.short} :: {lab} branch -> {want}", f"the {lab} branch of the registry-type test does not use the {want.upper()} transport",
                          f"calls into {sorted(called)}")
    ctx.check(tests["encode"] == tests["decode"] and bool(tests["encode"]), "R09.6", None, None, "transport selection", f"encode and decode select the transport differently: {tests}",
              f"both: {tests['encode']}", construct="transport selection test")


def r09_7(ctx) -> None:
    eng = ctx.eng
    cc = eng.prog.func("rfc7519.claims:convert_claims")
    cfg = cfg_of(cc)
    # every one of exp / iat / nbf that holds a datetime is replaced by calendar.timegm(<it>.utctimetuple()) - written as a loop over the three names or
    # unrolled (the canonical form unrolls loops over short constant displays)
    covered = set()
    for st in [n for n in fn_nodes(cc) if isinstance(n, ast.Assign) and isinstance(n.targets[0], ast.Subscript)]:
        v = st.value
        if not (isinstance(v, ast.Call) and norm(v.func) == "calendar.timegm" and v.args and norm(v.args[0]).endswith(".utctimetuple()")):
            continue
        cn = cfg.node_of(st)
        guards = [t for p_ in (cfg.guards_of(cn) if cn is not None else []) for t, o in p_ if o and t.kind == "test" and isinstance(t.ast, ast.Call) and isinstance(t.ast.func, ast.Name)
                  and t.ast.func.id == "isinstance" and "datetime" in norm(t.ast.args[1])]
        if not guards:
            continue
        key = st.targets[0].slice
        if isinstance(key, ast.Constant):
            covered.add(key.value)
        elif isinstance(key, ast.Name):
            for l in [l for l in cfg.nodes if l.kind == "loop" and isinstance(l.ast, ast.For) and norm(l.ast.target) == key.id and isinstance(l.ast.iter, (ast.List, ast.Tuple, ast.Set))]:
                covered |= {const_value(e) for e in l.ast.iter.elts}
    ok = {"exp", "iat", "nbf"} <= covered
    ctx.check(ok, "R09.7", cc, cc.node, cc.short, "datetime values of exp / iat / nbf are not converted to NumericDate seconds with calendar.timegm(utctimetuple())",
              "for exp, iat, nbf: datetime -> calendar.timegm(claim.utctimetuple())", construct="NumericDate conversion")
    dumps = [s for s in eng.cg.calls_in(cc) if isinstance(s.node, ast.Call) and any(x == "json.dumps" for x in s.ext)]
    okd = bool(dumps) and all(any(k.arg == "ensure_ascii" and is_const(k.value, False) for k in s.node.keywords) for s in dumps)
    ctx.check(okd, "R09.7", cc, cc.node, f"{cc.short} :: json.dumps", "claims are not serialised with json.dumps(..., ensure_ascii=False)", "UTF-8 JSON of the claims object",
              construct="claims serialisation")


def run(ctx) -> None:
    from .c08 import r08_5 as _r08_5
    ctx.guard_as("R09.15", _r08_5)  # PBES2 count / salt: what is used is what the header says
    from .common import forwarding_discipline
    ctx.guard(forwarding_discipline, "R09.11", ['claims', 'encoder_cls', 'value', 'registry', 'algorithms'], 62)  # arguments are handed on under their own name (generic routing rule, rules/common.py)
    # "decoding returns only after the integrity check of the transport passed": the decrypt idioms of C02; header codec of C19
    from .c02 import r02_4
    from .c19 import r19_4_5
    ctx.guard_as("R09.9", r02_4)
    ctx.guard_as("R09.9", r19_4_5)
    from .c01 import r01_8
    from .c05 import r05_12
    ctx.guard_as("R09.10", r05_12)  # a registry given by the caller (its header table) judges the header on decode as it did on encode
    ctx.guard_as("R09.10", r01_8)  # the claims returned belong to the token that was verified
    # "plus the kid of a key picked from a key set": the key-selection rule of C14 (all routes into a set record / honour the kid)
    from .c14 import r14_2
    from .common import scope_of as _scope_of
    _within = set()
    for _n in ("encode", "decode"):
        _within.update(_scope_of(ctx.eng, ctx.eng.entry("jwt", _n)))
    ctx.guard(r14_2, "R09.8", _within)  # the call sites jwt.encode / jwt.decode reach
    from .c14 import r14_3
    ctx.guard_as("R09.8", r14_3)  # a key picked from a set is of the type the algorithm requires, for every registered algorithm
    # "over the JWE transport": claims of exactly the decompression limit still decode (completion gate of the bounded inflater)
    from .c17 import r17_2_5
    ctx.guard_as("R09.12", r17_2_5)
    from .c06 import r06_2
    ctx.guard_as("R09.13", r06_2)
    from .c04 import r04_14
    ctx.guard_as("R09.14", r04_14)  # "a header equal to the given one": the transports add members to a header, they never remove one  # "with the matching key": each primitive asks the key for its own operation (verify needs "verify", not "sign")
    from .c08 import r08_3 as _r08_3
    ctx.guard_as("R09.17", _r08_3)  # claims of every length survive the JWE transport: AES-CBC pads with PKCS#7 from the library (a block-aligned JSON text gets a full block)
    from .c13 import r13_1 as _r13_1
    ctx.guard_as("R09.18", _r13_1)  # "the kid of a key picked from a key set": the private key that encodes and the public key that decodes derive the same kid
    from .c02 import r02_6 as _r02_6
    ctx.guard_as("R09.16", _r02_6)  # "only after the integrity check of the transport passed": every segment of the JWE is accounted for (an encrypted key where none belongs is refused)
    from .c04 import r04_4 as _r04_4
    ctx.guard_as("R09.19", _r04_4)  # "over the JWE transport, with the matching key": the iv / tag / epk / p2s the decrypt side reads from the header are the ones this encryption computed - add_header stores them in every branch, also over a same-named member the caller's header already carries (seed C09-s: a header of a decoded token reused for jwt.encode kept its stale A*GCMKW iv / tag)
    ctx.guard(r09_1)
    ctx.guard(r09_2_3)
    ctx.guard(r09_4_5)
    ctx.guard(r09_6)
    ctx.guard(r09_7)
    ctx.assume("C01 / C02 decide that the transport entries return only verified / authenticated content")
    ctx.note("undecided remainder: JSON value fidelity of claims (unicode, floats, NumericDate arithmetic) is value-level")
