"""C15 - header parameters are validated when producing and when consuming.

R15.1 no signature / recipient is processed to completion without registry.check_header on its merged headers
R15.2 the three check_header implementations agree on the checks they run
R15.3 folded header parameter tables = RFC tables         R15.4 the three validators raise as specified
R15.5 caller-registered parameters are merged into the instance registry that is validated
"""
from __future__ import annotations
import ast
from typing import Dict, List, Optional, Set, Tuple

from ..program import AnalysisError, ClassInfo, FunctionInfo, fn_nodes, norm
from ..callgraph import CallSite
from ..cfg import cfg_of, CNode, CFG
from ..fold import FuncVal, Inst, is_unknown
from ..spec import tables as T
from .common import inconclusive_on_error as _ioe
from .common import (JWE_CONSUME, JWE_PRODUCE, JWS_CONSUME, JWS_PRODUCE, can_reach_exit, const_value, entries, is_const,
                     scope_of, succ_by_label)

REGS = ["rfc7515.registry:JWSRegistry", "rfc7516.registry:JWERegistry", "rfc7797.registry:JWSRegistry"]


def _check_header_impls(eng) -> List[FunctionInfo]:
    out = []
    for r in REGS:
        f = eng.prog.cls(r).methods.get("check_header")
        if f is not None:
            out.append(f)
    if len(out) < 3:
        raise AnalysisError("expected three check_header implementations")
    return out


def _get_alg_impls(eng) -> List[FunctionInfo]:
    out = []
    for r in REGS[:2]:
        f = eng.prog.cls(r).lookup("get_alg")
        if f is None:
            raise AnalysisError("get_alg vanished")
        out.append(f)
    return out


# ----------------------------------------------------------------------------------------------- R15.1
def r15_1(ctx) -> None:
    eng = ctx.eng
    chk = _check_header_impls(eng)
    gal = _get_alg_impls(eng)
    ops: Set[FunctionInfo] = set()
    for e in eng.operation_entries():
        ops.update(scope_of(eng, e))
    jwe_consume: Set[FunctionInfo] = set()
    for e in entries(eng, JWE_CONSUME):
        jwe_consume.update(scope_of(eng, e))
    n = 0
    for fn in sorted(ops, key=lambda f: f.qualname):
        if fn.cls is not None and any(fn.cls is eng.prog.cls(r) or eng.prog.cls(r) in fn.cls.mro for r in REGS):
            continue  # the registry's own methods
        gsites = [s for s in eng.cg.calls_in(fn) if isinstance(s.node, ast.Call) and s.callees and all(c in gal for c in s.callees)]
        if not gsites:
            continue
        cfg = cfg_of(fn)
        csites = [s for s in eng.cg.calls_in(fn) if isinstance(s.node, ast.Call) and s.callees and all(c in chk for c in s.callees)]
        cnodes = [cfg.node_of(s.node) for s in csites]
        cnodes = [c for c in cnodes if c is not None]
        for g in gsites:
            n += 1
            G = cfg.node_of(g.node)
            assert G is not None
            inst = f"{fn.short} :: {norm(g.node)[:50]}"
            # which headers object names the algorithm
            a0 = g.node.args[0] if g.node.args else None
            base = norm(a0.value) if isinstance(a0, ast.Subscript) else None
            same = [c for c, s in zip(cnodes, csites) if s.node.args and base is not None and norm(s.node.args[0]) == base]
            if base is not None and cnodes and not same:
                ctx.fail("R15.1", fn, g.node, f"check_header validates {[norm(s.node.args[0]) for s in csites if s.node.args]} but the algorithm is read "
                         f"from {base}: the headers that steer the operation are not the ones validated",
                         construct=f"validated headers vs {norm(g.node)[:60]}")
                continue
            use = same or cnodes
            # loop containing the gate: per iteration
            loops = [l for l in cfg.nodes if l.kind == "loop" and any(x is g.node for x in ast.walk(l.ast))]  # type: ignore[arg-type]
            if loops:
                L = loops[-1]
                ok = True
                for s0 in succ_by_label(cfg, L, "iter"):
                    r = cfg.reachable(s0, use)
                    if (L in r or cfg.exit in r) and s0 not in use:
                        ok = False
                how = "every iteration passes check_header"
            else:
                ok = bool(use) and (cfg.must_pass(cfg.entry, G, use) or cfg.must_pass(G, cfg.exit, use))
                how = "every path through the algorithm lookup to a normal return passes check_header"
            if not ok:
                w = cfg.path_avoiding(G, cfg.exit, use) if not loops else None
                ctx.fail("R15.1", fn, g.node, "a signature / recipient can be processed to completion without registry.check_header on its headers",
                         construct=f"check_header around {norm(g.node)[:60]}", path=[repr(x) for x in (w or [])][:10])
            else:
                ctx.ok("R15.1", inst, how + f" ({base})")
            # consumption of a JWE: algorithm-specific required parameters are enforced
            if fn in jwe_consume and not any(fn in scope_of(eng, e) for e in entries(eng, JWE_PRODUCE)):
                for s in csites:
                    cm = None
                    for c in s.callees:
                        cm = cm or eng.cg.arg_for_param(s, c, "check_more")
                    n += 1
                    ctx.check(cm is not None and is_const(cm, True), "R15.1", fn, s.node, f"{fn.short} :: check_more of {norm(s.node)[:40]}",
                              "on JWE consumption check_header is not asked to enforce the algorithm-specific required parameters (check_more=True)",
                              "check_more=True", construct=f"check_more of {norm(s.node)[:60]}")
    # ... also where the header check sits in a helper that the producing side shares (and that the clause above therefore skips): on the way to the
    # recovery of a recipient's CEK the algorithm-specific required parameters have been enforced - by a check_header(..., check_more=True) in the
    # function itself, or by a helper that makes that call on every path with `True` written there or handed in by this caller
    dr = eng.prog.func("rfc7516.message:decrypt_recipient")

    def enforces(h: FunctionInfo, known: Dict[str, bool], depth: int = 0) -> bool:
        cfg_ = cfg_of(h)
        strict = strict_nodes(h, known, depth)
        return bool(strict) and cfg_.must_pass(cfg_.entry, cfg_.exit, strict)

    def strict_nodes(h: FunctionInfo, known: Dict[str, bool], depth: int):
        cfg_ = cfg_of(h)
        out = []
        for s_ in eng.cg.calls_in(h):
            if not isinstance(s_.node, ast.Call) or not s_.callees or cfg_.node_of(s_.node) is None:
                continue
            if all(c in chk for c in s_.callees):
                cm = None
                for c in s_.callees:
                    cm = cm or eng.cg.arg_for_param(s_, c, "check_more")
                if cm is not None and (is_const(cm, True) or (isinstance(cm, ast.Name) and known.get(cm.id) is True)):
                    out.append(cfg_.node_of(s_.node))
            elif depth < 2 and len(s_.callees) == 1 and s_.callees[0].cls is None and s_.callees[0] is not dr:
                c = s_.callees[0]
                kn = {}
                for p_ in c.params:
                    a_ = eng.cg.arg_for_param(s_, c, p_)
                    if a_ is not None and is_const(a_, True):
                        kn[p_] = True
                    elif a_ is not None and isinstance(a_, ast.Name) and known.get(a_.id) is True:
                        kn[p_] = True
                if enforces(c, kn, depth + 1):
                    out.append(cfg_.node_of(s_.node))
        return out
    m = 0
    for fn in sorted(jwe_consume, key=lambda f: f.qualname):
        sites = [s_ for s_ in eng.cg.calls_in(fn) if isinstance(s_.node, ast.Call) and dr in s_.callees]
        if not sites:
            continue
        cfg = cfg_of(fn)
        strict = strict_nodes(fn, {}, 0)
        for s_ in sites:
            m += 1
            D = cfg.node_of(s_.node)
            loops = [l for l in cfg.nodes if l.kind == "loop" and any(x is s_.node for x in ast.walk(l.ast))]  # type: ignore[arg-type]
            if loops:
                L = loops[-1]
                ok = bool(strict) and all(D not in cfg.reachable(s0, strict) or s0 in strict for s0 in succ_by_label(cfg, L, "iter"))
            else:
                ok = bool(strict) and D is not None and cfg.must_pass(cfg.entry, D, strict)
            ctx.check(ok, "R15.1", fn, s_.node, f"{fn.short} :: required algorithm parameters before {norm(s_.node)[:40]}",
                      "a recipient's CEK is recovered without check_header(..., check_more=True) having enforced the algorithm-specific required parameters of its header "
                      "(the check sits in a helper that does not pass check_more on)", "check_header(headers, True) on every path to decrypt_recipient",
                      construct=f"check_more before {norm(s_.node)[:50]}")
    ctx.count("R15.1/strict", m, 1, "CEK recovery sites on the consuming side")
    ctx.count("R15.1", n, 10, "orchestration sites (get_alg gates + check_more)")


# ----------------------------------------------------------------------------------------------- R15.2
def _calls_to(eng, fn: FunctionInfo, target: FunctionInfo) -> List[CallSite]:
    return [s for s in eng.cg.calls_in(fn) if isinstance(s.node, ast.Call) and target in s.callees]


@_ioe
def _fold_check_header(ctx, fn: FunctionInfo):
    """Fold a base check_header on probe registries / headers with the three shared checks intercepted and report what they were handed:
    a list of problems (empty: the registry handed to the unknown-parameter check is this instance's table plus the table of the model the
    header names, nothing is mutated, the algorithm's own parameters are validated with the caller's check_more), or None when the
    body does not fold (the shape clauses decide then)."""
    from ..fold import FuncVal, ExtVal, FoldRaise, is_unknown
    eng = ctx.eng
    F = eng.folder
    cls = fn.cls
    if cls is None:
        return None
    jwe = cls.name == "JWERegistry"
    algs = ["ECDH-ES", "PBES2-HS256+A128KW", "dir"] if jwe else ["HS256"]
    problems: List[str] = []
    F.start_trace()
    try:
        for strict in (True, False):
            insts = []
            for tag in ("x-jv-a", "x-jv-b"):
                insts.append((tag, F.instantiate(cls, [], {"header_registry": {tag: ExtVal("PROBE")}, "algorithms": list(algs), "strict_check_header": strict})))
            for tag, inst in insts:
                own = inst.attrs.get("header_registry")
                if not isinstance(own, dict) or tag not in own:
                    return None
                for alg in algs:
                    for check_more in ((True, False) if jwe else (None,)):
                        before = sorted(own)
                        got = []
                        cap = lambda n: (lambda b: (got.append((n, b)), None)[1])
                        F.intercepts = {"registry:check_crit_header": cap("crit"), "registry:validate_registry_header": cap("vrh"), "registry:check_supported_header": cap("csh")}
                        hdr = {"alg": alg, "enc": "A128GCM"} if jwe else {"alg": alg}
                        try:
                            F.call(FuncVal(fn, None, inst), [hdr] + ([check_more] if jwe else []), {})
                        except FoldRaise:
                            return None
                        finally:
                            F.intercepts = {}
                        model = F.call(FuncVal(cls.lookup("get_alg"), None, inst), [alg], {})
                        more = F.get_attr(model, "more_header_registry") if jwe else None
                        if jwe and (is_unknown(more) or not isinstance(more, (dict, type(None)))):
                            return None
                        more = more or {}
                        where = f"strict={strict}, alg={alg}" + (f", check_more={check_more}" if jwe else "")
                        if sorted(own) != before:
                            problems.append(f"the instance header registry is changed by check_header ({where}): {sorted(set(own) ^ set(before))}")
                        csh = [b for n, b in got if n == "csh"]
                        if any(is_unknown(v) for n, b in got for v in b.values()):
                            return None
                        if strict:
                            for b in csh:
                                r = b.get("registry")
                                if not isinstance(r, dict):
                                    return None
                                if set(r) != set(before) | set(more):
                                    problems.append(f"check_supported_header is given {sorted(r)} ({where}); this instance's table plus the model's own is {sorted(set(before) | set(more))}")
                                if b.get("header") is not hdr:
                                    problems.append(f"check_supported_header is not given the header ({where})")
                        if jwe and more:
                            mv = [b for n, b in got if n == "vrh" and isinstance(b.get("registry"), dict) and set(b["registry"]) == set(more)]
                            if not mv or any(b.get("check_required") is not check_more or b.get("header") is not hdr for b in mv):
                                problems.append(f"the model's own parameters are not validated with the caller's check_more ({where})")
    except AnalysisError:
        return None
    finally:
        sided = F.one_sided(ignore=(".get_alg", ".__init__"))
    if sided:
        return None  # a test decided the same way on every probe: the probes are a sample, the shape clauses decide
    return problems


def r15_2(ctx, family: Optional[str] = None) -> None:
    eng = ctx.eng
    P = eng.prog
    reg = P.mod("registry")
    crit = P.func("registry:check_crit_header")
    vrh = P.func("registry:validate_registry_header")
    csh = P.func("registry:check_supported_header")
    impls_ = _check_header_impls(eng)
    if family is not None:
        from .common import in_family
        impls_ = [f for f in impls_ if in_family(f, family)]
    base_impls = [f for f in impls_ if not any(s.kind == "super" for s in eng.cg.calls_in(f))]
    overrides = [f for f in impls_ if f not in base_impls]
    ctx.count("R15.2", len(base_impls), 2 if family is None else 1, "base check_header implementations")
    for fn in base_impls:
        cfg = cfg_of(fn)
        hp = fn.pos_params[1]
        sn = fn.self_name
        # (a) crit
        a = [cfg.node_of(s.node) for s in _calls_to(eng, fn, crit) if s.node.args and norm(s.node.args[0]) == hp]
        a = [x for x in a if x is not None]
        ctx.check(bool(a) and cfg.must_pass(cfg.entry, cfg.exit, a), "R15.2", fn, fn.node, f"{fn.short} :: crit", "check_header can complete without check_crit_header(header)",
                  "check_crit_header(header) on every path", construct="crit check")
        # (b) required + type over the instance registry
        b = []
        for s in _calls_to(eng, fn, vrh):
            if len(s.node.args) >= 2 and norm(s.node.args[0]) == f"{sn}.header_registry" and norm(s.node.args[1]) == hp:
                cr = eng.cg.arg_for_param(s, vrh, "check_required")
                if cr is None or is_const(cr, True):
                    x = cfg.node_of(s.node)
                    if x is not None:
                        b.append(x)
        ctx.check(bool(b) and cfg.must_pass(cfg.entry, cfg.exit, b), "R15.2", fn, fn.node, f"{fn.short} :: required+type",
                  "check_header can complete without validate_registry_header(self.header_registry, header) enforcing required members",
                  "validate_registry_header(self.header_registry, header) on every path", construct="required/type validation")
        # (c) unknown parameters iff strict
        c = [cfg.node_of(s.node) for s in _calls_to(eng, fn, csh) if len(s.node.args) >= 2 and norm(s.node.args[1]) == hp]
        c = [x for x in c if x is not None]
        stests = [t for t in cfg.nodes if t.kind == "test" and norm(t.ast) == f"{sn}.strict_check_header"]
        okc = bool(c) and bool(stests)
        if okc:
            # with every strict test forced true, the exit needs a check_supported_header call
            def ef(a_, b_, lab, _st=stests):
                return not (a_ in _st and lab == "false")
            okc = cfg.must_pass(cfg.entry, cfg.exit, c, edge_filter=ef)
        ctx.check(okc, "R15.2", fn, fn.node, f"{fn.short} :: unknown parameters", "with strict_check_header on, check_header can complete without "
                  "check_supported_header (unregistered parameters accepted)", "check_supported_header on every strict path", construct="strict unknown-parameter check")
        folded = _fold_check_header(ctx, fn)
        if folded is not None:
            ctx.check(not folded, "R15.2", fn, fn.node, f"{fn.short} :: registries handed to the shared checks (folded on probes)",
                      ("check_supported_header is not given the instance header registry: " if folded and "check_supported_header" in folded[0] else "") + (folded[0] if folded else ""),
                      "instance registry (+ the named model's own table); nothing mutated; check_more handed on", construct="registry of check_supported_header")
        # the registry given to check_supported_header contains the instance registry
        for s in _calls_to(eng, fn, csh) if folded is None else []:
            r0 = s.node.args[0]
            txt = norm(r0)
            good = txt == f"{sn}.header_registry"
            if not good and not isinstance(r0, ast.Name):
                good = _registry_roots_ok(r0, sn)
            if not good and isinstance(r0, ast.Name):
                # every definition of the local is built from the *instance* registry (+ the model's own table) only:
                # a value fetched from anywhere else (a cache shared between instances, a module table) is refused
                defs = [(k, d) for k, d, e in eng.flow._defs(fn).get(r0.id, []) if isinstance(d, ast.AST)]
                assigns = [d for k, d in defs if k == "assign"]
                muts = [d for k, d in defs if k != "assign"]
                good = bool(assigns) and all(_registry_roots_ok(d, sn) for d in assigns) and all(
                    k == "mut-call" and isinstance(d, ast.Call) and isinstance(d.func, ast.Attribute) and d.func.attr == "update" and len(d.args) == 1 and not d.keywords
                    and norm(d.args[0]).endswith(".more_header_registry") for k, d in defs if k != "assign")
            ctx.check(good, "R15.2", fn, s.node, f"{fn.short} :: {norm(s.node)[:50]}", "check_supported_header is not given the instance header registry",
                      "registry derived from self.header_registry", construct="registry of check_supported_header")
        # JWE: algorithm specific parameters
        if fn.cls is not None and fn.cls.name == "JWERegistry" and folded is None:
            okd = alg_specific_validation_ok(eng, fn, vrh)
            ctx.check(okd, "R15.2", fn, fn.node, f"{fn.short} :: algorithm-specific parameters", "algorithm-specific header parameters are not validated "
                      "with the caller's check_more flag", "validate_registry_header(alg.more_header_registry, header, check_more) whenever present",
                      construct="algorithm-specific validation")
            # the model whose parameters are used is the one named by the header
            gs = [s for s in eng.cg.calls_in(fn) if isinstance(s.node, ast.Call) and s.attr == "get_alg" and s.node.args and norm(s.node.args[0]) == f"{hp}['alg']"]
            ctx.check(bool(gs), "R15.2", fn, fn.node, f"{fn.short} :: model lookup", "the algorithm model is not looked up from header['alg']", "self.get_alg(header['alg'])",
                      construct="model lookup in check_header")
            # union registry for the strict check
            upd = [n for n in fn_nodes(fn) if isinstance(n, ast.Call) and isinstance(n.func, ast.Attribute) and n.func.attr == "update"
                   and n.args and norm(n.args[0]).endswith(".more_header_registry")]
            if not upd:
                # literal union forms: {**self.header_registry, **alg.more_header_registry} / a | b
                upd = [n for n in fn_nodes(fn) if isinstance(n, (ast.Dict, ast.BinOp)) and not isinstance(getattr(n, "op", None), (ast.Add, ast.Sub, ast.Mod))
                       and any(isinstance(x, ast.Attribute) and x.attr == "more_header_registry" for x in ast.walk(n))]
            ctx.check(bool(upd), "R15.2", fn, fn.node, f"{fn.short} :: union registry", "strict check does not admit the algorithm's own parameters", "allowed = instance registry + more_header_registry",
                      construct="union registry")
    for fn in overrides:
        cfg = cfg_of(fn)
        hp = fn.pos_params[1]
        sup = [cfg.node_of(s.node) for s in eng.cg.calls_in(fn) if s.kind == "super" and isinstance(s.node, ast.Call) and s.node.args and norm(s.node.args[0]) == hp
               and all(c in base_impls for c in s.callees)]
        sup = [x for x in sup if x is not None]
        ctx.check(bool(sup) and cfg.must_pass(cfg.entry, cfg.exit, sup), "R15.2", fn, fn.node, f"{fn.short} :: delegates", "the RFC 7797 check_header does not always delegate to the base checks",
                  "super().check_header(header) on every path", construct="7797 delegation")
        tests = [t for t in cfg.nodes if t.kind == "test" and isinstance(t.ast, ast.Compare) and const_value(t.ast.left) == "b64"
                 and isinstance(t.ast.ops[0], (ast.In, ast.NotIn)) and norm(t.ast.comparators[0]) == hp]
        safes = []
        for s in eng.cg.calls_in(fn):
            if isinstance(s.node, ast.Call) and s.callees and s.node.args and norm(s.node.args[0]) == hp and all(_is_b64_crit_gate(eng, c) for c in s.callees):
                x = cfg.node_of(s.node)
                if x is not None:
                    safes.append(x)
        okb = bool(tests) and bool(safes)
        if tests and not safes:
            # the gate may be written in place (or have been inlined): decide it as a truth table over the three atoms - no completing path has
            # 'b64' in header without crit being a list that contains 'b64'
            from ..decide import outcomes

            def atom_of(e):
                if isinstance(e, ast.Compare) and len(e.ops) == 1 and isinstance(e.ops[0], (ast.In, ast.NotIn)) and const_value(e.left) == "b64":
                    c = norm(e.comparators[0])
                    pol = isinstance(e.ops[0], ast.In)
                    if c == hp:
                        return ("b64_in_header", pol)
                    if c in (f"{hp}.get('crit')", f"{hp}['crit']", f"{hp}.get('crit', None)"):
                        return ("b64_in_crit", pol)
                if isinstance(e, ast.Call) and isinstance(e.func, ast.Name) and e.func.id == "isinstance" and len(e.args) == 2 and norm(e.args[1]) in ("list", "(list,)") \
                        and norm(e.args[0]) in (f"{hp}.get('crit')", f"{hp}['crit']", f"{hp}.get('crit', None)"):
                    return ("crit_is_list", True)
                return None
            try:
                outs = outcomes(fn, atom_of, max_nodes=120)
                okb = True
                for o in outs:
                    if o.kind in ("return", "fall") and o.literals.get("b64_in_header") is True and not (o.literals.get("crit_is_list") is True and o.literals.get("b64_in_crit") is True):
                        okb = False
                okb = okb and any(o.literals.get("b64_in_header") is True for o in outs)
            except AnalysisError:
                okb = False
        elif okb:
            for t in tests:
                lab = "true" if isinstance(t.ast.ops[0], ast.In) else "false"
                for s0 in succ_by_label(cfg, t, lab):
                    if cfg.exit in cfg.reachable(s0, safes) and s0 not in safes:
                        okb = False
        ctx.check(okb, "R15.2", fn, fn.node, f"{fn.short} :: b64 needs crit", "a header with b64 can pass without the crit check", "`'b64' in header` always leads through the crit gate",
                  construct="b64 crit gate")


def alg_specific_validation_ok(eng, fn: FunctionInfo, vrh: Optional[FunctionInfo] = None) -> bool:
    """JWERegistry.check_header: whenever the model has a more_header_registry, validate_registry_header(<it>, header, check_more)
    runs on every completing path - whatever strict_check_header says (also used by C16 E3 J1)"""
    if vrh is None:
        vrh = eng.prog.func("registry:validate_registry_header")
    cfg = cfg_of(fn)
    hp = fn.pos_params[1]
    d = []
    from .common import resolve_all as _ra
    for s in _calls_to(eng, fn, vrh):
        if len(s.node.args) >= 3 and all(t_.endswith(".more_header_registry") for t_ in _ra(eng, fn, s.node.args[0])) and norm(s.node.args[1]) == hp \
                and norm(s.node.args[2]) == "check_more":
            x = cfg.node_of(s.node)
            if x is not None:
                d.append(x)
    mt = [t for t in cfg.nodes if t.kind == "test" and (norm(t.ast).endswith(".more_header_registry") or all(t_.endswith(".more_header_registry") for t_ in _ra(eng, fn, t.ast)))]
    if not d:
        return False
    if not mt:
        # unconditional validation (an empty table validates nothing)
        return cfg.must_pass(cfg.entry, cfg.exit, d)

    def ef2(a_, b_, lab, _mt=mt):
        return not (a_ in _mt and lab == "false")
    return cfg.must_pass(cfg.entry, cfg.exit, d, edge_filter=ef2)


def _registry_roots_ok(e: ast.AST, sn: str) -> bool:
    """the expression reads self.header_registry and, besides it, only <model>.more_header_registry / dict()"""
    roots = set()

    def walk(x):
        if isinstance(x, ast.Call):
            f = x.func
            if isinstance(f, ast.Attribute) and f.attr in ("copy",):
                walk(f.value)
            elif isinstance(f, ast.Name) and f.id == "dict":
                pass
            else:
                roots.add("call:" + norm(f))
            for a in x.args:
                walk(a)
            for k in x.keywords:
                walk(k.value)
        elif isinstance(x, (ast.Attribute, ast.Name)):
            roots.add(norm(x))
        elif isinstance(x, ast.Dict):
            for k, v in zip(x.keys, x.values):
                if k is not None:
                    roots.add("key")
                walk(v)
        elif isinstance(x, ast.BinOp) and isinstance(x.op, ast.BitOr):
            walk(x.left)
            walk(x.right)
        else:
            roots.add("other:" + type(x).__name__)
    walk(e)
    return f"{sn}.header_registry" in roots and all(r == f"{sn}.header_registry" or (r.endswith(".more_header_registry") and not r.startswith(("call:", "other:"))) for r in roots)


def _is_b64_crit_gate(eng, fn: FunctionInfo) -> bool:
    """returns normally only when header['crit'] is a list containing 'b64'"""
    cfg = cfg_of(fn)
    need_list = need_in = False
    for t in cfg.nodes:
        if t.kind != "test":
            continue
        e = t.ast
        if isinstance(e, ast.Call) and isinstance(e.func, ast.Name) and e.func.id == "isinstance" and len(e.args) == 2 and norm(e.args[1]) == "list":
            if not can_reach_exit(cfg, succ_by_label(cfg, t, "false")):
                need_list = True
        if isinstance(e, ast.Compare) and const_value(e.left) == "b64" and isinstance(e.ops[0], ast.In):
            if not can_reach_exit(cfg, succ_by_label(cfg, t, "false")):
                need_in = True
    return need_list and need_in


# ----------------------------------------------------------------------------------------------- R15.3
def _fold_table(eng, v) -> Dict[str, Tuple[str, bool]]:
    F = eng.folder
    if not isinstance(v, dict):
        raise AnalysisError("header registry did not fold to a dict")
    out = {}
    for k, p in v.items():
        val = F.get_attr(p, "validate")
        req = F.get_attr(p, "required")
        vn = val.fn.name if isinstance(val, FuncVal) else repr(val)
        out[k] = (vn, req)
    return out


UNIMPLEMENTED_EXTENSIONS = {"b64"}  # header parameters that change processing and are implemented by a dedicated path only


def r15_3(ctx, family: Optional[str] = None) -> None:
    eng = ctx.eng
    P = eng.prog
    F = eng.folder
    regm = P.mod("registry")
    n = 0

    def cmp(name, got, want, exact_names: bool = False):
        nonlocal n
        n += 1
        # every RFC parameter is registered with the RFC's type and required flag.  Further OPTIONAL parameters with one of the known validators are
        # harmless for every clause (they are type-checked like the others) - except names whose processing the code path does not implement:
        # a registered "b64" in an RFC 7515 / 7516 table defeats the crit defence of RFC 7797 (C01 R01.9)
        diff = {k: (got.get(k), want.get(k)) for k in want if got.get(k) != want.get(k)}
        for k in set(got) - set(want):
            v = got[k]
            harmless = isinstance(v, tuple) and len(v) == 2 and v[1] is False and v[0] in T.VALIDATOR_KEYS.values() and k not in UNIMPLEMENTED_EXTENSIONS
            # (an algorithm's own table is exact: a name it lists is a name the strict check lets through for that algorithm - `skid` is ECDH-1PU's, not ECDH-ES's)
            if not harmless or exact_names:
                diff[k] = (v, None)
        ctx.check(not diff, "R15.3", None, None, name, f"{name} differs from the RFC table: {diff}", f"{len(want)} parameters with validators and required flags",
                  construct=name)
    cmp("JWS_HEADER_REGISTRY", _fold_table(eng, F.module_value(regm, "JWS_HEADER_REGISTRY")), T.JWS_HEADER)
    if family != "jws":
        cmp("JWE_HEADER_REGISTRY", _fold_table(eng, F.module_value(regm, "JWE_HEADER_REGISTRY")), T.JWE_HEADER)
    cmp("JWSRegistry.default_header_registry", _fold_table(eng, F.class_attr(P.cls(REGS[0]), "default_header_registry")), T.JWS_HEADER)
    cmp("rfc7797 JWSRegistry.default_header_registry", _fold_table(eng, F.class_attr(P.cls(REGS[2]), "default_header_registry")), T.RFC7797_HEADER)
    for cname, want in (T.ALG_HEADERS.items() if family != "jws" else ()):
        cs = [c for c in P.classes.values() if c.name == cname]
        if len(cs) != 1:
            raise AnalysisError(f"class {cname} not found")
        cmp(f"{cname}.more_header_registry", _fold_table(eng, F.class_attr(cs[0], "more_header_registry")), want, exact_names=True)
    # models without algorithm-specific parameters have an empty table
    km = P.cls("rfc7516.models:KeyManagement")
    for c in (km.all_subclasses() if family != "jws" else ()):
        if c.name in T.ALG_HEADERS or not any(m in c.methods for m in ("encrypt_cek", "compute_cek", "encrypt_agreed_upon_key")):
            continue
        v = F.class_attr(c, "more_header_registry")
        n += 1
        ctx.check(v == {}, "R15.3", None, None, f"{c.name}.more_header_registry", f"{c.name} declares unexpected algorithm-specific parameters {v}", "empty",
                  construct=f"{c.name}.more_header_registry")
    # the string -> validator table
    vv = F.module_value(regm, "_value_validators")
    got = {k: (v.fn.name if isinstance(v, FuncVal) else repr(v)) for k, v in vv.items()} if isinstance(vv, dict) else {}
    n += 1
    ctx.check(got == T.VALIDATOR_KEYS, "R15.3", None, None, "_value_validators", f"validator name table differs: {got}", "7 validators", construct="_value_validators")
    # validator semantics: decided by folding each validator on the probe battery (rules/common.py) when that is conclusive, by shape otherwise
    from .common import validator_accepts_exactly
    folded = set()
    for fname in ("is_str", "is_int", "is_bool", "is_jwk", "is_list_str", "is_url"):
        fn = P.func(f"registry:{fname}")
        pr = validator_accepts_exactly(eng, fn, fname)
        if pr is None:
            continue
        n += 1
        folded.add(fname)
        what = {"is_list_str": "is_list_str does not refuse non-lists and lists with non-str members", "is_url": "is_url does not require an http(s) string"}.get(
            fname, f"{fname} does not raise ValueError for every value that is not a {({'is_jwk': 'dict'}).get(fname, fname[3:])}")
        ctx.check(not pr, "R15.3", fn, fn.node, f"registry:{fname} (folded on probes)", what + (": " + "; ".join(pr[:3]) if pr else ""),
                  "accepts exactly the values of the declared type, refuses the others with ValueError", construct=f"validator {fname}")
    spec = {"is_str": "str", "is_int": "int", "is_bool": "bool", "is_jwk": "dict"}
    for fname, ty in spec.items():
        if fname in folded:
            continue
        fn = P.func(f"registry:{fname}")
        n += 1
        ctx.check(_raises_unless_isinstance(fn, ty), "R15.3", fn, fn.node, f"registry:{fname}", f"{fname} does not raise ValueError for every value that is not a {ty}",
                  f"raises iff not isinstance(value, {ty})", construct=f"validator {fname}")
    fl = P.func("registry:is_list_str")
    cfg = cfg_of(fl)
    p = fl.pos_params[0]
    t1 = _raises_unless_isinstance(fl, "list", partial=True)
    t2 = False
    for t in cfg.nodes:
        if t.kind == "test" and isinstance(t.ast, ast.Call) and isinstance(t.ast.func, ast.Name) and t.ast.func.id == "all" and t.ast.args:
            g = t.ast.args[0]
            if isinstance(g, (ast.GeneratorExp, ast.ListComp)) and "isinstance" in norm(g.elt) and "str" in norm(g.elt) and norm(g.generators[0].iter) == p:
                if not can_reach_exit(cfg, succ_by_label(cfg, t, "false")):
                    t2 = True
    n += 1
    ctx.check(t1 and t2 or "is_list_str" in folded, "R15.3", fl, fl.node, "registry:is_list_str", "is_list_str does not refuse non-lists and lists with non-str members", "list of str only",
              construct="validator is_list_str")
    fu = P.func("registry:is_url")
    cfgu = cfg_of(fu)
    calls_str = any(P.func("registry:is_str") in s.callees for s in eng.cg.calls_in(fu)) or _raises_unless_isinstance(fu, "str", partial=True)
    sw = False
    for t in cfgu.nodes:
        if t.kind == "test" and isinstance(t.ast, ast.Call) and isinstance(t.ast.func, ast.Attribute) and t.ast.func.attr == "startswith":
            v = F.expr(t.ast.args[0], {}, fu.module) if t.ast.args else None
            if isinstance(v, tuple) and set(v) == {"http://", "https://"} and not can_reach_exit(cfgu, succ_by_label(cfgu, t, "false")):
                sw = True
    n += 1
    ctx.check(calls_str and sw or "is_url" in folded, "R15.3", fu, fu.node, "registry:is_url", "is_url does not require an http(s) string", "str starting with http:// or https://",
              construct="validator is_url")
    ctx.count("R15.3", n, 14, "header table obligations")


def _raises_unless_isinstance(fn: FunctionInfo, ty: str, partial: bool = False) -> bool:
    cfg = cfg_of(fn)
    p = fn.pos_params[0]
    for t in cfg.nodes:
        if t.kind == "test" and isinstance(t.ast, ast.Call) and isinstance(t.ast.func, ast.Name) and t.ast.func.id == "isinstance" \
                and len(t.ast.args) == 2 and norm(t.ast.args[0]) == p and norm(t.ast.args[1]) == ty:
            if not can_reach_exit(cfg, succ_by_label(cfg, t, "false")) and cfg.dominates(t, cfg.exit):
                # the refusal is a ValueError
                for s0 in succ_by_label(cfg, t, "false"):
                    for x in cfg.reachable(s0):
                        if x.kind == "stmt" and isinstance(x.ast, ast.Raise) and x.ast.exc is not None:
                            nm = norm(x.ast.exc.func if isinstance(x.ast.exc, ast.Call) else x.ast.exc)
                            if nm != "ValueError":
                                return False
                return True
    return False


# ----------------------------------------------------------------------------------------------- R15.4
@_ioe
def _vrh_folded(ctx) -> Optional[List[str]]:
    """Fold validate_registry_header on a probe registry (a required str first, an optional int, an optional list[str], a required str LAST) and probe
    headers: ValueError exactly when (check_required and a required name is missing - wherever it stands in the registry) or a PRESENT member - null,
    empty and zero included - fails its validator; names the registry does not know are ignored.  None when inconclusive (DESIGN 11.11)."""
    from ..fold import FuncVal, FoldRaise, is_unknown
    eng = ctx.eng
    P, F = eng.prog, eng.folder
    fn = P.func("registry:validate_registry_header")
    HP = P.cls("registry:HeaderParameter")
    problems: List[str] = []
    F.start_trace()
    try:
        reg = {"alg": F.instantiate(HP, ["A", "str", True], {}), "n": F.instantiate(HP, ["N", "int"], {}), "l": F.instantiate(HP, ["L", "list[str]"], {}),
               "x-req": F.instantiate(HP, ["X", "str", True], {})}
        if any(is_unknown(F.get_attr(v_, "validate")) or F.get_attr(v_, "required") not in (True, False) for v_ in reg.values()):
            return None
        spec = {"alg": (str, True), "n": (int, False), "l": (list, False), "x-req": (str, True)}
        headers = [{}, {"alg": "a"}, {"x-req": "v"}, {"alg": "a", "x-req": "v"}, {"alg": "a", "n": 1, "x-req": "v"}, {"alg": "a", "n": 0, "x-req": "v"}, {"alg": "a", "n": "1", "x-req": "v"},
                   {"alg": "a", "n": None, "x-req": "v"}, {"alg": None, "x-req": "v"}, {"alg": "", "x-req": ""}, {"alg": "a", "l": [], "x-req": "v"}, {"alg": "a", "l": ["x", 1], "x-req": "v"},
                   {"alg": "a", "l": None, "x-req": "v"}, {"alg": "a", "x-req": None}, {"alg": "a", "x-req": "v", "zz": [1]}, {"zz": 1, "alg": "a", "typ": "JWT"}, {"alg": 1, "x-req": "v"}]
        for hdr in headers:
            for cr in (True, False, None):
                def ok_member(k):
                    v_ = hdr[k]
                    ty = spec[k][0]
                    if ty is list:
                        return isinstance(v_, list) and all(isinstance(x_, str) for x_ in v_)
                    return isinstance(v_, ty)
                required = True if cr is None else cr
                want_ok = all(ok_member(k) for k in hdr if k in spec) and (not required or all(k in hdr for k, (_t, rq) in spec.items() if rq))
                args = [reg, dict(hdr)] + ([] if cr is None else [cr])
                try:
                    r = F.call(FuncVal(fn, None, None), args, {})
                    if is_unknown(r):
                        return None
                    got = "ok"
                except FoldRaise as ex:
                    got = getattr(ex, "name", "") or "?"
                where = f"header {hdr!r}, check_required={'default' if cr is None else cr}"
                if want_ok and got != "ok":
                    problems.append(f"refuses a valid header ({where}: {got})")
                elif not want_ok and got == "ok":
                    problems.append(f"accepts {where}")
                elif not want_ok and got != "ValueError":
                    problems.append(f"refuses {where} with {got}, not ValueError")
    finally:
        sided = F.one_sided(ignore=(".__init__",))
    return None if sided else problems


@_ioe
def _csh_folded(ctx) -> Optional[List[str]]:
    """Fold check_supported_header on probe (registry, header) pairs: ValueError exactly when the header holds a name the registry lacks.  Names that
    are substrings / case variants of registered ones, the empty registry and the empty header are among the probes.  None when inconclusive."""
    from ..fold import FuncVal, FoldRaise, is_unknown
    eng = ctx.eng
    P, F = eng.prog, eng.folder
    fn = P.func("registry:check_supported_header")
    problems: List[str] = []
    regs = [{}, {"alg": 1}, {"alg": 1, "kid": 2, "crit": 3}, {"algx": 1, "ki": 2}]
    hdrs = [{}, {"alg": "a"}, {"kid": "k"}, {"alg": "a", "kid": "k"}, {"al": "a"}, {"ALG": "a"}, {"alg": "a", "zz": None}, {"zz": 0, "alg": "a"}, {"alg": "a", "kid": "k", "crit": [], "x": 1},
            {"algx": 1}, {"ki": 1, "kid": 2}, {"": 1}]
    F.start_trace()
    try:
        for reg in regs:
            for hdr in hdrs:
                want_ok = all(k in reg for k in hdr)
                try:
                    r = F.call(FuncVal(fn, None, None), [dict(reg), dict(hdr)], {})
                    if is_unknown(r):
                        return None
                    got = "ok"
                except FoldRaise as ex:
                    got = getattr(ex, "name", "") or "?"
                where = f"registry names {sorted(reg)}, header {hdr!r}"
                if want_ok and got != "ok":
                    problems.append(f"refuses a header of registered names only ({where}: {got})")
                elif not want_ok and got == "ok":
                    problems.append(f"accepts an unregistered name ({where})")
                elif not want_ok and got != "ValueError":
                    problems.append(f"refuses {where} with {got}, not ValueError")
    finally:
        sided = F.one_sided()
    return None if sided else problems


@_ioe
def _crit_folded(ctx) -> Optional[List[str]]:
    """Fold check_crit_header on probe headers whose "crit" is a list of str (other shapes are E2b / E9's business): ValueError exactly when some
    listed name is not a member of the header - first, middle or last in the list; no "crit" and an empty list pass.  None when inconclusive."""
    from ..fold import FuncVal, FoldRaise, is_unknown
    eng = ctx.eng
    P, F = eng.prog, eng.folder
    fn = P.func("registry:check_crit_header")
    problems: List[str] = []
    hdrs = [{}, {"alg": "a"}, {"alg": "a", "crit": []}, {"alg": "a", "crit": ["alg"]}, {"alg": "a", "crit": ["b64"]}, {"alg": "a", "b64": False, "crit": ["b64"]},
            {"alg": "a", "b64": None, "x": 0, "crit": ["b64", "x"]}, {"alg": "a", "b64": False, "crit": ["b64", "x"]}, {"alg": "a", "x": 1, "crit": ["b64", "x"]},
            {"alg": "a", "x": 1, "y": 2, "crit": ["x", "zz", "y"]}, {"alg": "a", "crit": ["crit"]}, {"alg": "a", "crit": ["al"]}, {"alg": "a", "crit": ["ALG"]}, {"alg": "a", "crit": [""]}]
    F.start_trace()
    try:
        for hdr in hdrs:
            want_ok = all(k in hdr for k in hdr.get("crit", []))
            try:
                r = F.call(FuncVal(fn, None, None), [{k: (list(v) if isinstance(v, list) else v) for k, v in hdr.items()}], {})
                if is_unknown(r):
                    return None
                got = "ok"
            except FoldRaise as ex:
                got = getattr(ex, "name", "") or "?"
            if want_ok and got != "ok":
                problems.append(f"refuses header {hdr!r} whose critical names are all present ({got})")
            elif not want_ok and got == "ok":
                problems.append(f"accepts header {hdr!r}: a name listed in crit is not a member of the header")
            elif not want_ok and got != "ValueError":
                problems.append(f"refuses header {hdr!r} with {got}, not ValueError")
    finally:
        sided = F.one_sided(ignore=("is_list_str",))
    return None if sided else problems


def r15_4(ctx) -> None:
    eng = ctx.eng
    P = eng.prog
    # validate_registry_header
    v = P.func("registry:validate_registry_header")
    folded = _vrh_folded(ctx)
    if folded is not None:
        ctx.check(not folded, "R15.4", v, v.node, "validate_registry_header (folded on probe registries / headers)", "validate_registry_header " + "; ".join(folded[:2]),
                  "required names enforced wherever they stand; every present member validated; unknown names ignored", construct="validate_registry_header verdicts")
        _r15_4_rest(ctx)
        return
    _r15_4_shape(ctx)
    _r15_4_rest(ctx)


def _r15_4_shape(ctx) -> None:
    eng = ctx.eng
    P = eng.prog
    v = P.func("registry:validate_registry_header")
    cfg = cfg_of(v)
    rp, hp = v.pos_params[0], v.pos_params[1]
    loops = [l for l in cfg.nodes if l.kind == "loop"]
    ok_loop = len(loops) == 1 and norm(loops[0].ast.iter) in (f"{rp}.items()", rp)  # type: ignore[union-attr]
    ctx.check(ok_loop, "R15.4", v, v.node, "validate_registry_header :: iterates the registry", "validate_registry_header does not visit every registered parameter",
              "for key, reg in registry.items()", construct="registry iteration")
    # missing required
    atoms_seen = set()
    for t in cfg.nodes:
        if t.kind == "test":
            atoms_seen.add(norm(t.ast))
    K, V = "key", "reg"
    if ok_loop:
        tg = loops[0].ast.target  # type: ignore[union-attr]
        if isinstance(tg, ast.Tuple) and len(tg.elts) == 2 and norm(loops[0].ast.iter).endswith(".items()"):  # type: ignore[union-attr]
            K, V = norm(tg.elts[0]), norm(tg.elts[1])
        elif isinstance(tg, ast.Name):
            K, V = tg.id, f"{rp}[{tg.id}]"
    crp = v.pos_params[2] if len(v.pos_params) > 2 else "check_required"
    need = {crp, f"{V}.required"}
    missing_test = [t for t in cfg.nodes if t.kind == "test" and isinstance(t.ast, ast.Compare) and isinstance(t.ast.ops[0], ast.NotIn)
                    and norm(t.ast.comparators[0]) == hp]
    ok_req = need <= atoms_seen and bool(missing_test) and all(not _falls_back(cfg, s, loops) for t in missing_test for s in succ_by_label(cfg, t, "true"))
    # the three atoms guard one raise: with all three true no path continues
    if ok_req and loops:
        def ef(a, b, lab):
            if a.kind == "test" and norm(a.ast) in need and lab == "false":
                return False
            if a in missing_test and lab == "false":
                return False
            return True
        for s0 in succ_by_label(cfg, loops[0], "iter"):
            r = cfg.reachable(s0, edge_filter=ef)
            if loops[0] in r or cfg.exit in r:
                ok_req = False
    ctx.check(ok_req, "R15.4", v, v.node, "validate_registry_header :: missing required", "a required parameter that is absent does not always raise", "raise iff check_required and reg.required and key not in header",
              construct="missing-required raise")
    # type validation of present parameters; failures propagate as ValueError
    vcalls = [s for s in eng.cg.calls_in(v) if isinstance(s.node, ast.Call) and s.attr == "validate" and s.node.args and norm(s.node.args[0]) == f"{hp}[{K}]" and norm(s.node.func.value) == V]
    present = [t for t in cfg.nodes if t.kind == "test" and isinstance(t.ast, ast.Compare) and isinstance(t.ast.ops[0], ast.In) and norm(t.ast.comparators[0]) == hp]
    ok_val = bool(vcalls) and bool(present)
    if ok_val:
        vn = [cfg.node_of(s.node) for s in vcalls]
        for t in present:
            for s0 in succ_by_label(cfg, t, "true"):
                r = cfg.reachable(s0, [x for x in vn if x is not None], follow_exc=False)
                if (loops and loops[0] in r) or cfg.exit in r:
                    ok_val = False
        # handlers must not swallow
        for h in [x for x in cfg.nodes if x.kind == "handler"]:
            r = cfg.reachable(h)
            if (loops and loops[0] in r) or cfg.exit in r:
                ok_val = False
    ctx.check(ok_val, "R15.4", v, v.node, "validate_registry_header :: type validation", "a present parameter is not always validated, or a validation failure is swallowed",
              "reg.validate(header[key]) for every present key; errors re-raised", construct="type validation of present parameters")


def _r15_4_rest(ctx) -> None:
    eng = ctx.eng
    P = eng.prog
    # check_crit_header
    c = P.func("registry:check_crit_header")
    cfg = cfg_of(c)
    hp = c.pos_params[0]
    loops = [l for l in cfg.nodes if l.kind == "loop" and norm(l.ast.iter) in (f"{hp}['crit']", f"{hp}.get('crit')", "crit")]  # type: ignore[union-attr]
    ok = False
    if loops:
        tv = norm(loops[0].ast.target)  # type: ignore[union-attr]
        for t in cfg.nodes:
            if t.kind == "test" and isinstance(t.ast, ast.Compare) and norm(t.ast.left) == tv and norm(t.ast.comparators[0]) == hp \
                    and isinstance(t.ast.ops[0], (ast.NotIn, ast.In)):
                lab = "true" if isinstance(t.ast.ops[0], ast.NotIn) else "false"
                if all(not _falls_back(cfg, s0, loops) for s0 in succ_by_label(cfg, t, lab)):
                    # every iteration reaches the test
                    other = "false" if lab == "true" else "true"
                    cont = all(cfg.exit not in cfg.reachable(s0, [loops[0]]) for s0 in succ_by_label(cfg, t, other))
                    if cont and all(cfg.must_pass(s0, loops[0], [t]) for s0 in succ_by_label(cfg, loops[0], "iter")):
                        ok = True
    cf = _crit_folded(ctx)
    if cf is not None:
        ctx.check(not cf, "R15.4", c, c.node, "check_crit_header", "check_crit_header " + "; ".join(cf[:2]), "raise iff some name listed in crit is not a member of the header",
                  construct="crit presence check")
    else:
        ctx.check(ok, "R15.4", c, c.node, "check_crit_header", "a name listed in crit that is absent from the header does not always raise", "for k in header['crit']: raise iff k not in header",
                  construct="crit presence check")
    # check_supported_header
    s_ = P.func("registry:check_supported_header")
    cfg = cfg_of(s_)
    rp, hp = s_.pos_params[0], s_.pos_params[1]
    ok = False
    for t in cfg.nodes:
        if t.kind == "test" and isinstance(t.ast, ast.Name):
            defs = [d for d in eng.flow._defs(s_).get(t.ast.id, []) if d[0] == "assign"]
            if len(defs) == 1 and isinstance(defs[0][1], ast.BinOp) and isinstance(defs[0][1].op, ast.Sub):
                l, r = defs[0][1].left, defs[0][1].right
                lt = _set_source(eng, s_, l)
                rt = _set_source(eng, s_, r)
                if lt == hp and rt == rp and not can_reach_exit(cfg, succ_by_label(cfg, t, "true")) and cfg.dominates(t, cfg.exit):
                    ok = True
    if not ok:
        # comprehension form: {name for name in <header names> if name not in <registry names>} tested for non-emptiness
        for t in cfg.nodes:
            if t.kind == "test" and isinstance(t.ast, ast.Name):
                defs = [d for d in eng.flow._defs(s_).get(t.ast.id, []) if d[0] == "assign"]
                if len(defs) == 1 and isinstance(defs[0][1], (ast.SetComp, ast.ListComp)) and len(defs[0][1].generators) == 1 and len(defs[0][1].generators[0].ifs) == 1:
                    comp = defs[0][1]
                    g = comp.generators[0]
                    c0 = g.ifs[0]
                    if isinstance(g.target, ast.Name) and norm(comp.elt) == g.target.id and isinstance(c0, ast.Compare) and len(c0.ops) == 1 and isinstance(c0.ops[0], ast.NotIn) \
                            and norm(c0.left) == g.target.id and _set_source(eng, s_, g.iter) == hp and _set_source(eng, s_, c0.comparators[0]) == rp \
                            and not can_reach_exit(cfg, succ_by_label(cfg, t, "true")) and cfg.dominates(t, cfg.exit):
                        ok = True
    if not ok:
        # loop form
        for l in [x for x in cfg.nodes if x.kind == "loop" and norm(x.ast.iter) in (hp, f"{hp}.keys()")]:  # type: ignore[union-attr]
            tv = norm(l.ast.target)  # type: ignore[union-attr]
            for t in cfg.nodes:
                if t.kind == "test" and isinstance(t.ast, ast.Compare) and norm(t.ast.left) == tv and norm(t.ast.comparators[0]) == rp and isinstance(t.ast.ops[0], ast.NotIn):
                    if all(not _falls_back(cfg, s0, [l]) for s0 in succ_by_label(cfg, t, "true")):
                        ok = True
    sf = _csh_folded(ctx)
    if sf is not None:
        ctx.check(not sf, "R15.4", s_, s_.node, "check_supported_header", "check_supported_header " + "; ".join(sf[:2]), "raise iff set(header) - set(registry) is non-empty",
                  construct="unknown parameter check")
    else:
        ctx.check(ok, "R15.4", s_, s_.node, "check_supported_header", "a header key outside the registry does not always raise", "raise iff set(header) - set(registry) is non-empty",
                  construct="unknown parameter check")


def _set_source(eng, fn, e) -> Optional[str]:
    if isinstance(e, ast.Name):
        defs = [d for d in eng.flow._defs(fn).get(e.id, []) if d[0] == "assign"]
        if len(defs) == 1:
            return _set_source(eng, fn, defs[0][1])
        return None
    if isinstance(e, ast.Call) and isinstance(e.func, ast.Name) and e.func.id == "set" and e.args:
        a = e.args[0]
        if isinstance(a, ast.Call) and isinstance(a.func, ast.Attribute) and a.func.attr == "keys":
            return norm(a.func.value)
        return norm(a)
    return None


def _falls_back(cfg: CFG, start: CNode, loops: List[CNode]) -> bool:
    """can control continue (next iteration or normal exit) from here"""
    r = cfg.reachable(start)
    return cfg.exit in r or any(l in r for l in loops)


# ----------------------------------------------------------------------------------------------- R15.5
@_ioe
def _fold_registry_merge(ctx, cls, default_table):
    """Fold the constructor on probes: the instance table is a fresh dict holding the defaults overlaid with the caller's entries; neither
    the default table nor the caller's dict is aliased or changed.  None when the constructor does not fold."""
    from ..fold import ExtVal, FoldRaise, is_unknown
    F = ctx.eng.folder
    if not isinstance(default_table, dict):
        return None
    snap = dict(default_table)
    problems: List[str] = []
    F.start_trace()
    try:
        probe = {"x-jv-probe": ExtVal("PROBE"), "kid": ExtVal("OVERRIDE")}
        psnap = dict(probe)
        a = F.instantiate(cls, [], {"header_registry": probe})
        b = F.instantiate(cls, [], {})
        c = F.instantiate(cls, [], {"header_registry": {"x-jv-other": ExtVal("PROBE2")}})
    except (FoldRaise, AnalysisError):
        F.one_sided()
        return None
    if F.one_sided():
        return None
    ha, hb, hc = (x.attrs.get("header_registry") if hasattr(x, "attrs") else None for x in (a, b, c))
    if not all(isinstance(h, dict) for h in (ha, hb, hc)) or any(is_unknown(k) for h in (ha, hb, hc) for k in h):
        default_table.clear()
        default_table.update(snap)
        return None
    if dict(default_table) != snap:
        problems.append(f"constructing a registry changes the shared default table (now holds {sorted(set(default_table) ^ set(snap))} in addition)")
        default_table.clear()
        default_table.update(snap)
    if ha is default_table or hb is default_table or ha is hb or hb is hc:
        problems.append("the instance table is the shared default table itself, not a copy")
    if ha is probe or probe != psnap:
        problems.append("the caller's dict is used / changed in place")
    want = dict(snap)
    want.update(psnap)
    if not problems and (set(ha) != set(want) or ha.get("kid") is not psnap["kid"] or ha.get("x-jv-probe") is not psnap["x-jv-probe"]):
        problems.append(f"with a caller table the instance table holds {sorted(set(ha) ^ set(want))} differently / the caller's entry does not win")
    if not problems and (set(hb) != set(snap) or any(hb[k] is not snap[k] for k in snap)):
        problems.append("without a caller table the instance table is not the default table's content")
    if not problems and "x-jv-probe" in hc:
        problems.append("entries registered for one instance show up in another")
    return problems


def r15_5(ctx, family: Optional[str] = None) -> None:
    eng = ctx.eng
    P = eng.prog
    for rname, default in ((REGS[0], "self.default_header_registry"), (REGS[1], "JWE_HEADER_REGISTRY")):
        if (family == "jws" and rname == REGS[1]) or (family == "jwe" and rname == REGS[0]):
            continue
        init = P.cls(rname).lookup("__init__")
        if init is None:
            raise AnalysisError(f"{rname}.__init__ vanished")
        table = eng.folder.class_attr(P.cls(rname), "default_header_registry") if default.startswith("self.") else eng.folder.module_value(P.cls(rname).module, default)
        folded = _fold_registry_merge(ctx, P.cls(rname), table)
        if folded is not None:
            ctx.check(not folded, "R15.5", init, init.node, f"{init.short} (folded on probes)", "the caller's header registry is not merged into a fresh per-instance copy of the default table"
                      + (": " + folded[0] if folded else ""), "fresh dict = defaults overlaid with the caller's table", construct="registry merge")
            continue
        cfg = cfg_of(init)
        sn = init.self_name
        upd_def = upd_caller = None
        for n in fn_nodes(init):
            if isinstance(n, ast.Call) and isinstance(n.func, ast.Attribute) and n.func.attr == "update" and norm(n.func.value) == f"{sn}.header_registry" and n.args:
                a = norm(n.args[0])
                if a == "header_registry":
                    upd_caller = n
                elif a.replace("self", sn) == default.replace("self", sn):
                    upd_def = n
        fresh = [n for n in fn_nodes(init) if isinstance(n, (ast.Assign, ast.AnnAssign)) and
                 norm(n.targets[0] if isinstance(n, ast.Assign) else n.target) == f"{sn}.header_registry" and isinstance(n.value, ast.Dict) and not n.value.keys]
        ok = upd_def is not None and upd_caller is not None and bool(fresh)
        if ok:
            cn, dn = cfg.node_of(upd_caller), cfg.node_of(upd_def)
            # caller's table is merged whenever given, after the defaults (so that it wins)
            tests = [t for t in cfg.nodes if t.kind == "test" and isinstance(t.ast, ast.Compare) and norm(t.ast.left) == "header_registry" and is_const(t.ast.comparators[0], None)]
            tests += [t for t in cfg.nodes if t.kind == "test" and norm(t.ast) == "header_registry"]
            ok = cn is not None and dn is not None and cfg.must_pass(cfg.entry, cn, [dn]) and bool(tests)
            if ok:
                for t in tests:
                    lab = "true" if (isinstance(t.ast, ast.Name) or isinstance(t.ast.ops[0], ast.IsNot)) else "false"  # type: ignore[union-attr]
                    for s0 in succ_by_label(cfg, t, lab):
                        if cfg.exit in cfg.reachable(s0, [cn]) and s0 is not cn:
                            ok = False
        ctx.check(ok, "R15.5", init, init.node, f"{init.short}", "the caller's header registry is not merged into a fresh per-instance copy of the default table",
                  "self.header_registry = {} ; update(defaults) ; update(caller table) when given", construct="registry merge")


def _position_name(txt: str) -> str:
    return txt.split(".")[-1].lstrip("_")


@_ioe
def _shadow_pairs_folded(ctx):
    """Fold the two `headers()` merges on probes that carry one name ("kid") in two positions: for each ordered pair of positions, is the overlap
    refused (the call raises) or does one copy silently win?  -> [(function, shadowed position, shadowing position, refused)] or None when inconclusive."""
    from ..fold import FuncVal, FoldRaise, is_unknown, Inst
    eng = ctx.eng
    P, F = eng.prog, eng.folder
    out = []
    F.start_trace()
    try:
        # JWS: HeaderMember(protected, header)
        HM = P.cls("rfc7515.model:HeaderMember")
        hm = HM.methods.get("headers")
        R = P.cls("rfc7516.models:Recipient")
        rh = R.methods.get("headers")
        G = P.cls("rfc7516.models:GeneralJSONEncryption")
        if hm is None or rh is None:
            return None

        def run(fn, inst):
            try:
                got = F.call(FuncVal(fn, None, inst), [], {})
            except FoldRaise:
                return "raise"
            if is_unknown(got) or not isinstance(got, dict) or is_unknown(got.get("kid")):
                return None
            return got.get("kid")
        # sanity: without an overlap nothing is refused
        m0 = F.instantiate(HM, [{"alg": "A", "kid": "p"}, {"x": 1}], {})
        if run(hm, m0) != "p":
            return None
        m1 = F.instantiate(HM, [{"alg": "A", "kid": "p"}, {"kid": "h"}], {})
        r = run(hm, m1)
        if r is None:
            return None
        out.append((hm, "protected", "header", r == "raise") if r in ("h", "raise") else (hm, "header", "protected", False))
        for (pa, pb, pr, un, hd) in (("protected", "unprotected", {"enc": "E", "kid": "p"}, {"kid": "u"}, {"alg": "A"}),
                                     ("protected", "header", {"enc": "E", "kid": "p"}, {"jku": "j"}, {"alg": "A", "kid": "h"}),
                                     ("unprotected", "header", {"enc": "E"}, {"kid": "u"}, {"alg": "A", "kid": "h"})):
            par = F.instantiate(G, [dict(pr), b"m", dict(un)], {})
            rc = F.instantiate(R, [par, dict(hd), None], {})
            if not isinstance(par, Inst) or not isinstance(rc, Inst):
                return None
            r = run(rh, rc)
            if r is None:
                return None
            first = {"protected": "p", "unprotected": "u", "header": "h"}
            if r == "raise":
                out.append((rh, pa, pb, True))
            elif r == first[pb]:
                out.append((rh, pa, pb, False))
            elif r == first[pa]:
                out.append((rh, pb, pa, False))
            else:
                return None
        par = F.instantiate(G, [{"enc": "E", "kid": "p"}, b"m", {"jku": "j"}], {})
        rc = F.instantiate(R, [par, {"alg": "A"}, None], {})
        if run(rh, rc) != "p":
            return None
        # the other outcomes of the merge's own tests: no shared header, an empty one, no recipient header, a compact message, empty JWS members
        CE = P.cls("rfc7516.models:CompactEncryption")
        for par_, hd_ in ((F.instantiate(G, [{"enc": "E", "kid": "p"}, b"m", None], {}), None), (F.instantiate(G, [{"enc": "E", "kid": "p"}, b"m", {}], {}), {}),
                          (F.instantiate(CE, [{"enc": "E", "kid": "p"}, b"m"], {}), None), (F.instantiate(CE, [{"enc": "E", "kid": "p"}, b"m"], {}), {"kid": "h"})):
            rc = F.instantiate(R, [par_, hd_, None], {})
            if run(rh, rc) not in ("p", "h", "raise"):
                return None
        for a_, b_ in ((None, None), ({}, {"kid": "h"}), ({"kid": "p"}, None), ({"kid": "p"}, {})):
            run(hm, F.instantiate(HM, [a_, b_], {}))
    finally:
        sided = F.one_sided(ignore=("__init__",))
    return None if sided else out


def r15_8(ctx) -> None:
    """R15.8  the header that is validated is a merged view of the header positions.  The view stands for every position only if no member
    of one position can hide the member of the same name in another: wherever a `headers()` merge lets a later position overwrite an earlier
    one (dict.update order) with no refusal of overlapping names in between, the overwritten copy of a registered parameter is never
    type-checked - yet it is emitted / accepted.  Reported per (shadowed position, shadowing position) pair."""
    eng = ctx.eng
    from .common import resolve_all
    n = 0
    pairs = _shadow_pairs_folded(ctx)
    if pairs is not None:
        for fn, pa, pb, refused in pairs:
            n += 1
            ctx.check(refused, "R15.8", fn, fn.node, f"{fn.short} :: {pa} then {pb}", f"in the merged header view a member of the `{pa}` position is overwritten by the member of the "
                      f"same name in the `{pb}` position; only the surviving copy is validated, the hidden one is emitted / accepted unchecked "
                      f"(e.g. an ill-typed \"kid\" in `{pa}` next to a well-typed one in `{pb}`)",
                      "refuse overlapping names (RFC 7515 7.2.1 / RFC 7516 7.2.1) or validate each position", construct=f"{pa} header shadowed by {pb} header in {fn.short}")
        ctx.count("R15.8", n, 4, "ordered pairs of header positions merged by headers()")
        return
    for fn in eng.prog.all_functions():
        if fn.name != "headers" or fn.cls is None:
            continue
        cfg = cfg_of(fn)
        ups = []
        for node in fn_nodes(fn):
            if isinstance(node, ast.Call) and isinstance(node.func, ast.Attribute) and node.func.attr == "update" and len(node.args) == 1 and isinstance(node.func.value, ast.Name):
                cn = cfg.node_of(node)
                if cn is not None:
                    ups.append((node, cn))
        if len(ups) < 2:
            continue
        ups.sort(key=lambda x: (x[0].lineno, x[0].col_offset))
        for i, (a, ca) in enumerate(ups):
            for b, cb in ups[i + 1:] + ups[:i]:
                if cb not in cfg.reachable(ca) or cb is ca:
                    continue
                n += 1
                pa, pb = _position_name(norm(a.args[0])), _position_name(norm(b.args[0]))
                # a refusal of overlapping names between the two updates: a test mentioning isdisjoint / an intersection whose bad branch raises
                refused = False
                for t in cfg.nodes:
                    if t.kind == "test" and ("isdisjoint" in norm(t.ast) or " & " in norm(t.ast)) and cfg.dominates(t, cb):
                        refused = True
                ctx.check(refused, "R15.8", fn, b, f"{fn.short} :: {pa} then {pb}", f"in the merged header view a member of the `{pa}` position is overwritten by the member of the "
                          f"same name in the `{pb}` position; only the surviving copy is validated, the hidden one is emitted / accepted unchecked "
                          f"(e.g. an ill-typed \"kid\" in `{pa}` next to a well-typed one in `{pb}`)",
                          "refuse overlapping names (RFC 7515 7.2.1 / RFC 7516 7.2.1) or validate each position", construct=f"{pa} header shadowed by {pb} header in {fn.short}")
    ctx.count("R15.8", n, 4, "ordered pairs of header positions merged by headers()")


def r15_10(ctx) -> None:
    """R15.10  "a header is accepted only if ... every registered parameter has the JSON type its registry entry demands ... otherwise the operation fails":
    on the JWS producing side the key resolution may WRITE the header (a key picked from a set records its kid - over a `kid` member that is falsy,
    whatever its type).  The header is therefore judged before the key is resolved: in every JWS function that does both, `check_header` dominates the
    call that resolves the key."""
    eng = ctx.eng
    P = eng.prog
    from .common import in_family
    chk = _check_header_impls(eng)
    gk = P.func("jwk:guess_key")
    n = 0
    for fn in P.all_functions():
        if fn.name == "<module>" or not in_family(fn, "jws") or in_family(fn, "jwe"):
            continue
        cfg = None
        csites = [s_ for s_ in eng.cg.calls_in(fn) if isinstance(s_.node, ast.Call) and s_.callees and all(c in chk for c in s_.callees)]
        if not csites:
            continue
        res = []
        for s_ in eng.cg.calls_in(fn):
            if not isinstance(s_.node, ast.Call):
                continue
            if gk in s_.callees:
                ur = eng.cg.arg_for_param(s_, gk, "use_random")
                if ur is not None and not is_const(ur, False):
                    res.append(s_)
            elif isinstance(s_.node.func, ast.Name) and s_.node.func.id == "find_key" and len(s_.node.args) == 1 and "sign" in fn.name:
                res.append(s_)
        if not res:
            continue
        cfg = cfg_of(fn)
        cn = [cfg.node_of(s_.node) for s_ in csites]
        cn = [c for c in cn if c is not None]
        for s_ in res:
            n += 1
            R = cfg.node_of(s_.node)
            ok = R is not None and bool(cn) and cfg.must_pass(cfg.entry, R, cn)
            ctx.check(ok, "R15.10", fn, s_.node, f"{fn.short} :: header judged before {norm(s_.node)[:40]}", f"`{norm(s_.node)[:50]}` may record a kid in the header before check_header "
                      "has judged it: an ill-typed falsy `kid` is overwritten and the token is produced", "registry.check_header(...) before the key is resolved",
                      construct=f"key resolution before check_header in {fn.short}")
    ctx.count("R15.10", n, 2, "JWS producing sites that resolve a key after the header check")


def r15_9(ctx) -> None:
    """R15.9  "no unregistered parameter is present": the set of admitted names in check_supported_header comes from the registry given by the
    caller alone - nothing the header under test says (its crit list, its own keys) can extend it."""
    eng = ctx.eng
    from .common import derives_from_param
    fn = eng.prog.func("registry:check_supported_header")
    rp, hp = fn.pos_params[0], fn.pos_params[1]
    n = 0
    for node in fn_nodes(fn):
        adm = None
        if isinstance(node, ast.BinOp) and isinstance(node.op, ast.Sub):
            adm = node.right
        elif isinstance(node, ast.Call) and isinstance(node.func, ast.Attribute) and node.func.attr in ("difference", "issubset", "difference_update") and node.args:
            adm = node.args[0]
        elif isinstance(node, ast.Compare) and len(node.ops) == 1 and isinstance(node.ops[0], (ast.In, ast.NotIn)) and derives_from_param(eng, fn, node.left, hp):
            adm = node.comparators[0]
        elif isinstance(node, ast.Compare) and len(node.ops) == 1 and isinstance(node.ops[0], (ast.LtE, ast.Lt)) and derives_from_param(eng, fn, node.left, hp):
            adm = node.comparators[0]
        if adm is None:
            continue
        n += 1
        bad = derives_from_param(eng, fn, adm, hp)
        good = derives_from_param(eng, fn, adm, rp)
        ctx.check(good and not bad, "R15.9", fn, node, f"{fn.short} :: admitted names `{norm(adm)}`", f"the set of admitted header names "
                  f"{'is extended from the header under test' if bad else 'does not come from the registry'}: a parameter can admit itself (e.g. by being listed in crit)",
                  f"names of `{rp}` only", construct="admitted header names derive from the header under test" if bad else "admitted header names not from the registry")
    ctx.count("R15.9", n, 1, "admission tests in check_supported_header")


def run(ctx) -> None:
    from .common import forwarding_discipline
    ctx.guard(forwarding_discipline, "R15.7", ['registry', 'header', 'protected', 'obj', 'strict_check_header', 'header_registry'], 43)  # arguments are handed on under their own name (generic routing rule, rules/common.py)
    from .c04 import r04_4
    ctx.guard_as("R15.6", r04_4)  # what check_header validates is the union of protected, shared unprotected and per-recipient members
    from .c05 import r05_10 as _r05_10
    ctx.guard_as("R15.11", _r05_10)  # "a caller-registered parameter ... is enforced": the registry the caller passed (its header table) is the one that judges, never a replacement
    ctx.guard(r15_8)
    ctx.guard(r15_9)
    ctx.guard(r15_10)
    ctx.guard(r15_1)
    ctx.guard(r15_2)
    ctx.guard(r15_3)
    ctx.guard(r15_4)
    ctx.guard(r15_5)
    ctx.assume("RFC 7515 4.1 / RFC 7516 4.1 / RFC 7518 4.x / RFC 7797 3 parameter tables as transcribed in jv/spec/tables.py")
