"""C11 - JWK import/export round-trips key material across JWK, PEM and DER (structural clauses).

R11.1 EC x / y / d are exported with a fixed-width encoder whose length derives from the curve size
R11.2 RSA members use the minimal unsigned big-endian codec; OKP members are the raw bytes
R11.3 member-set symmetry of exporters, importers and the value registries
R11.4 validate-before-import           R11.5 RSA CRT members all-or-none
R11.6 imports end in pyca's validating constructors (no unsafe_skip_rsa_key_validation)
R11.7 JWK parameter registry = RFC 7517 table     R11.8 a dict-imported key keeps the members it was given
"""
from __future__ import annotations
import ast
from typing import Dict, List, Optional, Set, Tuple

from ..program import AnalysisError, ClassInfo, FunctionInfo, fn_nodes, norm
from ..cfg import cfg_of
from ..fold import FuncVal, Inst, is_unknown
from ..spec import tables as T
from .common import inconclusive_on_error as _ioe
from .common import resolve_all, can_reach_exit, const_value, is_const, names_in, succ_by_label
from .c05 import _resolve_local

BINDINGS = {"RSAKey": "rfc7518.rsa_key:RSABinding", "ECKey": "rfc7518.ec_key:ECBinding", "OKPKey": "rfc8037.okp_key:OKPBinding"}
KEYS = {"OctKey": "rfc7518.oct_key:OctKey", "RSAKey": "rfc7518.rsa_key:RSAKey", "ECKey": "rfc7518.ec_key:ECKey", "OKPKey": "rfc8037.okp_key:OKPKey"}


def _dict_members(fn: FunctionInfo) -> Dict[str, ast.expr]:
    """members of the dict(s) an exporter builds: display entries and subscript stores"""
    out: Dict[str, ast.expr] = {}
    for n in fn_nodes(fn):
        if isinstance(n, ast.Dict):
            for k, v in zip(n.keys, n.values):
                if k is not None and isinstance(k, ast.Constant) and isinstance(k.value, str):
                    out[k.value] = v
        if isinstance(n, ast.Assign) and isinstance(n.targets[0], ast.Subscript) and isinstance(n.targets[0].slice, ast.Constant):
            out[n.targets[0].slice.value] = n.value
    return out


def _is_ceil_bytes(eng, fn: FunctionInfo, e: ast.AST) -> bool:
    """e (with locals inlined) is ceil(<..key_size..> / 8)"""
    txt = _resolve_local(eng, fn, e)
    t = txt.replace(" ", "")
    if "key_size" not in t and "curve_key_size" not in t:
        return False
    return (t.startswith("(") and t.endswith("+7)//8")) or (t.startswith("-(-") and t.endswith("//8)")) or (t.startswith("math.ceil(") and t.endswith("/8)"))


def fixed_width_ec(ctx, rule: str) -> None:
    """shared by C11 R11.1 and C13 R13.3"""
    eng = ctx.eng
    P = eng.prog
    B = P.cls(BINDINGS["ECKey"])
    n = 0
    for ex in ("export_private_key", "export_public_key"):
        fn = B.methods.get(ex)
        if fn is None:
            raise AnalysisError(f"ECBinding.{ex} vanished")
        mem = _dict_members(fn)
        for m in ("x", "y") + (("d",) if ex == "export_private_key" else ()):
            n += 1
            v = mem.get(m)
            inst = f"{fn.short} :: {m}"
            if v is None:
                ctx.fail(rule, fn, fn.node, f"EC member {m} is not exported", construct=f"EC member {m} of {ex}")
                continue
            ok, why = _fixed_width_value(eng, fn, v)
            ctx.check(ok, rule, fn, v, inst, f"EC member {m} is not encoded with the fixed coordinate length of the curve ({why}): keys whose coordinate has leading zero "
                      "octets export a shorter member, so another implementation and the RFC 7638 thumbprint disagree", why, construct=f"EC member {m} of {ex}")
    ctx.count(rule, n, 5, "exported EC coordinates")


def _fixed_width_value(eng, fn: FunctionInfo, v: ast.expr) -> Tuple[bool, str]:
    if not isinstance(v, ast.Call):
        return False, "not an encoder call"
    s = eng.cg.site_of.get(id(v))
    # minimal codec
    if s is not None and any(c.short == "util:int_to_base64" for c in s.callees):
        return False, "minimal-length int_to_base64"
    # helper(num, size) whose body does num.to_bytes(size, 'big')
    if s is not None and s.callees:
        for h in s.callees:
            tb = [x for x in fn_nodes(h) if isinstance(x, ast.Call) and isinstance(x.func, ast.Attribute) and x.func.attr == "to_bytes"]
            ei = [x for x in eng.cg.calls_in(h) if isinstance(x.node, ast.Call) and any(c.short == "rfc7518.util:encode_int" for c in x.callees)]
            if not tb and not ei:
                return False, f"helper {h.short} has no fixed-length conversion"
            for x in tb:
                if len(x.args) < 2 or const_value(x.args[1]) != "big":
                    return False, "to_bytes is not big-endian"
                L = x.args[0]
                if isinstance(L, ast.Name) and L.id in h.params:
                    a = eng.cg.arg_for_param(s, h, L.id)
                    if a is None or not _is_ceil_bytes(eng, fn, a):
                        return False, f"length argument {norm(a) if a is not None else '?'} is not ceil(curve key_size / 8)"
                elif not _is_ceil_bytes(eng, h, L):
                    return False, "length is not ceil(curve key_size / 8)"
            if any(any(c.short == "util:int_to_base64" for c in x.callees) for x in eng.cg.calls_in(h)):
                return False, "helper falls back to int_to_base64"
        return True, "fixed width: to_bytes(ceil(curve.key_size / 8), 'big')"
    # inline: urlsafe_b64encode(num.to_bytes(size, 'big'))
    for x in ast.walk(v):
        if isinstance(x, ast.Call) and isinstance(x.func, ast.Attribute) and x.func.attr == "to_bytes" and len(x.args) >= 2:
            if const_value(x.args[1]) == "big" and _is_ceil_bytes(eng, fn, x.args[0]):
                return True, "fixed width inline"
    return False, "no fixed-length conversion found"


def r11_2(ctx) -> None:
    eng = ctx.eng
    P = eng.prog
    i2b = P.func("util:int_to_base64")
    # the minimal codec itself
    tb = [x for x in fn_nodes(i2b) if isinstance(x, ast.Call) and isinstance(x.func, ast.Attribute) and x.func.attr == "to_bytes"]
    ok = False
    for x in tb:
        num = norm(x.func.value)
        L = norm(x.args[0]).replace(" ", "") if x.args else ""
        signed = [k.value for k in x.keywords if k.arg == "signed"]
        if L == f"({num}.bit_length()+7)//8" and len(x.args) > 1 and const_value(x.args[1]) == "big" and (not signed or is_const(signed[0], False)):
            ok = True
    from .c19 import _i2b_folded
    fi_ = _i2b_folded(ctx)
    if fi_ is not None:
        ok = not fi_
    ctx.check(ok, "R11.2", i2b, i2b.node, i2b.short, "int_to_base64 is not the minimal unsigned big-endian encoding" + (": " + fi_[0] if fi_ else ""), "num.to_bytes((num.bit_length() + 7) // 8, 'big', signed=False)",
              construct="int_to_base64 codec")
    RB = P.cls(BINDINGS["RSAKey"])
    n = 0
    for ex in ("export_private_key", "export_public_key"):
        fn = RB.methods[ex]
        for m, v in _dict_members(fn).items():
            n += 1
            s = eng.cg.site_of.get(id(v)) if isinstance(v, ast.Call) else None
            ctx.check(s is not None and i2b in s.callees, "R11.2", fn, v, f"{fn.short} :: {m}", f"RSA member {m} is not encoded with the minimal big-endian integer codec",
                      "int_to_base64", construct=f"RSA member {m} of {ex}")
    ctx.count("R11.2/rsa", n, 10, "exported RSA members")
    OB = P.cls(BINDINGS["OKPKey"])
    pub = OB.methods["export_public_key"]
    prv = OB.methods["export_private_key"]
    okp = any(isinstance(x, ast.Call) and isinstance(x.func, ast.Attribute) and x.func.attr == "public_bytes" and "Encoding.Raw" in norm(x) and "PublicFormat.Raw" in norm(x)
              for x in fn_nodes(pub))
    okd = any(isinstance(x, ast.Call) and isinstance(x.func, ast.Attribute) and x.func.attr == "private_bytes" and "Encoding.Raw" in norm(x) and "PrivateFormat.Raw" in norm(x)
              for x in fn_nodes(prv))
    ctx.check(okp and okd, "R11.2", pub, pub.node, "OKP raw members", "OKP x / d are not the raw fixed-length public / private bytes", "public_bytes(Raw, Raw) / private_bytes(Raw, Raw, NoEncryption)",
              construct="OKP raw encoding")


def r11_3(ctx) -> None:
    eng = ctx.eng
    P = eng.prog
    F = eng.folder
    for kname, bname in BINDINGS.items():
        B = P.cls(bname)
        reg = F.class_attr(P.cls(KEYS[kname]), "value_registry")
        if not isinstance(reg, dict):
            raise AnalysisError(f"{kname}.value_registry did not fold")
        private = {k for k, p in reg.items() if F.get_attr(p, "private")}
        public = set(reg) - private
        exp_priv = set(_dict_members(B.methods["export_private_key"]))
        exp_pub = set(_dict_members(B.methods["export_public_key"]))
        if kname == "OKPKey":
            exp_priv |= exp_pub  # export_private_key extends the public export
        ctx.check(exp_pub == public, "R11.3", B.methods["export_public_key"], None, f"{kname} public export members", f"{kname}: public export writes {sorted(exp_pub)}, the registry's "
                  f"public members are {sorted(public)}", f"= {sorted(public)}", construct=f"{kname} public export members")
        ctx.check(exp_priv == set(reg) - {"oth"}, "R11.3", B.methods["export_private_key"], None, f"{kname} private export members", f"{kname}: private export writes {sorted(exp_priv)}, "
                  f"registry has {sorted(set(reg) - {'oth'})}", f"= {sorted(set(reg) - {'oth'})}", construct=f"{kname} private export members")
        # importers read only registered members, and all material-bearing ones
        for imp, need in (("import_public_key", public), ("import_private_key", set(reg) - {"oth"} if kname != "OKPKey" else {"crv", "d"})):
            fn = B.methods[imp]
            read = {const_value(n.slice) for n in fn_nodes(fn) if isinstance(n, ast.Subscript) and isinstance(n.ctx, ast.Load) and isinstance(n.slice, ast.Constant)
                    and isinstance(n.slice.value, str)}
            read |= {const_value(n.left) for n in fn_nodes(fn) if isinstance(n, ast.Compare) and isinstance(n.ops[0], ast.In) and isinstance(n.left, ast.Constant)}
            for c in eng.cg.calls_in(fn):
                for cc in c.callees:
                    if cc.module is fn.module and cc.cls is None:
                        read |= {x for x in (const_value(n) for n in fn_nodes(cc) if isinstance(n, ast.Constant)) if isinstance(x, str) and x in reg}
            ctx.check(read - {None} <= set(reg) and need <= read, "R11.3", fn, None, f"{kname}.{imp} members", f"{kname}.{imp} reads {sorted(x for x in read if x)}; registered {sorted(reg)}; "
                      f"material-bearing {sorted(need)}", f"reads {sorted(x for x in read if x)}", construct=f"{kname}.{imp} members")
    # oct
    ob = P.cls("rfc7518.oct_key:OctBinding")
    m = _dict_members(ob.methods["convert_raw_key_to_dict"])
    rd = {const_value(n.slice) for n in fn_nodes(ob.methods["import_from_dict"]) if isinstance(n, ast.Subscript) and isinstance(n.slice, ast.Constant)}
    ctx.check(set(m) == {"k"} and rd == {"k"}, "R11.3", ob.methods["import_from_dict"], None, "OctKey members", f"oct export {sorted(m)} / import {sorted(rd)} differ from {{k}}", "k", construct="oct members")


@_ioe
def _vdk_registry_folded(ctx, nb, vr) -> Optional[List[str]]:
    """Fold validate_dict_key_registry on a probe registry (a required str member, an optional int member) and probe JWKs: it raises ValueError
    exactly when the required member is missing or a PRESENT member - whatever its value: null, empty, zero - fails its validator; members the
    registry does not name are ignored.  None when it does not fold or a test was decided one way only (the shape clauses decide then)."""
    from ..fold import FuncVal, ClassVal, FoldRaise, is_unknown
    eng = ctx.eng
    P, F = eng.prog, eng.folder
    KP = P.cls("registry:KeyParameter")
    probes = [({}, False), ({"a": "x"}, True), ({"a": ""}, True), ({"a": 1}, False), ({"a": None}, False), ({"a": "x", "b": 1}, True), ({"a": "x", "b": 0}, True),
              ({"a": "x", "b": "s"}, False), ({"a": "x", "b": None}, False), ({"b": 1}, False), ({"a": "x", "zz": [1]}, True), ({"zz": 1, "a": [], "b": 2}, False)]
    problems: List[str] = []
    F.start_trace()
    try:
        reg = {"a": F.instantiate(KP, ["A", "str"], {"required": True}), "b": F.instantiate(KP, ["B", "int"], {})}
        if any(is_unknown(F.get_attr(v, "validate")) or F.get_attr(v, "required") not in (True, False) for v in reg.values()):
            return None
        for dk_, accept in probes:
            try:
                r = F.call(FuncVal(vr, None, ClassVal(nb)), [dict(dk_), reg], {})
            except FoldRaise as e:
                if accept:
                    problems.append(f"refuses {dk_!r}")
                elif getattr(e, "name", "") != "ValueError":
                    problems.append(f"refuses {dk_!r} with {getattr(e, 'name', '?')}, not ValueError")
                continue
            if is_unknown(r):
                return None
            if not accept:
                problems.append(f"accepts {dk_!r}")
    except AnalysisError:
        return None
    finally:
        sided = F.one_sided(ignore=("registry:is_str", "registry:is_int", ".__init__"))
    return None if sided else problems


def _vdk_registry_shape(ctx, vr) -> None:
    eng = ctx.eng
    cfgr = cfg_of(vr)
    loops = [l for l in cfgr.nodes if l.kind == "loop"]
    dk = vr.pos_params[1]
    reqt = [t for t in cfgr.nodes if t.kind == "test" and isinstance(t.ast, ast.Compare) and isinstance(t.ast.ops[0], ast.NotIn) and norm(t.ast.comparators[0]) == dk]
    req_ok = bool(reqt) and any(norm(t.ast).endswith(".required") for t in cfgr.nodes if t.kind == "test") and \
        all(not can_reach_exit(cfgr, succ_by_label(cfgr, t, "true")) and not any(l in cfgr.reachable(s0) for s0 in succ_by_label(cfgr, t, "true") for l in loops) for t in reqt)
    vcalls = [s for s in eng.cg.calls_in(vr) if isinstance(s.node, ast.Call) and s.attr == "validate"]
    hand_ok = all(not (cfgr.exit in cfgr.reachable(h) or any(l in cfgr.reachable(h) for l in loops)) for h in cfgr.nodes if h.kind == "handler")
    ctx.check(req_ok and bool(vcalls) and hand_ok and len(loops) == 1, "R11.4", vr, vr.node, f"{vr.short}", "validate_dict_key_registry does not refuse missing required members / "
              "does not validate present members / swallows validation errors", "required -> raise; present -> validate; errors re-raised", construct="validate_dict_key_registry")
    # "wrong member types are refused": a member is validated whenever it is PRESENT - the only conditions on the way to registry[k].validate(...) are
    # membership tests of the key in the given dict (and the required-member refusal); a test of the member's value (`is not None`, truthiness) lets
    # a null / empty member of the wrong type through
    for vc in vcalls:
        vn_ = cfgr.node_of(vc.node)
        if vn_ is None:
            continue
        bad_tests = set()
        for path in cfgr.guards_of(vn_):
            for t, _out in path:
                if t.kind != "test":
                    continue
                a = t.ast
                parts = a.values if isinstance(a, ast.BoolOp) else [a]
                for q in parts:
                    if isinstance(q, ast.Compare) and len(q.ops) == 1 and isinstance(q.ops[0], (ast.In, ast.NotIn)) and norm(q.comparators[0]) == dk:
                        continue
                    if norm(q).endswith(".required"):
                        continue
                    bad_tests.add(norm(q))
        ctx.check(not bad_tests, "R11.4", vr, vc.node, f"{vr.short} :: condition of validate()", f"a JWK member is type-checked only when {sorted(bad_tests)} holds: a member that is present "
                  "with a value that fails this test (null, empty) is never validated", f"if k in {dk}: registry[k].validate({dk}[k])", construct="member validation conditional on the member's value")


def r11_4(ctx) -> None:
    eng = ctx.eng
    P = eng.prog
    bk = P.cls("rfc7517.models:BaseKey")
    ik = bk.methods.get("import_key")
    vd = bk.methods.get("validate_dict_key")
    init = bk.methods.get("__init__")
    if ik is None or vd is None or init is None:
        raise AnalysisError("BaseKey.import_key / validate_dict_key / __init__ vanished")
    cfg = cfg_of(ik)
    vp = ik.pos_params[1]
    from .c05 import _resolve_local
    vnodes = [cfg.node_of(s.node) for s in eng.cg.calls_in(ik) if vd in s.callees and isinstance(s.node, ast.Call) and s.node.args
              and (norm(s.node.args[0]) == vp or _resolve_local(eng, ik, s.node.args[0]) == vp)]
    vnodes = [v for v in vnodes if v is not None]
    imps = [s for s in eng.cg.calls_in(ik) if isinstance(s.node, ast.Call) and s.attr == "import_from_dict"]
    ok = bool(vnodes) and bool(imps) and all(cfg.must_pass(cfg.entry, cfg.node_of(s.node), vnodes) for s in imps)
    ctx.check(ok, "R11.4", ik, ik.node, f"{ik.short} :: validate before import", "a JWK dict reaches binding.import_from_dict without validate_dict_key first", "validate_dict_key(value) dominates import_from_dict",
              construct="validate before import")
    # validate_dict_key runs the three validators
    calls = [s.attr for s in eng.cg.calls_in(vd) if isinstance(s.node, ast.Call)]
    args = [norm(s.node.args[1]) if isinstance(s.node, ast.Call) and len(s.node.args) > 1 else "" for s in eng.cg.calls_in(vd)]
    cfgv = cfg_of(vd)
    need = [("validate_dict_key_registry", "param_registry"), ("validate_dict_key_registry", "value_registry"), ("validate_dict_key_use_operations", "")]
    okv = True
    for meth, regname in need:
        hit = [s for s in eng.cg.calls_in(vd) if isinstance(s.node, ast.Call) and s.attr == meth and (not regname or (len(s.node.args) > 1 and norm(s.node.args[1]).endswith(regname)))]
        if not hit or not cfgv.must_pass(cfgv.entry, cfgv.exit, [cfgv.node_of(h.node) for h in hit if cfgv.node_of(h.node) is not None]):
            okv = False
    ctx.check(okv, "R11.4", vd, vd.node, f"{vd.short}", "validate_dict_key does not run the parameter registry, the value registry and the use/key_ops consistency check on every path",
              "three validators on every path", construct="validate_dict_key validators")
    # the validator: required members raise, present members are validated, failures propagate
    nb = P.cls("rfc7517.models:NativeKeyBinding")
    vr = nb.methods.get("validate_dict_key_registry")
    if vr is None:
        raise AnalysisError("validate_dict_key_registry vanished")
    folded = _vdk_registry_folded(ctx, nb, vr)
    if folded is not None:
        ctx.check(not folded, "R11.4", vr, vr.node, f"{vr.short} (folded on probes)", "validate_dict_key_registry does not refuse missing required members / "
                  "does not validate present members / swallows validation errors" + (": " + "; ".join(folded[:3]) if folded else ""),
                  "required -> raise; present -> validate (whatever the value); errors re-raised as ValueError", construct="validate_dict_key_registry")
    else:
        _vdk_registry_shape(ctx, vr)
    # __init__ validates the merged dict
    cfgi = cfg_of(init)
    st = [n for n in fn_nodes(init) if isinstance(n, ast.Assign) and norm(n.targets[0]) == f"{init.self_name}._dict_value" and isinstance(n.value, ast.Name)]
    oki = False
    for s_ in st:
        var = s_.value.id
        vn = [cfgi.node_of(c.node) for c in eng.cg.calls_in(init) if isinstance(c.node, ast.Call) and c.attr == "validate_dict_key" and c.node.args and norm(c.node.args[0]) == var]
        vn = [v for v in vn if v is not None]
        sn = cfgi.node_of(s_)
        if vn and sn is not None and cfgi.must_pass(cfgi.entry, sn, vn):
            oki = True
    ctx.check(oki, "R11.4", init, init.node, f"{init.short} :: validates the merged dict", "the dict view bound in __init__ (input merged with parameters) is not validated first",
              "validate_dict_key(data) dominates self._dict_value = data", construct="__init__ validation")


def r11_5(ctx) -> None:
    eng = ctx.eng
    P = eng.prog
    h = P.func("rfc7518.rsa_key:has_all_prime_factors")
    # the decision function is folded (S7) over all 32 presence patterns of the five CRT members: whatever its spelling, it returns True for all five,
    # False for none, and raises for every partial set
    import itertools
    from ..fold import FoldRaise
    F = eng.folder
    names = ["p", "q", "dp", "dq", "qi"]
    bad = []
    undecided = []
    for k in range(len(names) + 1):
        for sub in itertools.combinations(names, k):
            d = {"n": "AQ", "e": "AQAB", "d": "AQ"}
            d.update({m_: "AQ" for m_ in sub})
            try:
                v = F.call(FuncVal(h, None, None), [d], {})
                got = v
            except FoldRaise:
                got = "raise"
            want = True if k == len(names) else (False if k == 0 else "raise")
            if is_unknown(got):
                undecided.append(sub)
            elif got is not want and got != want:
                bad.append((sub, got))
    if undecided and not bad:
        raise AnalysisError(f"has_all_prime_factors did not fold for {undecided[:2]}")
    ctx.check(not bad, "R11.5", h, h.node, h.short, f"has_all_prime_factors does not raise exactly when some but not all of p, q, dp, dq, qi are present: {bad[:3]}",
              "all -> True; some -> raise ValueError; none -> False", construct="CRT all-or-none")
    ip = P.cls(BINDINGS["RSAKey"]).methods["import_private_key"]
    cfgi = cfg_of(ip)
    hs = [cfgi.node_of(s.node) for s in eng.cg.calls_in(ip) if h in s.callees]
    hs = [x for x in hs if x is not None]
    nums = [s for s in eng.cg.calls_in(ip) if isinstance(s.node, ast.Call) and any(x.endswith("RSAPrivateNumbers") for x in s.ext)]
    ctx.check(bool(hs) and bool(nums) and all(cfgi.must_pass(cfgi.entry, cfgi.node_of(s.node), hs) for s in nums), "R11.5", ip, ip.node, f"{ip.short}",
              "RSA private numbers are built without consulting has_all_prime_factors first", "has_all_prime_factors(obj) dominates RSAPrivateNumbers(...)", construct="CRT check before import")


def r11_6(ctx) -> None:
    eng = ctx.eng
    P = eng.prog
    n = 0
    for fn in P.all_functions():
        for node in fn_nodes(fn):
            if isinstance(node, ast.keyword) and node.arg in ("unsafe_skip_rsa_key_validation",):
                ctx.fail("R11.6", fn, node, "key validation of cryptography is switched off")
            if isinstance(node, ast.Name) and node.id == "unsafe_skip_rsa_key_validation":
                ctx.fail("R11.6", fn, node, "key validation of cryptography is switched off")
    want = {
        ("RSAKey", "import_public_key"): ("public_key",), ("RSAKey", "import_private_key"): ("private_key",),
        ("ECKey", "import_public_key"): ("public_key",), ("ECKey", "import_private_key"): ("private_key",),
        ("OKPKey", "import_public_key"): ("from_public_bytes",), ("OKPKey", "import_private_key"): ("from_private_bytes",),
    }
    for (kname, meth), ends in want.items():
        fn = P.cls(BINDINGS[kname]).methods[meth]
        n += 1
        rets = cfg_of(fn).returns()
        ok = bool(rets)
        for r in rets:
            v = r.ast.value
            txt = _resolve_local(eng, fn, v) if v is not None else ""
            if not any(f".{e}(" in txt for e in ends):
                ok = False
        ctx.check(ok, "R11.6", fn, fn.node, f"{fn.short}", f"{kname}.{meth} does not end in pyca's validating constructor ({'/'.join(ends)})", f"returns …{ends[0]}(…)",
                  construct=f"{kname}.{meth} constructor")
    ctx.count("R11.6", n, 6, "native key constructors")


def r11_7(ctx) -> None:
    eng = ctx.eng
    F = eng.folder
    reg = F.module_value(eng.prog.mod("registry"), "JWK_PARAMETER_REGISTRY")
    if not isinstance(reg, dict):
        raise AnalysisError("JWK_PARAMETER_REGISTRY did not fold")
    got = {}
    for k, p in reg.items():
        v = F.get_attr(p, "validate")
        nm = v.fn.name if isinstance(v, FuncVal) else repr(v)
        if nm == "_is_one_of":
            nm = "in_choices"
        got[k] = (nm, F.get_attr(p, "required"))
    ctx.check(got == T.JWK_PARAMS, "R11.7", None, None, "JWK_PARAMETER_REGISTRY", f"JWK parameter registry differs from RFC 7517 section 4: {got}", "9 parameters; kty required", construct="JWK_PARAMETER_REGISTRY")
    for k, want in (("use", T.JWK_USE_CHOICES), ("key_ops", T.JWK_KEY_OPS_CHOICES)):
        v = F.get_attr(reg[k], "validate") if k in reg else None
        ch = v.env.get("choices") if isinstance(v, FuncVal) and v.env else None
        ctx.check(ch == want, "R11.7", None, None, f"{k} choices", f"allowed values of {k} fold to {ch!r}", f"= {want}", construct=f"{k} choices")
    uk = F.class_attr(eng.prog.cls("rfc7517.models:NativeKeyBinding"), "use_key_ops_registry")
    ctx.check(uk == T.USE_KEY_OPS, "R11.7", None, None, "use_key_ops_registry", f"use/key_ops consistency table folds to {uk!r}", "sig <-> sign, verify; enc <-> the other six",
              construct="use_key_ops_registry")
    # in_choices semantic
    ic = eng.prog.func("registry:in_choices")
    # folded (S7) on a small domain, whatever the spelling of the closure: a value (or every member of a list) inside the choices passes, anything else raises
    from ..fold import FoldRaise
    ok = True
    try:
        clo = F.call(FuncVal(ic, None, None), [["sig", "enc"]], {})
        for val, want_raise in (("sig", False), ("x", True), (["sig"], False), (["sig", "x"], True), ([], False), (["x"], True)):
            try:
                r_ = F.call(clo, [val], {})
                if is_unknown(r_):
                    raise AnalysisError("in_choices did not fold")
                raised = False
            except FoldRaise:
                raised = True
            if raised != want_raise:
                ok = False
    except AnalysisError:
        raise
    except Exception as e:  # the folder could not interpret the closure
        raise AnalysisError(f"in_choices did not fold: {type(e).__name__}")
    ctx.check(ok, "R11.7", ic, ic.node, "in_choices", "in_choices does not refuse values outside the choices", "raise ValueError unless value (or every list member) in choices", construct="in_choices")
    # kty dispatch
    jr = eng.prog.cls("_keys:JWKRegistry")
    kt = F.class_attr(jr, "key_types")
    names = {k: (v.cls.name if hasattr(v, "cls") else repr(v)) for k, v in kt.items()} if isinstance(kt, dict) else {}
    ctx.check(names == {"oct": "OctKey", "RSA": "RSAKey", "EC": "ECKey", "OKP": "OKPKey"}, "R11.7", None, None, "JWKRegistry.key_types", f"kty dispatch table folds to {names}", "oct/RSA/EC/OKP",
              construct="JWKRegistry.key_types")


def r11_9(ctx) -> None:
    """use / key_ops consistency: *every* listed operation must belong to the declared use (subset, not overlap)"""
    eng = ctx.eng
    from .c05 import _resolve_local
    nb = eng.prog.cls("rfc7517.models:NativeKeyBinding")
    fn = nb.methods.get("validate_dict_key_use_operations")
    if fn is None:
        raise AnalysisError("validate_dict_key_use_operations vanished")
    cfg = cfg_of(fn)
    dp = fn.pos_params[1]
    ops_txt = f"{fn.self_name or 'cls'}.use_key_ops_registry[{dp}['use']]"
    kops = f"{dp}['key_ops']"

    def res(e) -> str:
        return _resolve_local(eng, fn, e)

    def is_ops(e) -> bool:
        t = res(e)
        return t == ops_txt or t in (f"set({ops_txt})", f"frozenset({ops_txt})")

    def is_kops(e) -> bool:
        t = res(e)
        return t == kops or t in (f"set({kops})", f"frozenset({kops})")
    ok = False
    why = "no test relates the members of key_ops to the operations of the declared use"
    # (i) loop idiom
    for L in [n for n in cfg.nodes if n.kind == "loop" and isinstance(n.ast, ast.For) and is_kops(n.ast.iter)]:
        tv = norm(L.ast.target)
        for t in cfg.nodes:
            if t.kind != "test" or not isinstance(t.ast, ast.Compare) or len(t.ast.ops) != 1 or norm(t.ast.left) != tv or not is_ops(t.ast.comparators[0]):
                continue
            if not any(x is t.ast for x in ast.walk(L.ast)):
                continue
            lab = "true" if isinstance(t.ast.ops[0], ast.NotIn) else ("false" if isinstance(t.ast.ops[0], ast.In) else None)
            if lab is None:
                continue
            bad = succ_by_label(cfg, t, lab)
            if can_reach_exit(cfg, bad) or L in cfg.reachable(bad[0], [t]) if bad else True:
                why = "an operation outside the declared use does not always raise"
                continue
            # every iteration evaluates the test
            it = succ_by_label(cfg, L, "iter")
            if all(cfg.must_pass(s0, L, [t]) for s0 in it):
                ok = True
            else:
                why = "an iteration can skip the membership test"
    # (ii) set idioms
    for t in cfg.nodes:
        if t.kind != "test":
            continue
        e = t.ast
        lab = None
        if isinstance(e, ast.BinOp) and isinstance(e.op, ast.Sub) and is_kops(e.left) and is_ops(e.right) and res(e.left).startswith(("set(", "frozenset(")):
            lab = "true"
        elif isinstance(e, ast.Call) and isinstance(e.func, ast.Attribute) and len(e.args) == 1:
            if e.func.attr == "difference" and is_kops(e.func.value) and is_ops(e.args[0]):
                lab = "true"
            elif e.func.attr == "issubset" and is_kops(e.func.value) and is_ops(e.args[0]):
                lab = "false"
            elif e.func.attr == "issuperset" and is_ops(e.func.value) and is_kops(e.args[0]):
                lab = "false"
        elif isinstance(e, ast.Compare) and len(e.ops) == 1 and isinstance(e.ops[0], ast.LtE) and is_kops(e.left) and is_ops(e.comparators[0]) \
                and res(e.left).startswith(("set(", "frozenset(")) and res(e.comparators[0]).startswith(("set(", "frozenset(")):
            lab = "false"
        if lab is not None and not can_reach_exit(cfg, succ_by_label(cfg, t, lab)):
            ok = True
    # (iii) any / all over a generator: `if any(op not in OPS for op in KOPS): raise`, `if not all(op in OPS for op in KOPS): raise`
    for t in cfg.nodes:
        if t.kind != "test":
            continue
        e = t.ast
        neg = False
        if isinstance(e, ast.UnaryOp) and isinstance(e.op, ast.Not):
            e, neg = e.operand, True
        if not (isinstance(e, ast.Call) and isinstance(e.func, ast.Name) and e.func.id in ("any", "all") and len(e.args) == 1
                and isinstance(e.args[0], (ast.GeneratorExp, ast.ListComp)) and len(e.args[0].generators) == 1 and not e.args[0].generators[0].ifs):
            continue
        g = e.args[0].generators[0]
        c = e.args[0].elt
        if not (is_kops(g.iter) and isinstance(c, ast.Compare) and len(c.ops) == 1 and norm(c.left) == norm(g.target) and is_ops(c.comparators[0])):
            continue
        # the branch on which some listed operation is outside the declared use
        if e.func.id == "any" and isinstance(c.ops[0], ast.NotIn):
            lab = "false" if neg else "true"
        elif e.func.id == "all" and isinstance(c.ops[0], ast.In):
            lab = "true" if neg else "false"
        else:
            continue
        if not can_reach_exit(cfg, succ_by_label(cfg, t, lab)):
            ok = True
    if ok:
        # reached whenever both members are present
        both = [t for t in cfg.nodes if t.kind == "test" and isinstance(t.ast, ast.Compare) and isinstance(t.ast.ops[0], ast.In) and const_value(t.ast.left) in ("use", "key_ops")
                and norm(t.ast.comparators[0]) == dp]
        rel = [t for t in cfg.nodes if (t.kind == "loop" and isinstance(t.ast, ast.For) and is_kops(t.ast.iter)) or
               (t.kind == "test" and any(isinstance(x, (ast.Subscript, ast.Name)) and (norm(x) == kops or is_kops(x)) for x in ast.walk(t.ast)))]
        if both and rel:
            ok = cfg.must_pass(cfg.entry, cfg.exit, rel, edge_filter=lambda a, b, lab, _b=both: not (a in _b and lab == "false"))
            if not ok:
                why = "the comparison can be skipped although both use and key_ops are present"
    ctx.check(ok, "R11.9", fn, fn.node, fn.short, f"use / key_ops consistency is not 'every listed operation belongs to the declared use': {why} "
              "(e.g. use=sig with key_ops=[sign, encrypt] is accepted)", "for op in key_ops: raise unless op in use_key_ops_registry[use]", construct="use/key_ops subset test")


def r11_10(ctx) -> None:
    """dump_pem_key: encoding None / "PEM" -> Encoding.PEM, "DER" -> Encoding.DER, anything else refused (a finite dispatch)"""
    eng = ctx.eng
    fn = eng.prog.func("rfc7517.pem:dump_pem_key")
    from .common import dump_pem_verdicts
    folded = dump_pem_verdicts(eng)
    if folded is not None:
        bad = [t for c, t in folded if c == "dispatch"]
        ctx.check(not bad, "R11.10", fn, fn.node, f"{fn.short} (folded on a probe grid)", "PEM / DER export dispatch: " + "; ".join(bad[:2]),
                  "None | 'PEM' -> Encoding.PEM; 'DER' -> Encoding.DER; else ValueError", construct="dump_pem_key encoding dispatch")
    else:
        _dump_pem_dispatch_shape(ctx, fn)
    _named_exports(ctx)


def _dump_pem_dispatch_shape(ctx, fn) -> None:
    eng = ctx.eng
    cfg = cfg_of(fn)
    ep = "encoding"
    if ep not in fn.params:
        raise AnalysisError("dump_pem_key lost its encoding parameter")

    def lit(t, outcome):
        e = t.ast
        if isinstance(e, ast.Compare) and len(e.ops) == 1 and isinstance(e.ops[0], (ast.Eq, ast.NotEq)) and norm(e.comparators[0]) == ep and isinstance(e.left, ast.Constant):
            e = ast.Compare(left=e.comparators[0], ops=e.ops, comparators=[e.left])  # 'PEM' == encoding
        if isinstance(e, ast.Compare) and len(e.ops) == 1 and norm(e.left) == ep:
            op, c = e.ops[0], e.comparators[0]
            if isinstance(op, (ast.Is, ast.IsNot)) and is_const(c, None):
                return ("none", outcome == isinstance(op, ast.Is))
            if isinstance(op, (ast.Eq, ast.NotEq)) and isinstance(c, ast.Constant) and c.value in ("PEM", "DER"):
                return (c.value, outcome == isinstance(op, ast.Eq))
            if isinstance(op, (ast.In, ast.NotIn)) and isinstance(c, (ast.Tuple, ast.List, ast.Set)):
                vals = [const_value(x) for x in c.elts]
                if vals == ["PEM"] or vals == ["DER"]:
                    return (vals[0], outcome == isinstance(op, ast.In))
        return None
    assigns = {}
    for n in cfg.nodes:
        if n.kind == "stmt" and isinstance(n.ast, ast.Assign) and norm(n.ast.value) in ("Encoding.PEM", "Encoding.DER"):
            assigns.setdefault(norm(n.ast.value), []).append(n)
    ok = set(assigns) == {"Encoding.PEM", "Encoding.DER"}
    why = "Encoding.PEM / Encoding.DER are not both selected"
    if ok:
        seen = {"Encoding.PEM": set(), "Encoding.DER": set()}
        for val, nodes in assigns.items():
            for n in nodes:
                for path in cfg.guards_of(n):
                    lits = dict(x for x in (lit(t, o) for t, o in path) if x is not None)
                    if val == "Encoding.PEM":
                        if lits.get("none") is True:
                            seen[val].add("none")
                        elif lits.get("PEM") is True:
                            seen[val].add("PEM")
                        else:
                            ok = False
                            why = f"Encoding.PEM is selected on a path that established neither `encoding is None` nor `encoding == 'PEM'` ({lits})"
                    else:
                        if lits.get("DER") is True and lits.get("none") is not True:
                            seen[val].add("DER")
                        else:
                            ok = False
                            why = f"Encoding.DER is selected on a path that did not establish `encoding == 'DER'` ({lits})"
        if ok and (seen["Encoding.PEM"] != {"none", "PEM"} or seen["Encoding.DER"] != {"DER"}):
            ok = False
            why = f"not every documented encoding value is served: {seen}"
        # any other value never reaches the serialisation
        if ok:
            allv = [n for v in assigns.values() for n in v]
            ok = cfg.must_pass(cfg.entry, cfg.exit, allv)
            if not ok:
                why = "the function can complete without having selected an encoding"
    ctx.check(ok, "R11.10", fn, fn.node, fn.short, f"PEM / DER export dispatch: {why}", "None | 'PEM' -> Encoding.PEM; 'DER' -> Encoding.DER; else ValueError", construct="dump_pem_key encoding dispatch")


def _named_exports(ctx) -> None:
    eng = ctx.eng
    # the two named exports ask for their own encoding
    for meth, want in (("as_pem", ("PEM", None)), ("as_der", ("DER",))):
        for w in eng.prog.implementations(eng.prog.cls("rfc7517.models:BaseKey"), meth):
            sites = [s_ for s_ in eng.cg.calls_in(w) if isinstance(s_.node, ast.Call) and s_.attr == "as_bytes"]
            okw = bool(sites)
            for s_ in sites:
                a = next((k.value for k in s_.node.keywords if k.arg == "encoding"), s_.node.args[0] if s_.node.args else None)
                v = const_value(a) if a is not None else None
                if v not in want:
                    okw = False
            ctx.check(okw, "R11.10", w, w.node, f"{w.short} :: encoding", f"{w.short} does not ask as_bytes for the {want[0]} encoding", f"as_bytes(encoding={want[0]!r}, ...)",
                      construct=f"encoding requested by {w.short}")


def r11_11(ctx) -> None:
    """a key built from a JWK dict keeps exactly the given members (+ caller parameters, kty): nothing added, nothing dropped"""
    eng = ctx.eng
    from .common import resolve_all
    init = eng.prog.cls("rfc7517.models:BaseKey").methods.get("__init__")
    if init is None:
        raise AnalysisError("BaseKey.__init__ vanished")
    sn = init.self_name
    ov, pm = init.pos_params[2], init.pos_params[3]
    stores = [n for n in fn_nodes(init) if isinstance(n, (ast.Assign, ast.AnnAssign)) and any(isinstance(t, ast.Attribute) and t.attr == "_dict_value" and norm(t.value) == sn
                                                                                               for t in (n.targets if isinstance(n, ast.Assign) else [n.target]))]
    texts = set()
    for st in stores:
        if st.value is not None:
            texts |= {t_.replace(", **{}", "") for t_ in resolve_all(eng, init, st.value)}  # `**{}` adds nothing
    allowed = {"{}", f"{{**{ov}, **{pm}, 'kty': {sn}.key_type}}", f"{{**{ov}, 'kty': {sn}.key_type}}", f"{{**{ov}, **({pm} or {{}}), 'kty': {sn}.key_type}}"}
    ok = bool(stores) and texts <= allowed and len(texts) >= 2 and any(f"**{pm}" in t_ or f"**({pm}" in t_ for t_ in texts)
    if ok:
        # whenever the original value is a dict, a non-empty view is stored (caller parameters never divert a JWK to the lazy path)
        cfg = cfg_of(init)
        dict_tests = [t_ for t_ in cfg.nodes if t_.kind == "test" and isinstance(t_.ast, ast.Call) and norm(t_.ast.func) == "isinstance" and len(t_.ast.args) == 2
                      and norm(t_.ast.args[0]) == ov and norm(t_.ast.args[1]) == "dict"]
        full = [cfg.node_of(st) for st in stores if st.value is not None and not (isinstance(st.value, ast.Dict) and not st.value.keys)]
        full = [x for x in full if x is not None]
        ok = bool(dict_tests) and bool(full) and cfg.must_pass(cfg.entry, cfg.exit, full, edge_filter=lambda a, b, lab, _d=dict_tests: not (a in _d and lab == "false"))
    ctx.check(ok, "R11.11", init, init.node, init.short, f"the JWK view kept for a key built from a dict is not exactly the given members (+ parameters, kty): {sorted(texts - allowed)}",
              "{**original_value, **parameters, 'kty': key_type}", construct="BaseKey dict view from a JWK")


def r11_12(ctx) -> None:
    """export / import options reach the function that acts on them: `password`, `encoding` and `parameters` are handed on at every
    call between functions that both take them (a dropped password writes the private key unencrypted)"""
    eng = ctx.eng
    n = 0
    for pn in ("password", "encoding", "parameters"):
        for fn in eng.prog.all_functions():
            if pn not in fn.params:
                continue
            for s in eng.cg.calls_in(fn):
                if not isinstance(s.node, ast.Call):
                    continue
                for c in s.callees:
                    if pn not in c.params or c is fn:
                        continue
                    n += 1
                    a = eng.cg.arg_for_param(s, c, pn)
                    ok = a is not None and norm(a) == pn
                    if not ok and a is not None:
                        # the option in another representation (`to_bytes(password)`), None kept as None
                        ts = resolve_all(eng, fn, a)
                        ok = bool(ts) and all(t_ == pn or t_ == "None" or t_.startswith((f"to_bytes({pn}", f"to_str({pn}")) for t_ in ts) and any(pn in t_ for t_ in ts)
                    ctx.check(ok, "R11.12", fn, s.node, f"{fn.short} -> {c.short} :: {pn}", f"{fn.short} does not pass its `{pn}` argument on to {c.short} "
                              f"({'argument omitted' if a is None else 'passes ' + norm(a)})", f"{pn}={pn}", construct=f"{pn} forwarding {fn.short} -> {c.short}")
    ctx.count("R11.12", n, 26, "option forwarding call sites")


def r11_22(ctx, rule: str = "R11.22") -> None:
    """R11.22  a lazily built JWK view is validated BEFORE it is stored: in BaseKey.dict_value every store into `self._dict_value` (update / item
    assignment / re-binding) is dominated by validate_dict_key of what is stored.  A view that is stored first and validated afterwards stays in the key
    when validation fails: the next access takes the early return and hands out a JWK the library itself refuses (and every other call sharing the key
    sees it)."""
    eng = ctx.eng
    bk = eng.prog.cls("rfc7517.models:BaseKey")
    dv = bk.methods.get("dict_value")
    vd = bk.methods.get("validate_dict_key")
    if dv is None or vd is None:
        raise AnalysisError("BaseKey.dict_value / validate_dict_key vanished")
    cfg = cfg_of(dv)
    sn = dv.self_name
    vnodes = [cfg.node_of(s.node) for s in eng.cg.calls_in(dv) if isinstance(s.node, ast.Call) and (vd in s.callees or s.attr == "validate_dict_key")]
    vnodes = [v for v in vnodes if v is not None]
    stores = []
    for n in cfg.nodes:
        if n.kind != "stmt" or n.ast is None:
            continue
        for x in ast.walk(n.ast):
            if isinstance(x, ast.Call) and isinstance(x.func, ast.Attribute) and x.func.attr in ("update", "setdefault", "__setitem__") and norm(x.func.value) == f"{sn}._dict_value":
                stores.append((n, x))
            elif isinstance(x, (ast.Assign, ast.AugAssign)):
                for t_ in (x.targets if isinstance(x, ast.Assign) else [x.target]):
                    if (isinstance(t_, ast.Subscript) and norm(t_.value) == f"{sn}._dict_value") or norm(t_) == f"{sn}._dict_value":
                        stores.append((n, x))
    ctx.count(rule, len(stores), 1, "stores into the lazily built JWK view")
    for n, x in stores:
        ok = bool(vnodes) and cfg.must_pass(cfg.entry, n, [v for v in vnodes if v is not n])
        ctx.check(ok, rule, dv, x, f"{dv.short} :: {norm(x)[:50]}", "the lazily built JWK view is stored in the key before it was validated: when validation fails the invalid view stays and "
                  "every later access (or another call sharing the key) gets it without error", "validate_dict_key(data) dominates the store", construct="dict_value store before validation")


def r11_8(ctx) -> None:
    eng = ctx.eng
    bk = eng.prog.cls("rfc7517.models:BaseKey")
    init = bk.methods["__init__"]
    sn = init.self_name
    ok = False
    for n in fn_nodes(init):
        if isinstance(n, ast.Assign) and norm(n.targets[0]) == f"{sn}._dict_value" and isinstance(n.value, ast.Name):
            defs = [d for d in eng.flow._defs(init).get(n.value.id, []) if d[0] == "assign"]
            if defs and all(isinstance(d[1], ast.Dict) and any(k is None and norm(v) == "original_value" for k, v in zip(d[1].keys, d[1].values)) for d in defs):
                ok = True
    ctx.check(ok, "R11.8", init, init.node, f"{init.short} :: dict view", "a key imported from a dict does not keep the members it was given as its dict view", "_dict_value = {**original_value, [**parameters,] 'kty': …}",
              construct="dict view of imported keys")
    dv = bk.methods["dict_value"]
    cfg = cfg_of(dv)
    t = [x for x in cfg.nodes if x.kind == "test" and norm(x.ast) == f"{dv.self_name}._dict_value"]
    ok2 = bool(t) and all(any(isinstance(r.ast, ast.Return) and norm(r.ast.value) == f"{dv.self_name}._dict_value" and r in cfg.reachable(s0) for r in cfg.returns())
                          for x in t for s0 in succ_by_label(cfg, x, "true"))
    ctx.check(ok2, "R11.8", dv, dv.node, f"{dv.short} :: returns the bound view", "dict_value re-derives the members although a view is already bound", "if self._dict_value: return self._dict_value",
              construct="dict_value short-circuit")


def r11_18(ctx) -> None:
    """R11.18  "for every supported key type, size and curve": the curve-name tables that JWK import indexes are the RFC tables -
    OKP public and private maps name the four RFC 8037 curves with the class of that curve, EC `_dss_curves` / `_curves_dss` are the
    four RFC 7518 / 8812 curves and inverse to each other (a missing or misspelt name makes a conformant JWK unimportable)."""
    eng = ctx.eng
    P, F = eng.prog, eng.folder
    from ..fold import ExtVal

    def names(tab) -> Dict[str, str]:
        return {k: (v.name.split(".")[-1] if isinstance(v, ExtVal) else repr(v)) for k, v in tab.items()} if isinstance(tab, dict) else {}

    m = P.mod("rfc8037.okp_key")
    for tab, suffix in (("PUBLIC_KEYS_MAP", "PublicKey"), ("PRIVATE_KEYS_MAP", "PrivateKey")):
        got = names(F.module_value(m, tab))
        want = {c: f"{c}{suffix}" for c in T.OKP_CURVES}
        ctx.check(got == want, "R11.18", None, None, f"okp_key.{tab}", f"OKP curve table {tab} differs from RFC 8037: {got}", f"{want}", construct=f"OKP table {tab}")
    eb = P.cls("rfc7518.ec_key:ECBinding")
    dss = names(F.class_attr(eb, "_dss_curves"))
    ctx.check(dss == T.EC_CURVES, "R11.18", None, None, "ECBinding._dss_curves", f"EC curve table differs: {dss}", f"{T.EC_CURVES}", construct="EC table _dss_curves")
    inv = F.class_attr(eb, "_curves_dss")
    ok = isinstance(inv, dict) and sorted(inv.values()) == sorted(T.EC_CURVES) and len(inv) == len(T.EC_CURVES)
    ctx.check(ok, "R11.18", None, None, "ECBinding._curves_dss", f"the inverse EC curve table does not name the four curves: {inv if isinstance(inv, dict) else repr(inv)}",
              "pyca curve name -> JWK crv for the four curves", construct="EC table _curves_dss")
    # the import functions index exactly these tables with the JWK's crv
    n = 0
    from .common import resolve_all
    for short, tab in (("rfc8037.okp_key:OKPBinding.import_private_key", "PRIVATE_KEYS_MAP"), ("rfc8037.okp_key:OKPBinding.import_public_key", "PUBLIC_KEYS_MAP")):
        fn = P.func(short)
        op = fn.pos_params[-1]
        srcs = [t_ for node in fn_nodes(fn) if isinstance(node, ast.Call) and isinstance(node.func, ast.Attribute) and node.func.attr in ("from_private_bytes", "from_public_bytes")
                for t_ in resolve_all(eng, fn, node.func.value)]
        n += len(srcs)
        # (`TAB.get(crv)` names the same class as `TAB[crv]` wherever it does not answer None, which the call on it would not survive)
        ctx.check(bool(srcs) and all(x in (f"{tab}[{op}['crv']]", f"{tab}.get({op}['crv'])", f"{tab}.get({op}['crv'], None)") for x in srcs), "R11.18", fn, fn.node, f"{fn.short} :: key class", f"the OKP key class is {srcs}, not {tab}[{op}['crv']]",
                  f"{tab}[{op}['crv']]", construct=f"OKP class lookup in {fn.short}")
    ctx.count("R11.18", n, 2, "OKP import class look-ups")


def r11_19(ctx) -> None:
    """R11.19  import-side PEM / DER dispatch of load_pem_key: a format is recognised by a textual marker in the input (`b'...' in raw`, the ssh prefix),
    and what carries no marker (DER) is offered to the private-key parser WITH the password first; the public-key parser only runs in the handler of
    that attempt.  Any other test on the way (sniffing DER structure) sends password-protected PKCS#8 - which also starts with a SEQUENCE - to the
    wrong parser: "DER (optionally password-protected) ... importing the result yields a key with identical material"."""
    eng = ctx.eng
    fn = eng.prog.func("rfc7517.pem:load_pem_key")
    cfg = cfg_of(fn)
    rp = fn.pos_params[0]
    calls = {}
    for s in eng.cg.calls_in(fn):
        if isinstance(s.node, ast.Call):
            for x in s.ext:
                nm = x.split(".")[-1]
                if nm.startswith("load_"):
                    calls.setdefault(nm, []).append(s)
    need = ["load_der_private_key", "load_der_public_key", "load_pem_private_key", "load_pem_public_key"]
    missing = [x for x in need if x not in calls]
    if missing:
        ctx.fail("R11.19", fn, fn.node, f"load_pem_key no longer calls {missing}", construct="load_pem_key loaders")
        return

    def marker(t) -> bool:
        a = t.ast
        parts = a.values if isinstance(a, ast.BoolOp) else [a]
        for q in parts:
            if isinstance(q, ast.Compare) and len(q.ops) == 1 and isinstance(q.ops[0], (ast.In, ast.NotIn)) and isinstance(const_value(q.left), bytes) and norm(q.comparators[0]) == rp:
                continue
            if isinstance(q, ast.Name) and q.id in fn.params:
                continue
            if isinstance(q, ast.Call) and isinstance(q.func, ast.Attribute) and q.func.attr == "startswith" and norm(q.func.value) == rp:
                continue
            return False
        return True

    n = 0
    for s in calls["load_der_private_key"]:
        cn = cfg.node_of(s.node)
        if cn is None:
            continue
        n += 1
        odd = sorted({norm(t.ast) for path in cfg.guards_of(cn) for t, _o in path if t.kind == "test" and not marker(t)})
        pw = eng.cg.arg_for_param(s, None, "password") if False else next((k.value for k in s.node.keywords if k.arg == "password"), s.node.args[1] if len(s.node.args) > 1 else None)
        ctx.check(not odd and pw is not None and norm(pw) == "password", "R11.19", fn, s.node, f"{fn.short} :: DER private attempt", f"input without a textual marker does not always reach "
                  f"load_der_private_key(raw, password=password) first (other tests on the way: {odd})", "marker tests only, then load_der_private_key(raw, password=password)",
                  construct=f"DER input diverted by {odd}" if odd else "DER private attempt without the password")
    for s in calls["load_der_public_key"]:
        n += 1
        inh = False
        for h in fn_nodes(fn):
            if isinstance(h, ast.Try) and any(x is s.node for hh in h.handlers for b in hh.body for x in ast.walk(b)):
                inh = any(isinstance(x, ast.Call) and norm(x.func).endswith("load_der_private_key") for b in h.body for x in ast.walk(b))
        ctx.check(inh, "R11.19", fn, s.node, f"{fn.short} :: DER public fallback", "load_der_public_key is reached without the private-key parser having refused the input first",
                  "except ValueError: load_der_public_key(raw)", construct="DER public parser outside the fallback handler")
    ctx.count("R11.19", n, 2, "DER loader call sites in load_pem_key")


def run(ctx) -> None:
    from .c19 import r19_1 as _r19_1
    from .c13 import r13_4 as _r13_4
    ctx.guard_as("R11.24", _r13_4)  # "exporting it returns the members that were given": ensure_kid writes a kid only where none is PRESENT (an empty kid that was given stays)
    ctx.guard_as("R11.23", _r19_1)  # "unpadded base64url": every encoder call of the package is the padding-stripping one
    ctx.guard(r11_22)
    from .c15 import r15_3 as _r15_3
    ctx.guard_as("R11.21", _r15_3)  # "wrong member types are refused": the value validators accept exactly their type
    from .common import member_crossing
    ctx.guard(member_crossing, "R11.20", None, True)  # named members are filled from the value of the same name (generic crossing rule, rules/common.py)
    from .common import forwarding_discipline
    ctx.guard(forwarding_discipline, "R11.15", ['parameters', 'password', 'encoding', 'key_type', 'crv_or_size', 'data', 'value'], 46)  # arguments are handed on under their own name (generic routing rule, rules/common.py)
    ctx.guard(fixed_width_ec, "R11.1")
    ctx.guard(r11_2)
    ctx.guard(r11_3)
    ctx.guard(r11_4)
    ctx.guard(r11_5)
    ctx.guard(r11_6)
    ctx.guard(r11_7)
    ctx.guard(r11_8)
    ctx.guard(r11_9)
    ctx.guard(r11_10)
    ctx.guard(r11_11)
    ctx.guard(r11_12)
    ctx.guard(r11_18)
    ctx.guard(r11_19)
    from .c12 import r12_2
    ctx.guard_as("R11.13", r12_2)
    from .c19 import r19_8
    ctx.guard_as("R11.17", r19_8)  # "identical public and private material": each JWK integer reaches its own slot of the pyca numbers through the strict decoder
    from .c07 import r07_10
    ctx.guard_as("R11.16", r07_10)  # "importing the result yields identical material": oct import keeps the octets it was given
    from .c19 import r19_4_5
    ctx.guard_as("R11.14", r19_4_5)  # "undecodable values are refused": JWK integers are read through the strict base64url decoder  # "importing a JWK then exporting it returns the members that were given": exports never alias the key's dict
    ctx.assume("pyca serialisation (PEM / DER / numbers) is faithful and validates points and RSA parameters")
    ctx.note("undecided remainder: equality of key material across PEM / DER / JWK for every key value")
