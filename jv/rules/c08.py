"""C08 - JWE octets on the wire are those of RFC 7516 / 7518 and the implemented drafts (tables + layout).

R08.1 folded JWE parameter tables = RFC tables           R08.2 the AAD is the received header (= C02 R02.2) and, when producing, the emitted one
R08.3 CBC-HMAC key split, MAC input and tag truncation   R08.4 Concat KDF other-info layout; ECDH-1PU Z = Ze || Zs
R08.5 PBES2 salt layout and KDF parameters               R08.6 raw DEFLATE framing (= C17 R17.3)
R08.7 member names of the serializations (= C04 R04.3)   R08.8 AES-KW / RSA / AES-GCM-KW primitive call shapes
"""
from __future__ import annotations
import ast
from typing import List, Optional

from ..program import AnalysisError, FunctionInfo, fn_nodes, norm
from ..cfg import cfg_of
from ..fold import ExtVal, Inst
from ..spec import tables as T
from ..terms import Terms, show, match, alts, C, K, L
from .common import JWE_PRODUCE, const_value, entries, impls, is_const, scope_of, sites_calling
from .c02 import r02_2_3
from .c04 import r04_3
from .c17 import r17_3


def r08_1(ctx) -> None:
    eng = ctx.eng
    P = eng.prog
    F = eng.folder
    reg = F.class_attr(P.cls("rfc7516.registry:JWERegistry"), "algorithms")
    if not isinstance(reg, dict):
        raise AnalysisError("JWE tables did not fold")
    d1 = F.module_value(P.mod("drafts.jwe_ecdh_1pu"), "JWE_ALG_MODELS")
    d2 = F.module_value(P.mod("drafts.jwe_chacha20"), "JWE_ENC_MODELS")
    algs = dict(reg["alg"])
    for i in d1:
        algs[F.get_attr(i, "name")] = i
    encs = dict(reg["enc"])
    for i in d2:
        encs[F.get_attr(i, "name")] = i
    spec_alg = dict(T.JWE_ALGS)
    spec_alg.update(T.JWE_DRAFT_ALGS)
    ctx.count("R08.1/alg", len(algs), 21, "key management models (RFC + draft)")
    for name, (ktypes, ksize, _rec) in spec_alg.items():
        inst = algs.get(name)
        if not isinstance(inst, Inst):
            ctx.fail("R08.1", None, None, f"{name} not defined", construct=f"JWE model {name}")
            continue
        gk, gs = F.get_attr(inst, "key_types"), F.get_attr(inst, "key_size")
        ok = gk == ktypes and gs == ksize
        detail = [f"key_types {gk}", f"key_size {gs}"]
        if name in T.RSA_PADDINGS:
            pd = repr(F.get_attr(inst, "padding"))
            ok = ok and pd == T.RSA_PADDINGS[name]
            detail.append(pd.split("padding.")[-1][:60])
        if name in T.PBES2:
            h, w = T.PBES2[name]
            gh = repr(F.get_attr(inst, "hash_alg"))
            gw = F.get_attr(F.get_attr(inst, "key_wrapping"), "name")
            ok = ok and gh == h and gw == w
            detail.append(f"hash {gh.split('.')[-1]} wrap {gw}")
        if name in T.KEY_WRAPPERS:
            gw = F.get_attr(F.get_attr(inst, "key_wrapping"), "name")
            ok = ok and gw == T.KEY_WRAPPERS[name]
            detail.append(f"wrap {gw}")
        if name in ("ECDH-ES", "ECDH-1PU"):
            ok = ok and F.get_attr(inst, "key_wrapping") is None
        dm = F.get_attr(inst, "direct_mode")
        ok = ok and dm is (ksize is None)
        ctx.check(ok, "R08.1", None, None, f"JWE alg {name}", f"{name}: folded {detail} direct_mode={dm}; RFC 7518 section 4: key types {ktypes}, key size {ksize}", ", ".join(detail),
                  construct=f"JWE alg parameters of {name}")
    spec_enc = dict(T.JWE_ENCS)
    spec_enc.update(T.JWE_DRAFT_ENCS)
    ctx.count("R08.1/enc", len(encs), 8, "content encryption models")
    for name, (cek, iv, _rec, extra) in spec_enc.items():
        inst = encs.get(name)
        if not isinstance(inst, Inst):
            ctx.fail("R08.1", None, None, f"{name} not defined", construct=f"JWE enc {name}")
            continue
        ok = F.get_attr(inst, "cek_size") == cek and F.get_attr(inst, "iv_size") == iv
        for k, v in extra.items():
            g = F.get_attr(inst, k)
            g = g.name if isinstance(g, ExtVal) else g
            ok = ok and g == v
        ctx.check(ok, "R08.1", None, None, f"JWE enc {name}", f"{name}: cek_size={F.get_attr(inst, 'cek_size')} iv_size={F.get_attr(inst, 'iv_size')} "
                  f"{ {k: F.get_attr(inst, k) for k in extra} }; RFC 7518 section 5: cek {cek}, iv {iv}, {extra}", f"cek {cek} iv {iv} {extra}", construct=f"JWE enc parameters of {name}")
    ka = P.cls("rfc7516.models:JWEKeyAgreement")
    ta = {F.get_attr(i, "name"): F.get_attr(i, "tag_aware") for i in algs.values() if ka in i.cls.mro}
    ctx.check(len(ta) == 8 and all(v is (k.startswith("ECDH-1PU")) for k, v in ta.items()), "R08.1", None, None, "tag_aware flags", f"tag_aware flags {ta}", "only ECDH-1PU binds the tag", construct="tag_aware flags")


def r08_2_produce(ctx) -> None:
    """on the produce side the AAD handed to enc.encrypt is the encoded protected header that is emitted"""
    eng = ctx.eng
    Tm = Terms(eng)
    enc_i = impls(eng, "rfc7516.models:JWEEncModel", "encrypt", include_abstract=True)
    sites = [s for s in sites_calling(eng, enc_i) if isinstance(s.node, ast.Call) and s.kind in ("method", "cha")]
    if len(sites) != 1:
        raise AnalysisError("expected one enc.encrypt site")
    s = sites[0]
    fn = s.fn
    aad = None
    for c in s.callees:
        aad = aad or eng.cg.arg_for_param(s, c, "aad")
    t = Tm.of(fn, aad)
    want = C(("B64J", L("obj.protected")), ("OPT", ("ANY",), C(K(b"."), ("B64U", L("obj.aad")))))
    ok = match(t, want)
    ctx.check(ok, "R08.2", fn, s.node, f"{fn.short} :: AAD term", f"AAD is not ASCII(BASE64URL(UTF8(protected header))) [|| '.' || BASE64URL(aad)]: {show(t)}", show(t), construct="AAD term (encrypt)")
    # compact output carries exactly that encoded header; JSON re-encodes the same (unmodified) dict
    st = [n for n in fn_nodes(fn) if isinstance(n, ast.Assign) and norm(n.targets[0]) == "obj.base64_segments['aad']"]
    ok2 = len(st) == 1 and norm(st[0].value) == norm(aad)
    ctx.check(ok2, "R08.2", fn, fn.node, f"{fn.short} :: emitted header", "the encoded header that was authenticated is not the one stored for the compact output", "obj.base64_segments['aad'] = aad",
              construct="emitted = authenticated header")
    # every header addition of the key management step happens before the AAD is computed
    cfg = cfg_of(fn)
    an = [cfg.node_of(n) for n in fn_nodes(fn) if isinstance(n, ast.Call) and norm(n.func) == "json_b64encode"]
    pre = [cfg.node_of(x.node) for x in eng.cg.calls_in(fn) if isinstance(x.node, ast.Call) and x.callees and any(c.name == "pre_encrypt_recipients" for c in x.callees)]
    ok3 = bool(an) and bool(pre) and all(a is not None and cfg.must_pass(cfg.entry, a, [p for p in pre if p is not None]) for a in an)
    ctx.check(ok3, "R08.2", fn, fn.node, f"{fn.short} :: header complete before AAD", "the protected header is encoded before the per-recipient key management added its parameters (epk, iv, tag, p2s, p2c, kid)",
              "pre_encrypt_recipients dominates json_b64encode(obj.protected)", construct="header complete before AAD")


def r08_3(ctx) -> None:
    eng = ctx.eng
    P = eng.prog
    Tm = Terms(eng)
    cb = P.cls("rfc7518.jwe_encs:CBCHS2EncModel")
    hm = cb.methods.get("_hmac")
    if hm is None:
        raise AnalysisError("CBCHS2EncModel._hmac vanished")
    rets = [r.value for r in fn_nodes(hm) if isinstance(r, ast.Return)]
    ok = len(rets) == 1
    t = Tm.of(hm, rets[0]) if ok else None
    want = ("SLICE", ("CALL", "digest", (("CALL", "new", (L("key"), C(L("aad"), L("iv"), L("ciphertext"), ("U64BITS", L("aad"))), L("self.hash_alg"))),)), None, L("self.key_len"))
    ok = ok and match(t, want)
    ctx.check(ok, "R08.3", hm, hm.node, hm.short, f"CBC-HMAC tag is not HMAC(MAC_KEY, AAD || IV || ciphertext || AL)[:key_len] with AL the 64-bit big-endian bit length of the AAD: {show(t) if t else ''}",
              show(t) if t else "", construct="CBC-HMAC MAC input and truncation")
    for m in ("encrypt", "decrypt"):
        fn = cb.methods[m]
        hk = [d for d in eng.flow._defs(fn).get("hkey", []) if d[0] == "assign"]
        ek = [d for d in eng.flow._defs(fn).get("ekey" if m == "encrypt" else "dkey", []) if d[0] == "assign"]
        ok1 = len(hk) == 1 and norm(hk[0][1]) == "cek[:self.key_len]" and len(ek) == 1 and norm(ek[0][1]) == "cek[self.key_len:]"
        calls = [n for n in fn_nodes(fn) if isinstance(n, ast.Call) and norm(n.func) == "self._hmac"]
        ok2 = len(calls) == 1 and [norm(a) for a in calls[0].args] == ["ciphertext", "aad", "iv", "hkey"]
        aes = [n for n in fn_nodes(fn) if isinstance(n, ast.Call) and norm(n.func) == "AES"]
        ok3 = len(aes) == 1 and norm(aes[0].args[0]) == ("ekey" if m == "encrypt" else "dkey")
        cbc = [n for n in fn_nodes(fn) if isinstance(n, ast.Call) and norm(n.func) == "CBC"]
        ok4 = len(cbc) == 1 and norm(cbc[0].args[0]) == "iv"
        pk = [n for n in fn_nodes(fn) if isinstance(n, ast.Call) and norm(n.func) == "PKCS7"]
        ok5 = len(pk) == 1 and norm(pk[0].args[0]) in ("AES.block_size", "128")
        ctx.check(ok1 and ok2 and ok3 and ok4 and ok5, "R08.3", fn, fn.node, f"{fn.short} :: key split", f"CBC-HMAC {m}: MAC key must be the first half and ENC key the second half of the CEK, "
                  "MAC over (ciphertext, aad, iv), AES-CBC with the IV and PKCS#7 padding", "hkey = cek[:key_len]; key = cek[key_len:]; _hmac(ciphertext, aad, iv, hkey)", construct=f"CBC-HMAC key split in {m}")


def r08_4(ctx) -> None:
    eng = ctx.eng
    P = eng.prog
    Tm = Terms(eng)
    dk = P.func("rfc7518.derive_key:derive_key_for_concat_kdf")
    kdf = [s for s in eng.cg.calls_in(dk) if isinstance(s.node, ast.Call) and any(x.endswith("ConcatKDFHash") for x in s.ext)]
    if len(kdf) != 1:
        raise AnalysisError("derive_key_for_concat_kdf: ConcatKDFHash call not found")
    kw = {k.arg: k.value for k in kdf[0].node.keywords}
    oi = Tm.of(dk, kw["otherinfo"]) if "otherinfo" in kw else None
    z4 = K(b"\x00\x00\x00\x00")

    def lp(x):
        return ("ALTS", (C(("LEN32", x), x), z4))
    apu = ("B64D", ("CALL", "get", (L("header"), K(b"apu"))))
    apv = ("B64D", ("CALL", "get", (L("header"), K(b"apv"))))
    algid = ("ALT", ("ANY",), lp(L("header['alg']")), lp(L("header['enc']")))
    want = C(algid, lp(apu), lp(apv), ("U32", ("ALT", ("ANY",), L("key_size"), L("cek_size"))), ("OPT", ("ANY",), lp(L("tag"))))
    ok = oi is not None and match(oi, want)
    ctx.check(ok, "R08.4", dk, kdf[0].node, f"{dk.short} :: other-info", "Concat KDF other-info is not AlgorithmID || PartyUInfo || PartyVInfo || SuppPubInfo [|| tag] with 32-bit big-endian length prefixes "
              f"(AlgorithmID = alg when wrapping else enc; apu / apv base64url-decoded; keydatalen in bits): {show(oi) if oi else ''}", show(oi) if oi else "", construct="Concat KDF other-info")
    # AlgorithmID / keydatalen pairing: `if key_size:` -> (alg, key_size) else (enc, cek_size)
    cfg = cfg_of(dk)
    t = [x for x in cfg.nodes if x.kind == "test" and norm(x.ast) == "key_size"]
    okp = False
    if t:
        body = t[0].stmt
        if isinstance(body, ast.If):
            b = " ; ".join(norm(x) for x in body.body)
            e = " ; ".join(norm(x) for x in body.orelse)
            okp = "header['alg']" in b and "bit_size = key_size" in b and "header['enc']" in e and "bit_size = cek_size" in e
    ctx.check(okp, "R08.4", dk, dk.node, f"{dk.short} :: AlgorithmID pairing", "AlgorithmID / keydatalen are not (alg, wrap key size) in key-wrapping mode and (enc, CEK size) in direct mode",
              "if key_size: alg, key_size else: enc, cek_size", construct="AlgorithmID pairing")
    okh = "algorithm" in kw and norm(kw["algorithm"]) == "hashes.SHA256()" and "length" in kw and norm(kw["length"]) == "bit_size // 8"
    ders = [n for n in fn_nodes(dk) if isinstance(n, ast.Call) and isinstance(n.func, ast.Attribute) and n.func.attr == "derive"]
    okh = okh and len(ders) == 1 and norm(ders[0].args[0]) == "shared_key"
    ctx.check(okh, "R08.4", dk, dk.node, f"{dk.short} :: KDF", "the KDF is not ConcatKDF with SHA-256 deriving keydatalen / 8 octets from Z", "ConcatKDFHash(SHA256, bit_size // 8).derive(shared_key)",
              construct="Concat KDF parameters")
    # callers pass (Z, headers, enc.cek_size, self.key_size[, tag])
    n = 0
    for s in eng.cg.callers.get(dk, []):
        if not isinstance(s.node, ast.Call):
            continue
        n += 1
        a = [norm(x) for x in s.node.args]
        ok = len(a) >= 4 and a[1] == "headers" and a[2] == "enc.cek_size" and a[3] == f"{s.fn.self_name}.key_size" and (len(a) == 4 or a[4] == "tag")
        ctx.check(ok, "R08.4", s.fn, s.node, f"{s.fn.short} :: {norm(s.node)[:50]}", "Concat KDF is not called with (Z, merged headers, enc.cek_size, self.key_size[, tag])", "argument order",
                  construct=f"Concat KDF call in {s.fn.short}")
        # headers = recipient.headers()
        hd = [d for d in eng.flow._defs(s.fn).get("headers", []) if d[0] == "assign"]
        ctx.check(len(hd) == 1 and norm(hd[0][1]) == "recipient.headers()", "R08.4", s.fn, s.node, f"{s.fn.short} :: headers", "apu / apv / alg / enc are not read from the recipient's merged headers",
                  "headers = recipient.headers()", construct=f"headers source in {s.fn.short}")
    ctx.count("R08.4", n, 4, "Concat KDF call sites")
    # ECDH-1PU: Z = Ze || Zs on both sides
    pu = P.cls("drafts.jwe_ecdh_1pu:ECDH1PUAlgModel")
    for m in pu.methods.values():
        zs = [d for d in eng.flow._defs(m).get("shared_key", []) if d[0] == "assign"]
        if not zs:
            continue
        ok = len(zs) == 1 and norm(zs[0][1]) == "ephemeral_shared_key + sender_shared_key"
        ctx.check(ok, "R08.4", m, m.node, f"{m.short} :: Z", "ECDH-1PU shared secret is not Ze || Zs", "ephemeral_shared_key + sender_shared_key", construct=f"1PU Z in {m.name}")
        ze = [d for d in eng.flow._defs(m).get("ephemeral_shared_key", []) if d[0] == "assign"]
        zz = [d for d in eng.flow._defs(m).get("sender_shared_key", []) if d[0] == "assign"]
        enc_side = "encrypt" in m.name
        want_e = "ephemeral_key.exchange_derive_key(recipient_key)" if enc_side else "recipient_key.exchange_derive_key(ephemeral_key)"
        want_s = "sender_key.exchange_derive_key(recipient_key)" if enc_side else "recipient_key.exchange_derive_key(sender_key)"
        ctx.check(len(ze) == 1 and norm(ze[0][1]) == want_e and len(zz) == 1 and norm(zz[0][1]) == want_s, "R08.4", m, m.node, f"{m.short} :: Ze / Zs", "Ze / Zs are not ECDH(ephemeral, recipient) / ECDH(sender, recipient)",
                  f"{want_e}; {want_s}", construct=f"1PU Ze/Zs in {m.name}")


def r08_5(ctx) -> None:
    eng = ctx.eng
    P = eng.prog
    Tm = Terms(eng)
    pb = P.cls("rfc7518.jwe_algs:PBES2HSAlgModel")
    cd = pb.methods.get("compute_derived_key")
    if cd is None:
        raise AnalysisError("PBES2HSAlgModel.compute_derived_key vanished")
    kdf = [s for s in eng.cg.calls_in(cd) if isinstance(s.node, ast.Call) and any(x.endswith("PBKDF2HMAC") for x in s.ext)]
    if len(kdf) != 1:
        raise AnalysisError("PBKDF2HMAC call not found")
    kw = {k.arg: k.value for k in kdf[0].node.keywords}
    salt = Tm.of(cd, kw["salt"]) if "salt" in kw else None
    ok = salt is not None and match(salt, C(L("self.name"), K(b"\x00"), L("p2s")))
    ctx.check(ok, "R08.5", cd, kdf[0].node, f"{cd.short} :: salt", f"PBES2 salt is not UTF8(alg) || 0x00 || salt input: {show(salt) if salt else ''}", show(salt) if salt else "", construct="PBES2 salt layout")
    okk = norm(kw.get("algorithm", ast.Constant(value=None))) == "self.hash_alg" and norm(kw.get("length", ast.Constant(value=None))) == "self.key_size // 8" and \
        norm(kw.get("iterations", ast.Constant(value=None))) == "p2c"
    ders = [n for n in fn_nodes(cd) if isinstance(n, ast.Call) and isinstance(n.func, ast.Attribute) and n.func.attr == "derive"]
    okk = okk and len(ders) == 1 and norm(ders[0].args[0]) == "key"
    ctx.check(okk, "R08.5", cd, cd.node, f"{cd.short} :: KDF", "PBKDF2 is not run with the algorithm's hash, key_size / 8 octets and the p2c count on the password", "PBKDF2HMAC(hash_alg, key_size // 8, salt, p2c).derive(key)",
              construct="PBES2 KDF parameters")
    for m, wrap in (("encrypt_cek", "wrap_cek(cek, kek)"), ("decrypt_cek", "unwrap_cek(recipient.encrypted_key, kek)")):
        fn = pb.methods[m]
        ke = [d for d in eng.flow._defs(fn).get("kek", []) if d[0] == "assign"]
        okm = len(ke) == 1 and norm(ke[0][1]) == "self.compute_derived_key(key.get_op_key('deriveKey'), p2s, p2c)"
        rets = [norm(r.value) for r in fn_nodes(fn) if isinstance(r, ast.Return)]
        okm = okm and rets == [f"self.key_wrapping.{wrap}"]
        # p2s is the decoded header value; p2c the header integer
        ps = [norm(d[1]) for d in eng.flow._defs(fn).get("p2s", []) if d[0] == "assign"]
        okm = okm and "urlsafe_b64decode(to_bytes(headers['p2s']))" in ps
        ctx.check(okm, "R08.5", fn, fn.node, f"{fn.short}", f"PBES2 {m} does not derive the KEK from the password with (decoded p2s, p2c) and AES-key-wrap the CEK with it", "kek = PBKDF2(...); key_wrapping." + wrap,
                  construct=f"PBES2 {m}")
    enc = pb.methods["encrypt_cek"]
    hdr = [n for n in fn_nodes(enc) if isinstance(n, ast.Call) and isinstance(n.func, ast.Attribute) and n.func.attr == "add_header" and const_value(n.args[0]) == "p2s"]
    ctx.check(len(hdr) == 1 and norm(hdr[0].args[1]) == "urlsafe_b64encode(p2s).decode('ascii')", "R08.5", enc, enc.node, f"{enc.short} :: p2s header", "the generated salt input is not published base64url-encoded",
              "add_header('p2s', BASE64URL(p2s))", construct="p2s header encoding")


def r08_8(ctx) -> None:
    eng = ctx.eng
    P = eng.prog
    M = "rfc7518.jwe_algs:"
    aes = P.cls(M + "AESAlgModel")
    w = [n for n in fn_nodes(aes.methods["wrap_cek"]) if isinstance(n, ast.Call) and norm(n.func) == "aes_key_wrap"]
    u = [n for n in fn_nodes(aes.methods["unwrap_cek"]) if isinstance(n, ast.Call) and norm(n.func) == "aes_key_unwrap"]
    ok = len(w) == 1 and [norm(a) for a in w[0].args[:2]] == ["key", "cek"] and len(u) == 1 and [norm(a) for a in u[0].args[:2]] == ["key", "ek"]
    ctx.check(ok, "R08.8", aes.methods["wrap_cek"], None, "AES key wrap", "AxKW is not RFC 3394 aes_key_wrap(kek, cek) / aes_key_unwrap(kek, encrypted key)", "aes_key_wrap(key, cek) / aes_key_unwrap(key, ek)",
              construct="AES-KW calls")
    rsa = P.cls(M + "RSAAlgModel")
    e = [n for n in fn_nodes(rsa.methods["encrypt_cek"]) if isinstance(n, ast.Call) and isinstance(n.func, ast.Attribute) and n.func.attr == "encrypt"]
    d = [n for n in fn_nodes(rsa.methods["decrypt_cek"]) if isinstance(n, ast.Call) and isinstance(n.func, ast.Attribute) and n.func.attr == "decrypt"]
    ok = len(e) == 1 and [norm(a) for a in e[0].args] == ["cek", "self.padding"] and len(d) == 1 and [norm(a) for a in d[0].args] == ["recipient.encrypted_key", "self.padding"]
    ctx.check(ok, "R08.8", rsa.methods["encrypt_cek"], None, "RSA key encryption", "RSA key encryption does not use the model's padding on the CEK / encrypted key", "op_key.encrypt(cek, padding) / decrypt(encrypted_key, padding)",
              construct="RSA key encryption calls")
    g = P.cls(M + "AESGCMAlgModel")
    enc, dec = g.methods["encrypt_cek"], g.methods["decrypt_cek"]
    hs = {const_value(n.args[0]): norm(n.args[1]) for n in fn_nodes(enc) if isinstance(n, ast.Call) and isinstance(n.func, ast.Attribute) and n.func.attr == "add_header"}
    ok = hs == {"iv": "urlsafe_b64encode(iv).decode('ascii')", "tag": "urlsafe_b64encode(enc.tag).decode('ascii')"}
    ivd = [norm(d_[1]) for d_ in eng.flow._defs(dec).get("iv", []) if d_[0] == "assign"]
    tgd = [norm(d_[1]) for d_ in eng.flow._defs(dec).get("tag", []) if d_[0] == "assign"]
    ok = ok and ivd == ["urlsafe_b64decode(to_bytes(headers['iv']))"] and tgd == ["urlsafe_b64decode(to_bytes(headers['tag']))"]
    gcm = [n for n in fn_nodes(dec) if isinstance(n, ast.Call) and norm(n.func) == "GCM"]
    ok = ok and len(gcm) == 1 and [norm(a) for a in gcm[0].args] == ["iv", "tag"]
    rets = [norm(r.value) for r in fn_nodes(enc) if isinstance(r, ast.Return)]
    ed = [norm(d_[1]) for d_ in eng.flow._defs(enc).get("encrypted_key", []) if d_[0] == "assign"]
    ok = ok and rets == ["encrypted_key"] and ed == ["enc.update(cek) + enc.finalize()"]
    ctx.check(ok, "R08.8", enc, None, "AES-GCM key wrap", "AxGCMKW does not publish base64url iv / tag header parameters and decrypt with GCM(iv, tag)", "iv, tag headers; GCM(iv, tag)", construct="AES-GCM-KW fields")
    # ECDH-ES: Z = ECDH(ephemeral, recipient) / ECDH(recipient, epk)
    ec = P.cls(M + "ECDHESAlgModel")
    ze = [norm(d_[1]) for d_ in eng.flow._defs(ec.methods["encrypt_agreed_upon_key"]).get("shared_key", []) if d_[0] == "assign"]
    zd = [norm(d_[1]) for d_ in eng.flow._defs(ec.methods["decrypt_agreed_upon_key"]).get("shared_key", []) if d_[0] == "assign"]
    ctx.check(ze == ["ephemeral_key.exchange_derive_key(recipient_key)"] and zd == ["recipient_key.exchange_derive_key(ephemeral_key)"], "R08.8", ec.methods["encrypt_agreed_upon_key"], None, "ECDH-ES Z",
              f"ECDH-ES shared secret: encrypt {ze} decrypt {zd}", "ECDH(ephemeral, recipient) on both sides", construct="ECDH-ES shared secret")


def run(ctx) -> None:
    ctx.guard(r08_1)
    ctx.guard(r02_2_3)  # R08.2 consume side: reported under R02.2 / R02.3
    ctx.guard(r08_2_produce)
    ctx.guard(r08_3)
    ctx.guard(r08_4)
    ctx.guard(r08_5)
    ctx.guard(r17_3)  # R08.6
    ctx.guard(r04_3)  # R08.7
    ctx.guard(r08_8)
    ctx.note("R08.2 (consume), R08.6 and R08.7 reuse the C02 / C17 / C04 rule implementations and keep their rule ids")
    ctx.note("undecided remainder: decryption of every joserfc token under an independent implementation and vice versa needs an oracle implementation")
    ctx.assume("RFC 7518 sections 4-5, draft-madden-jose-ecdh-1pu-04, draft-amringer-jose-chacha-02 as transcribed in jv/spec/tables.py")
