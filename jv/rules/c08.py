"""C08 - JWE octets on the wire are those of RFC 7516 / 7518 and the implemented drafts (tables + layout).

R08.1 folded JWE parameter tables = RFC tables           R08.2 the AAD is the received header (= C02 R02.2) and, when producing, the emitted one
R08.3 CBC-HMAC key split, MAC input and tag truncation   R08.4 Concat KDF other-info layout; ECDH-1PU Z = Ze || Zs
R08.5 PBES2 salt layout and KDF parameters               R08.6 raw DEFLATE framing (= C17 R17.3)
R08.7 member names of the serializations (= C04 R04.3)   R08.8 AES-KW / RSA / AES-GCM-KW primitive call shapes
"""
from __future__ import annotations
import ast
from typing import List, Optional

from ..program import AnalysisError, FunctionInfo, fn_nodes, norm
from ..cfg import cfg_of
from ..fold import ExtVal, Inst
from ..spec import tables as T
from ..terms import Terms, show, match, alts, C, K, L
from .common import can_reach_exit, succ_by_label, resolve_all, JWE_PRODUCE, const_value, entries, impls, is_const, scope_of, sites_calling
from .c02 import r02_2_3
from .c04 import r04_3
from .c17 import r17_3


def r08_1(ctx) -> None:
    eng = ctx.eng
    P = eng.prog
    F = eng.folder
    reg = F.class_attr(P.cls("rfc7516.registry:JWERegistry"), "algorithms")
    if not isinstance(reg, dict):
        raise AnalysisError("JWE tables did not fold")
    d1 = F.module_value(P.mod("drafts.jwe_ecdh_1pu"), "JWE_ALG_MODELS")
    d2 = F.module_value(P.mod("drafts.jwe_chacha20"), "JWE_ENC_MODELS")
    algs = dict(reg["alg"])
    for i in d1:
        algs[F.get_attr(i, "name")] = i
    encs = dict(reg["enc"])
    for i in d2:
        encs[F.get_attr(i, "name")] = i
    spec_alg = dict(T.JWE_ALGS)
    spec_alg.update(T.JWE_DRAFT_ALGS)
    ctx.count("R08.1/alg", len(algs), 21, "key management models (RFC + draft)")
    for name, (ktypes, ksize, _rec) in spec_alg.items():
        inst = algs.get(name)
        if not isinstance(inst, Inst):
            ctx.fail("R08.1", None, None, f"{name} not defined", construct=f"JWE model {name}")
            continue
        gk, gs = F.get_attr(inst, "key_types"), F.get_attr(inst, "key_size")
        ok = gk == ktypes and gs == ksize
        detail = [f"key_types {gk}", f"key_size {gs}"]
        if name in T.RSA_PADDINGS:
            pd = repr(F.get_attr(inst, "padding"))
            ok = ok and pd == T.RSA_PADDINGS[name]
            detail.append(pd.split("padding.")[-1][:60])
        if name in T.PBES2:
            h, w = T.PBES2[name]
            gh = repr(F.get_attr(inst, "hash_alg"))
            gw = F.get_attr(F.get_attr(inst, "key_wrapping"), "name")
            ok = ok and gh == h and gw == w
            detail.append(f"hash {gh.split('.')[-1]} wrap {gw}")
        if name in T.KEY_WRAPPERS:
            gw = F.get_attr(F.get_attr(inst, "key_wrapping"), "name")
            ok = ok and gw == T.KEY_WRAPPERS[name]
            detail.append(f"wrap {gw}")
        if name in ("ECDH-ES", "ECDH-1PU"):
            ok = ok and F.get_attr(inst, "key_wrapping") is None
        dm = F.get_attr(inst, "direct_mode")
        ok = ok and dm is (ksize is None)
        ctx.check(ok, "R08.1", None, None, f"JWE alg {name}", f"{name}: folded {detail} direct_mode={dm}; RFC 7518 section 4: key types {ktypes}, key size {ksize}", ", ".join(detail),
                  construct=f"JWE alg parameters of {name}")
    spec_enc = dict(T.JWE_ENCS)
    spec_enc.update(T.JWE_DRAFT_ENCS)
    ctx.count("R08.1/enc", len(encs), 8, "content encryption models")
    for name, (cek, iv, _rec, extra) in spec_enc.items():
        inst = encs.get(name)
        if not isinstance(inst, Inst):
            ctx.fail("R08.1", None, None, f"{name} not defined", construct=f"JWE enc {name}")
            continue
        ok = F.get_attr(inst, "cek_size") == cek and F.get_attr(inst, "iv_size") == iv
        for k, v in extra.items():
            g = F.get_attr(inst, k)
            g = g.name if isinstance(g, ExtVal) else g
            ok = ok and g == v
        ctx.check(ok, "R08.1", None, None, f"JWE enc {name}", f"{name}: cek_size={F.get_attr(inst, 'cek_size')} iv_size={F.get_attr(inst, 'iv_size')} "
                  f"{ {k: F.get_attr(inst, k) for k in extra} }; RFC 7518 section 5: cek {cek}, iv {iv}, {extra}", f"cek {cek} iv {iv} {extra}", construct=f"JWE enc parameters of {name}")
    ka = P.cls("rfc7516.models:JWEKeyAgreement")
    ta = {F.get_attr(i, "name"): F.get_attr(i, "tag_aware") for i in algs.values() if ka in i.cls.mro}
    ctx.check(len(ta) == 8 and all(v is (k.startswith("ECDH-1PU")) for k, v in ta.items()), "R08.1", None, None, "tag_aware flags", f"tag_aware flags {ta}", "only ECDH-1PU binds the tag", construct="tag_aware flags")


def r08_2_produce(ctx) -> None:
    """on the produce side the AAD handed to enc.encrypt is the encoded protected header that is emitted"""
    eng = ctx.eng
    Tm = Terms(eng)
    enc_i = impls(eng, "rfc7516.models:JWEEncModel", "encrypt", include_abstract=True)
    sites = [s for s in sites_calling(eng, enc_i) if isinstance(s.node, ast.Call) and s.kind in ("method", "cha")]
    if len(sites) != 1:
        raise AnalysisError("expected one enc.encrypt site")
    s = sites[0]
    fn = s.fn
    aad = None
    for c in s.callees:
        aad = aad or eng.cg.arg_for_param(s, c, "aad")
    t = Tm.of(fn, aad)
    want = C(("B64J", L("obj.protected")), ("OPT", ("ANY",), C(K(b"."), ("B64U", L("obj.aad")))))
    ok = match(t, want)
    ctx.check(ok, "R08.2", fn, s.node, f"{fn.short} :: AAD term", f"AAD is not ASCII(BASE64URL(UTF8(protected header))) [|| '.' || BASE64URL(aad)]: {show(t)}", show(t), construct="AAD term (encrypt)")
    # compact output carries exactly that encoded header; JSON re-encodes the same (unmodified) dict
    st = [n for n in fn_nodes(fn) if isinstance(n, ast.Assign) and norm(n.targets[0]) == "obj.base64_segments['aad']"]
    ok2 = len(st) == 1 and norm(st[0].value) == norm(aad)
    ctx.check(ok2, "R08.2", fn, fn.node, f"{fn.short} :: emitted header", "the encoded header that was authenticated is not the one stored for the compact output", "obj.base64_segments['aad'] = aad",
              construct="emitted = authenticated header")
    # every header addition of the key management step happens before the AAD is computed
    cfg = cfg_of(fn)
    an = [cfg.node_of(n) for n in fn_nodes(fn) if isinstance(n, ast.Call) and norm(n.func) == "json_b64encode"]
    pre = [cfg.node_of(x.node) for x in eng.cg.calls_in(fn) if isinstance(x.node, ast.Call) and x.callees and any(c.name == "pre_encrypt_recipients" for c in x.callees)]
    ok3 = bool(an) and bool(pre) and all(a is not None and cfg.must_pass(cfg.entry, a, [p for p in pre if p is not None]) for a in an)
    ctx.check(ok3, "R08.2", fn, fn.node, f"{fn.short} :: header complete before AAD", "the protected header is encoded before the per-recipient key management added its parameters (epk, iv, tag, p2s, p2c, kid)",
              "pre_encrypt_recipients dominates json_b64encode(obj.protected)", construct="header complete before AAD")


def r08_3(ctx) -> None:
    eng = ctx.eng
    P = eng.prog
    Tm = Terms(eng)
    cb = P.cls("rfc7518.jwe_encs:CBCHS2EncModel")
    hm = cb.methods.get("_hmac")
    if hm is None:
        raise AnalysisError("CBCHS2EncModel._hmac vanished")
    rets = [r.value for r in fn_nodes(hm) if isinstance(r, ast.Return)]
    ok = len(rets) == 1
    t = Tm.of(hm, rets[0]) if ok else None
    # (self, ciphertext, aad, iv, key): the parameters of a private method may be renamed, re-ordered or made keyword-only - the roles are read off
    # the MAC term itself: the assignment of the four parameters under which it is HMAC(key, aad || iv || ciphertext || AL)[:key_len]
    import itertools as _it
    a_ = hm.node.args
    allp = [x.arg for x in list(a_.posonlyargs) + list(a_.args) + list(a_.kwonlyargs)]
    if len(allp) != 5 or a_.vararg or a_.kwarg:
        raise AnalysisError("CBCHS2EncModel._hmac no longer takes (ciphertext, aad, iv, key)")
    sn_ = allp[0]
    roles = None
    for perm in ([tuple(allp[1:])] + [q for q in _it.permutations(allp[1:]) if q != tuple(allp[1:])]):
        p_ct, p_aad, p_iv, p_key = perm
        want = ("SLICE", ("CALL", "digest", (("CALL", "new", (L(p_key), C(L(p_aad), L(p_iv), L(p_ct), ("U64BITS", L(p_aad))), L(f"{sn_}.hash_alg"))),)), None, L(f"{sn_}.key_len"))
        if ok and match(t, want):
            roles = perm
            break
    ok = ok and roles is not None
    pos_names = [x.arg for x in list(a_.posonlyargs) + list(a_.args)][1:]

    def _bound(call: ast.Call):
        """-> the actual arguments in role order (ciphertext, aad, iv, key), None when the call does not bind all four exactly once"""
        got = {}
        for i_, x_ in enumerate(call.args):
            if isinstance(x_, ast.Starred) or i_ >= len(pos_names):
                return None
            got[pos_names[i_]] = x_
        for k_ in call.keywords:
            if k_.arg is None or k_.arg in got or k_.arg not in allp[1:]:
                return None
            got[k_.arg] = k_.value
        if roles is None or set(got) != set(roles):
            return None
        return [got[r_] for r_ in roles]
    ctx.check(ok, "R08.3", hm, hm.node, hm.short, f"CBC-HMAC tag is not HMAC(MAC_KEY, AAD || IV || ciphertext || AL)[:key_len] with AL the 64-bit big-endian bit length of the AAD: {show(t) if t else ''}",
              show(t) if t else "", construct="CBC-HMAC MAC input and truncation")
    for m in ("encrypt", "decrypt"):
        fn = cb.methods[m]
        cekp = "cek"
        if cekp not in fn.params:
            raise AnalysisError(f"CBCHS2EncModel.{m} has no cek parameter")
        sn = fn.self_name

        def R1(e):
            r = resolve_all(eng, fn, e)
            return r[0] if len(r) == 1 else None
        calls = [n for n in fn_nodes(fn) if isinstance(n, ast.Call) and norm(n.func) == f"{sn}._hmac"]
        bound = _bound(calls[0]) if len(calls) == 1 else None
        ok2 = bound is not None
        if ok2:
            a = [R1(x) for x in bound]
            ok2 = a[1] == "aad" and a[2] == "iv" and a[3] == f"{cekp}[:{sn}.key_len]"
            if m == "decrypt":
                ok2 = ok2 and a[0] == "ciphertext"
            else:
                ok2 = ok2 and a[0] is not None and ".encryptor()" in a[0] and a[0].endswith(".finalize()")
        aes = [n for n in fn_nodes(fn) if isinstance(n, ast.Call) and norm(n.func) == "AES"]
        ok3 = len(aes) == 1 and R1(aes[0].args[0]) == f"{cekp}[{sn}.key_len:]"
        cbc = [n for n in fn_nodes(fn) if isinstance(n, ast.Call) and norm(n.func) == "CBC"]
        ok4 = len(cbc) == 1 and R1(cbc[0].args[0]) == "iv"
        pk = [n for n in fn_nodes(fn) if isinstance(n, ast.Call) and norm(n.func) == "PKCS7"]
        ok5 = len(pk) == 1 and norm(pk[0].args[0]) in ("AES.block_size", "128")
        ctx.check(ok2 and ok3 and ok4 and ok5, "R08.3", fn, fn.node, f"{fn.short} :: key split", f"CBC-HMAC {m}: MAC key must be the first half and ENC key the second half of the CEK, "
                  "MAC over (ciphertext, aad, iv), AES-CBC with the IV and PKCS#7 padding", "hkey = cek[:key_len]; key = cek[key_len:]; _hmac(ciphertext, aad, iv, hkey)", construct=f"CBC-HMAC key split in {m}")


def r08_4(ctx) -> None:
    eng = ctx.eng
    P = eng.prog
    Tm = Terms(eng)
    dk = P.func("rfc7518.derive_key:derive_key_for_concat_kdf")
    kdf = [s for s in eng.cg.calls_in(dk) if isinstance(s.node, ast.Call) and any(x.endswith("ConcatKDFHash") for x in s.ext)]
    if len(kdf) != 1:
        raise AnalysisError("derive_key_for_concat_kdf: ConcatKDFHash call not found")
    kw = {k.arg: k.value for k in kdf[0].node.keywords}
    oi = Tm.of(dk, kw["otherinfo"]) if "otherinfo" in kw else None
    z4 = K(b"\x00\x00\x00\x00")

    def lp(x):
        return ("ALTS", (C(("LEN32", x), x), z4))
    apu = ("B64D", ("CALL", "get", (L("header"), K(b"apu"))))
    apv = ("B64D", ("CALL", "get", (L("header"), K(b"apv"))))
    algid = ("ALT", ("ANY",), lp(L("header['alg']")), lp(L("header['enc']")))
    want = C(algid, lp(apu), lp(apv), ("U32", ("ALT", ("ANY",), L("key_size"), L("cek_size"))), ("OPT", ("ANY",), lp(L("tag"))))
    ok = oi is not None and match(oi, want)
    ctx.check(ok, "R08.4", dk, kdf[0].node, f"{dk.short} :: other-info", "Concat KDF other-info is not AlgorithmID || PartyUInfo || PartyVInfo || SuppPubInfo [|| tag] with 32-bit big-endian length prefixes "
              f"(AlgorithmID = alg when wrapping else enc; apu / apv base64url-decoded; keydatalen in bits): {show(oi) if oi else ''}", show(oi) if oi else "", construct="Concat KDF other-info")
    # AlgorithmID / keydatalen pairing: `if key_size:` -> (alg, key_size) else (enc, cek_size)
    cfg = cfg_of(dk)
    ksp, csp, hp = "key_size", "cek_size", "header"
    for q in (ksp, csp, hp):
        if q not in dk.params:
            raise AnalysisError(f"derive_key_for_concat_kdf lost its parameter {q}")
    t = [x for x in cfg.nodes if x.kind == "test" and norm(x.ast) == ksp]
    okp = False
    bitvar = None
    if t and isinstance(t[0].stmt, ast.If):
        def assigns(stmts):
            return {norm(x.targets[0]): norm(x.value) for x in stmts if isinstance(x, ast.Assign) and len(x.targets) == 1 and isinstance(x.targets[0], ast.Name)}
        b, e = assigns(t[0].stmt.body), assigns(t[0].stmt.orelse)
        for A in b:
            for B in b:
                if b.get(A) == f"u32be_len_input({hp}['alg'])" and b.get(B) == ksp and e.get(A) == f"u32be_len_input({hp}['enc'])" and e.get(B) == csp:
                    okp = True
                    bitvar = B
    ctx.check(okp, "R08.4", dk, dk.node, f"{dk.short} :: AlgorithmID pairing", "AlgorithmID / keydatalen are not (alg, wrap key size) in key-wrapping mode and (enc, CEK size) in direct mode",
              "if key_size: alg, key_size else: enc, cek_size", construct="AlgorithmID pairing")
    okh = "algorithm" in kw and norm(kw["algorithm"]) == "hashes.SHA256()" and "length" in kw and resolve_all(eng, dk, kw["length"]) == sorted([f"{ksp} // 8", f"{csp} // 8"])
    ders = [n for n in fn_nodes(dk) if isinstance(n, ast.Call) and isinstance(n.func, ast.Attribute) and n.func.attr == "derive"]
    okh = okh and len(ders) == 1 and norm(ders[0].args[0]) == dk.pos_params[0] and resolve_all(eng, dk, ders[0].func.value)[0].startswith("ConcatKDFHash(")
    ctx.check(okh, "R08.4", dk, dk.node, f"{dk.short} :: KDF", "the KDF is not ConcatKDF with SHA-256 deriving keydatalen / 8 octets from Z", "ConcatKDFHash(SHA256, bit_size // 8).derive(shared_key)",
              construct="Concat KDF parameters")
    # callers pass (Z, headers, enc.cek_size, self.key_size[, tag])
    n = 0
    for s in eng.cg.callers.get(dk, []):
        if not isinstance(s.node, ast.Call):
            continue
        n += 1
        # (positional or by keyword; a tag-less entry point may spell the absent tag `None`)
        given = [eng.cg.arg_for_param(s, dk, p_) for p_ in dk.pos_params[:5]]
        a = [resolve_all(eng, s.fn, x) if x is not None else None for x in given]
        rp = next((p_ for p_ in s.fn.params if p_ == "recipient"), None)
        ok = len(a) >= 4 and a[0] is not None and a[1] == [f"{rp}.headers()"] and a[2] == ["enc.cek_size"] and a[3] == [f"{s.fn.self_name}.key_size"] \
            and (len(a) == 4 or a[4] is None or a[4] == ["tag"] or (a[4] == ["None"] and "tag" not in s.fn.params))
        ctx.check(ok, "R08.4", s.fn, s.node, f"{s.fn.short} :: {norm(s.node.func)}(...)", "Concat KDF is not called with (Z, the recipient's merged headers, enc.cek_size, self.key_size[, tag])", "argument order",
                  construct=f"Concat KDF call in {s.fn.short}")
    ctx.count("R08.4", n, 4, "Concat KDF call sites")
    # ECDH-1PU: Z = Ze || Zs on both sides
    pu = P.cls("drafts.jwe_ecdh_1pu:ECDH1PUAlgModel")
    n1 = 0
    for s in eng.cg.callers.get(dk, []):
        m = s.fn
        z_arg = eng.cg.arg_for_param(s, dk, dk.pos_params[0]) if isinstance(s.node, ast.Call) else None
        if m.cls is not pu or z_arg is None:
            continue
        n1 += 1
        z = resolve_all(eng, m, z_arg)
        # which side: by the public entry point that reaches this method (the private helper may carry any name)
        names, todo, seen_ = {m.name}, [m], {m}
        while todo:
            cur = todo.pop()
            for cs in eng.cg.callers.get(cur, []):
                if cs.fn.cls is pu and cs.fn not in seen_:
                    seen_.add(cs.fn)
                    names.add(cs.fn.name)
                    todo.append(cs.fn)
        enc_side = any("encrypt" in x for x in names) and not any("decrypt" in x for x in names)
        rk, ek_, sk_ = "recipient.recipient_key", "recipient.ephemeral_key", "recipient.sender_key"
        want = f"{ek_}.exchange_derive_key({rk}) + {sk_}.exchange_derive_key({rk})" if enc_side else f"{rk}.exchange_derive_key({ek_}) + {rk}.exchange_derive_key({sk_})"
        got = [x for x in z]
        # on the consume side the ephemeral key is the imported epk header and the sender key may be a local narrowed by isinstance
        okz = len(got) == 1 and _z_matches(got[0], want, enc_side)
        ctx.check(okz, "R08.4", m, s.node, f"{m.short} :: Z", f"ECDH-1PU shared secret is not Ze || Zs with Ze = ECDH(ephemeral, recipient), Zs = ECDH(sender, recipient): {got}",
                  want, construct=f"1PU Z in {m.name}")
    ctx.count("R08.4", n1, 2, "ECDH-1PU Concat KDF call sites")


def _z_matches(got: str, want: str, enc_side: bool) -> bool:
    if got == want:
        return True
    # Ze || Zs shape with the recipient key as the common party
    import re
    if enc_side:
        m = re.fullmatch(r"(.+)\.exchange_derive_key\((.+)\) \+ (.+)\.exchange_derive_key\((.+)\)", got)
        return bool(m) and m.group(2) == m.group(4) == "recipient.recipient_key" and "ephemeral_key" in m.group(1) and "sender_key" in m.group(3)
    m = re.fullmatch(r"(.+)\.exchange_derive_key\((.+)\) \+ (.+)\.exchange_derive_key\((.+)\)", got)
    return bool(m) and m.group(1) == m.group(3) == "recipient.recipient_key" and ("epk" in m.group(2) or "ephemeral" in m.group(2)) and "sender_key" in m.group(4)


def r08_5(ctx) -> None:
    eng = ctx.eng
    P = eng.prog
    Tm = Terms(eng)
    pb = P.cls("rfc7518.jwe_algs:PBES2HSAlgModel")
    cd = pb.methods.get("compute_derived_key")
    if cd is None:
        raise AnalysisError("PBES2HSAlgModel.compute_derived_key vanished")
    kdf = [s for s in eng.cg.calls_in(cd) if isinstance(s.node, ast.Call) and any(x.endswith("PBKDF2HMAC") for x in s.ext)]
    if len(kdf) != 1:
        raise AnalysisError("PBKDF2HMAC call not found")
    kw = {k.arg: k.value for k in kdf[0].node.keywords}
    salt = Tm.of(cd, kw["salt"]) if "salt" in kw else None
    ok = salt is not None and match(salt, C(L("self.name"), K(b"\x00"), L("p2s")))
    ctx.check(ok, "R08.5", cd, kdf[0].node, f"{cd.short} :: salt", f"PBES2 salt is not UTF8(alg) || 0x00 || salt input: {show(salt) if salt else ''}", show(salt) if salt else "", construct="PBES2 salt layout")
    okk = norm(kw.get("algorithm", ast.Constant(value=None))) == "self.hash_alg" and norm(kw.get("length", ast.Constant(value=None))) == "self.key_size // 8" and \
        norm(kw.get("iterations", ast.Constant(value=None))) == "p2c"
    ders = [n for n in fn_nodes(cd) if isinstance(n, ast.Call) and isinstance(n.func, ast.Attribute) and n.func.attr == "derive"]
    okk = okk and len(ders) == 1 and norm(ders[0].args[0]) == "key"
    ctx.check(okk, "R08.5", cd, cd.node, f"{cd.short} :: KDF", "PBKDF2 is not run with the algorithm's hash, key_size / 8 octets and the p2c count on the password", "PBKDF2HMAC(hash_alg, key_size // 8, salt, p2c).derive(key)",
              construct="PBES2 KDF parameters")
    # iteration count: exactly the counts below 1 (and above what the backend supports) are refused - p2c = 1 is a valid count
    cfgd = cfg_of(cd)
    p2cp = cd.pos_params[3] if len(cd.pos_params) > 3 else "p2c"
    lows = []
    for t_ in cfgd.nodes:
        if t_.kind != "test" or not isinstance(t_.ast, ast.Compare) or len(t_.ast.ops) != 1:
            continue
        l_, r_, op_ = t_.ast.left, t_.ast.comparators[0], t_.ast.ops[0]
        form = None
        if norm(l_) == p2cp and isinstance(r_, ast.Constant) and isinstance(r_.value, int):
            form = (type(op_).__name__, r_.value)
        elif norm(r_) == p2cp and isinstance(l_, ast.Constant) and isinstance(l_.value, int):
            form = ({"Gt": "Lt", "GtE": "LtE", "Lt": "Gt", "LtE": "GtE"}.get(type(op_).__name__, "?"), l_.value)
        if form and form[0] in ("Lt", "LtE"):
            lows.append((t_, form))
    okl = bool(lows) and all(f in (("Lt", 1), ("LtE", 0)) and not can_reach_exit(cfgd, succ_by_label(cfgd, t_, "true")) for t_, f in lows)
    ctx.check(okl, "R08.5", cd, cd.node, f"{cd.short} :: p2c lower bound", f"the PBES2 iteration count is not refused exactly below 1: {[f for _, f in lows]}", "raise iff p2c < 1 (or above the backend maximum)",
              construct="p2c lower bound")
    HP2S = "urlsafe_b64decode(to_bytes(recipient.headers()['p2s']))"
    HP2C = "recipient.headers()['p2c']"
    PW = "recipient.recipient_key.get_op_key('deriveKey')"
    for m in ("encrypt_cek", "decrypt_cek"):
        fn = pb.methods[m]
        sn = fn.self_name
        rets = [r.value for r in fn_nodes(fn) if isinstance(r, ast.Return) and r.value is not None]
        got = resolve_all(eng, fn, rets[0]) if len(rets) == 1 else []
        if m == "encrypt_cek":
            want = sorted(f"{sn}.key_wrapping.wrap_cek(cek, {sn}.compute_derived_key({PW}, {a}, {b}))" for a in ("secrets.token_bytes(16)", HP2S) for b in (f"{sn}.DEFAULT_P2C", HP2C))
            # the generated salt may have any size >= 8 (decided by C18); accept other token_bytes sizes textually
            import re as _re
            got_n = sorted(_re.sub(r"secrets\.token_bytes\(\d+\)", "secrets.token_bytes(16)", g) for g in got)
        else:
            want = [f"{sn}.key_wrapping.unwrap_cek(recipient.encrypted_key, {sn}.compute_derived_key({PW}, {HP2S}, {HP2C}))"]
            got_n = got
        okm = got_n == want
        ctx.check(okm, "R08.5", fn, fn.node, f"{fn.short}", f"PBES2 {m} does not derive the KEK from the password with (decoded p2s, p2c) and AES-key-wrap the CEK with it: {got[:2]}",
                  "kek = PBKDF2(password, p2s, p2c); key_wrapping.(un)wrap_cek(..., kek)", construct=f"PBES2 {m}")
    enc = pb.methods["encrypt_cek"]
    # a salt / count is generated exactly when the caller's headers carry none: the generating branch is controlled by the
    # absence of that very member
    cfge = cfg_of(enc)
    for member, marker in (("p2s", "secrets.token_bytes("), ("p2c", ".DEFAULT_P2C")):
        gens = [x for x in cfge.nodes if x.kind == "stmt" and isinstance(x.ast, ast.Assign) and marker in norm(x.ast.value)]
        okg = bool(gens)
        for g in gens:
            ctl = [t_ for t_ in cfge.nodes if t_.kind == "test" and isinstance(t_.ast, ast.Compare) and len(t_.ast.ops) == 1 and isinstance(t_.ast.ops[0], (ast.In, ast.NotIn))
                   and const_value(t_.ast.left) == member and resolve_all(eng, enc, t_.ast.comparators[0]) == ["recipient.headers()"]]
            absent = [(t_, "false" if isinstance(t_.ast.ops[0], ast.In) else "true") for t_ in ctl]
            okg = okg and bool(absent) and all(g not in cfge.reachable(cfge.entry, edge_filter=lambda a, b, lab, _t=t_, _l=lab_: not (a is _t and lab == _l)) for t_, lab_ in absent)
        ctx.check(okg, "R08.5", enc, enc.node, f"{enc.short} :: {member} generated iff absent", f"the PBES2 {member} is not generated exactly when the recipient's headers carry no {member!r} "
                  "(a caller-chosen value would be overridden, or a missing one not replaced)", f"if '{member}' not in headers: generate", construct=f"{member} presence condition")
    hdr = [n for n in fn_nodes(enc) if isinstance(n, ast.Call) and isinstance(n.func, ast.Attribute) and n.func.attr == "add_header" and const_value(n.args[0]) == "p2s"]
    okp = len(hdr) == 1
    if okp:
        # the published value is the base64url text of the very salt that is used (the same local), on the path that generated it
        a1 = hdr[0].args[1]
        okp = isinstance(a1, ast.Call) and norm(a1.func).endswith(".decode") and isinstance(a1.func, ast.Attribute) and isinstance(a1.func.value, ast.Call) \
            and norm(a1.func.value.func) == "urlsafe_b64encode" and len(a1.func.value.args) == 1 and isinstance(a1.func.value.args[0], ast.Name)
        if okp:
            saltv = a1.func.value.args[0].id
            cds = [n for n in fn_nodes(enc) if isinstance(n, ast.Call) and isinstance(n.func, ast.Attribute) and n.func.attr == "compute_derived_key"]
            okp = len(cds) == 1 and len(cds[0].args) >= 2 and norm(cds[0].args[1]) == saltv
    ctx.check(okp, "R08.5", enc, enc.node, f"{enc.short} :: p2s header", "the generated salt input is not published base64url-encoded (or another value than the salt used is published)",
              "add_header('p2s', BASE64URL(p2s))", construct="p2s header encoding")


def r08_8(ctx) -> None:
    eng = ctx.eng
    P = eng.prog
    M = "rfc7518.jwe_algs:"
    aes = P.cls(M + "AESAlgModel")
    w = [n for n in fn_nodes(aes.methods["wrap_cek"]) if isinstance(n, ast.Call) and norm(n.func) == "aes_key_wrap"]
    u = [n for n in fn_nodes(aes.methods["unwrap_cek"]) if isinstance(n, ast.Call) and norm(n.func) == "aes_key_unwrap"]
    wf, uf = aes.methods["wrap_cek"], aes.methods["unwrap_cek"]
    ok = len(w) == 1 and [resolve_all(eng, wf, a) for a in w[0].args[:2]] == [[wf.pos_params[2]], [wf.pos_params[1]]] and len(u) == 1 \
        and [resolve_all(eng, uf, a) for a in u[0].args[:2]] == [[uf.pos_params[2]], [uf.pos_params[1]]]
    ctx.check(ok, "R08.8", aes.methods["wrap_cek"], None, "AES key wrap", "AxKW is not RFC 3394 aes_key_wrap(kek, cek) / aes_key_unwrap(kek, encrypted key)", "aes_key_wrap(key, cek) / aes_key_unwrap(key, ek)",
              construct="AES-KW calls")
    rsa = P.cls(M + "RSAAlgModel")
    e = [n for n in fn_nodes(rsa.methods["encrypt_cek"]) if isinstance(n, ast.Call) and isinstance(n.func, ast.Attribute) and n.func.attr == "encrypt"]
    d = [n for n in fn_nodes(rsa.methods["decrypt_cek"]) if isinstance(n, ast.Call) and isinstance(n.func, ast.Attribute) and n.func.attr == "decrypt"]
    ef, df = rsa.methods["encrypt_cek"], rsa.methods["decrypt_cek"]
    ok = len(e) == 1 and [resolve_all(eng, ef, a) for a in e[0].args] == [[ef.pos_params[1]], [f"{ef.self_name}.padding"]] and len(d) == 1 \
        and [resolve_all(eng, df, a) for a in d[0].args] == [[f"{df.pos_params[1]}.encrypted_key"], [f"{df.self_name}.padding"]]
    ctx.check(ok, "R08.8", rsa.methods["encrypt_cek"], None, "RSA key encryption", "RSA key encryption does not use the model's padding on the CEK / encrypted key", "op_key.encrypt(cek, padding) / decrypt(encrypted_key, padding)",
              construct="RSA key encryption calls")
    g = P.cls(M + "AESGCMAlgModel")
    enc, dec = g.methods["encrypt_cek"], g.methods["decrypt_cek"]
    hs = {const_value(n.args[0]): resolve_all(eng, enc, n.args[1]) for n in fn_nodes(enc) if isinstance(n, ast.Call) and isinstance(n.func, ast.Attribute) and n.func.attr == "add_header"
          and len(n.args) == 2}
    rets = [r.value for r in fn_nodes(enc) if isinstance(r, ast.Return) and r.value is not None]
    rtxt = resolve_all(eng, enc, rets[0]) if len(rets) == 1 else []
    ok = set(hs) == {"iv", "tag"} and len(rtxt) == 1
    if ok:
        import re as _re
        m_ = _re.fullmatch(r"(Cipher\(AES\((.+?)\), GCM\((.+)\), backend=default_backend\(\)\)\.encryptor\(\))\.update\(cek\) \+ \1\.finalize\(\)", rtxt[0])
        ok = bool(m_) and m_.group(2) == "recipient.recipient_key.get_op_key('wrapKey')"
        if ok:
            ivx, encx = m_.group(3), m_.group(1)
            ok = hs["iv"] == [f"urlsafe_b64encode({ivx}).decode('ascii')"] and hs["tag"] == [f"urlsafe_b64encode({encx}.tag).decode('ascii')"]
    rd = [r.value for r in fn_nodes(dec) if isinstance(r, ast.Return) and r.value is not None]
    dtxt = resolve_all(eng, dec, rd[0]) if len(rd) == 1 else []
    okd = len(dtxt) == 1
    if okd:
        IV, TG = "urlsafe_b64decode(to_bytes(recipient.headers()['iv']))", "urlsafe_b64decode(to_bytes(recipient.headers()['tag']))"
        D = f"Cipher(AES(recipient.recipient_key.get_op_key('unwrapKey')), GCM({IV}, {TG}), backend=default_backend()).decryptor()"
        okd = dtxt[0] == f"{D}.update(recipient.encrypted_key) + {D}.finalize()"
    ctx.check(ok and okd, "R08.8", enc, None, "AES-GCM key wrap", f"AxGCMKW does not publish base64url iv / tag header parameters and decrypt with GCM(iv, tag): {rtxt[:1]} {dtxt[:1]}", "iv, tag headers; GCM(iv, tag)",
              construct="AES-GCM-KW fields")
    # ECDH-ES: Z = ECDH(ephemeral, recipient) / ECDH(recipient, epk)
    ec = P.cls(M + "ECDHESAlgModel")
    dkf = P.func("rfc7518.derive_key:derive_key_for_concat_kdf")
    zz = {}
    for s_ in eng.cg.callers.get(dkf, []):
        if s_.fn.cls is ec and isinstance(s_.node, ast.Call) and s_.node.args:
            zz[s_.fn.name] = resolve_all(eng, s_.fn, s_.node.args[0])
    ze, zd = zz.get("encrypt_agreed_upon_key"), zz.get("decrypt_agreed_upon_key")
    ctx.check(ze == ["recipient.ephemeral_key.exchange_derive_key(recipient.recipient_key)"] and
              zd == ["recipient.recipient_key.exchange_derive_key(recipient.recipient_key.import_key(recipient.headers()['epk']))"], "R08.8", ec.methods["encrypt_agreed_upon_key"], None, "ECDH-ES Z",
              f"ECDH-ES shared secret: encrypt {ze} decrypt {zd}", "ECDH(ephemeral, recipient) / ECDH(recipient, imported epk)", construct="ECDH-ES shared secret")


def r08_9(ctx) -> None:
    """the ECDH shared secret Z handed to the KDF is the primitive's raw output: every exchange_derive_key returns
    <own private key>.exchange(...) itself - not a slice, a padded or otherwise re-sized copy (P-521: 66 octets, not 65)"""
    eng = ctx.eng
    P = eng.prog
    ck = P.cls("rfc7517.models:CurveKey")
    fs = [f for f in eng.prog.implementations(ck, "exchange_derive_key") if not f.is_abstract]
    ctx.count("R08.9", len(fs), 2, "exchange_derive_key implementations")
    for fn in fs:
        sn = fn.self_name
        rets = [r.value for r in fn_nodes(fn) if isinstance(r, ast.Return) and r.value is not None]
        ok = bool(rets)
        got = []
        for rv in rets:
            for t in resolve_all(eng, fn, rv):
                got.append(t)
                try:
                    e = ast.parse(t, mode="eval").body
                except SyntaxError:
                    ok = False
                    continue
                if not (isinstance(e, ast.Call) and isinstance(e.func, ast.Attribute) and e.func.attr == "exchange" and norm(e.func.value) == f"{sn}.private_key"):
                    ok = False
        ctx.check(ok, "R08.9", fn, fn.node, fn.short, f"exchange_derive_key does not return the raw output of the key-agreement primitive: {got[:2]}", f"return {sn}.private_key.exchange(...)",
                  construct=f"raw ECDH output in {fn.short}")


def run(ctx) -> None:
    from .c06 import r06_4 as _r06_4
    ctx.guard_as("R08.16", _r06_4)  # dir / key-wrap keys have exactly the size of the algorithm (a longer key is not cut down: a strict peer refuses it)
    from .common import forwarding_discipline
    ctx.guard(forwarding_discipline, "R08.12", ['recipient', 'enc', 'tag', 'cek', 'aad', 'iv', 'ek', 'value'], 51, "jwe")  # arguments are handed on under their own name (generic routing rule, rules/common.py)
    ctx.guard(r08_9)
    from .common import every_recipient_tried
    from .c04 import r04_12 as _r04_12
    ctx.guard_as("R08.19", _r04_12)  # "ECDH-1PU draft: the tag enters the KDF of the key-wrapping modes": whether the tag-aware derivation is used is decided by the recipient's own algorithm, not by a trait read from another recipient (seed C08-s: ECDH-ES+A128KW listed before ECDH-1PU+A128KW derived the 1PU KEK without the tag)
    ctx.guard(every_recipient_tried, "R08.18")  # a multi-recipient JWE of another implementation decrypts with the key of ANY of its recipients
    from .c20 import r20_1 as _r20_1
    from ..effects import Effects as _Fx
    from .common import in_family as _inf
    ctx.guard_as("R08.17", _r20_1, _Fx(ctx.eng.prog, ctx.eng.cg), {f for f in ctx.eng.prog.all_functions() if _inf(f, "jwe")})  # the segments that are emitted / decrypted are this message's own (no class-level containers)
    from .c04 import r04_4
    ctx.guard_as("R08.10", r04_4)
    from .c20 import r20_2
    from ..effects import Effects
    ctx.guard_as("R08.11", r20_2, Effects(ctx.eng.prog, ctx.eng.cg), "jwe")  # the per-algorithm parameters (name, hash, key size) are those of the model in use: models keep no state  # the JOSE header of a recipient is the union of protected, shared unprotected and per-recipient members
    from .c19 import r19_4_5
    ctx.guard_as("R08.13", r19_4_5)
    from .c17 import r17_1, r17_2_5
    ctx.guard_as("R08.14", r17_1)  # "raw-DEFLATE framing": one bounded inflate whose completion is tested before the data is used
    ctx.guard_as("R08.14", r17_2_5)  # "any spelling of the protected-header JSON": the header codec reads UTF-8 JSON, not an ASCII subset
    ctx.guard(r08_1)
    ctx.guard(r02_2_3)  # R08.2 consume side: reported under R02.2 / R02.3
    ctx.guard(r08_2_produce)
    ctx.guard(r08_3)
    ctx.guard(r08_4)
    ctx.guard(r08_5)
    ctx.guard(r17_3)  # R08.6
    ctx.guard(r04_3)  # R08.7
    from .c04 import r04_18
    ctx.guard_as("R08.15", r04_18)  # an empty ciphertext / encrypted key of a foreign token is read, not refused
    ctx.guard(r08_8)
    ctx.note("R08.2 (consume), R08.6 and R08.7 reuse the C02 / C17 / C04 rule implementations and keep their rule ids")
    ctx.note("undecided remainder: decryption of every joserfc token under an independent implementation and vice versa needs an oracle implementation")
    ctx.assume("RFC 7518 sections 4-5, draft-madden-jose-ecdh-1pu-04, draft-amringer-jose-chacha-02 as transcribed in jv/spec/tables.py")
