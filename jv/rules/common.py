"""helpers shared by the rule modules"""
from __future__ import annotations
import ast
from typing import Callable, Dict, Iterable, List, Optional, Sequence, Set, Tuple

from ..program import AnalysisError, ClassInfo, FunctionInfo, fn_nodes, norm
from ..callgraph import CallSite
from ..cfg import CFG, CNode, cfg_of
from ..flow import Leaf, SliceResult

JWS_CONSUME = [("jws", "deserialize_compact"), ("jws", "deserialize_json"),
               ("rfc7797", "deserialize_compact"), ("rfc7797", "deserialize_json")]
JWS_PRODUCE = [("jws", "serialize_compact"), ("jws", "serialize_json"),
               ("rfc7797", "serialize_compact"), ("rfc7797", "serialize_json")]
JWE_CONSUME = [("jwe", "decrypt_compact"), ("jwe", "decrypt_json")]
JWE_PRODUCE = [("jwe", "encrypt_compact"), ("jwe", "encrypt_json")]

ENCODERS = ("json_b64encode", "urlsafe_b64encode", "json.dumps", "base64.urlsafe_b64encode", "base64.b64encode",
            "int_to_base64")


def entries(eng, pairs) -> List[FunctionInfo]:
    return [eng.entry(m, n) for m, n in pairs]


_scope_cache: Dict[Tuple[int, int], List[FunctionInfo]] = {}


def scope_of(eng, entry: FunctionInfo) -> List[FunctionInfo]:
    k = (id(eng), id(entry))
    if k not in _scope_cache:
        _scope_cache[k] = eng.cg.reachable([entry])
    return _scope_cache[k]


def impls(eng, base_short: str, meth: str, include_abstract: bool = False) -> List[FunctionInfo]:
    return eng.prog.implementations(eng.prog.cls(base_short), meth, include_abstract)


def sites_calling(eng, targets: Iterable[FunctionInfo], within: Optional[Iterable[FunctionInfo]] = None,
                  require_all: bool = False) -> List[CallSite]:
    tset = set(targets)
    out = []
    fns = list(within) if within is not None else list(eng.prog.all_functions())
    for fn in fns:
        for s in eng.cg.calls_in(fn):
            if not s.callees:
                continue
            inter = [c for c in s.callees if c in tset]
            if not inter:
                continue
            if require_all and len(inter) != len(s.callees):
                continue
            out.append(s)
    return out


def is_const(node: Optional[ast.AST], value) -> bool:
    return isinstance(node, ast.Constant) and node.value is value


def const_value(node: Optional[ast.AST]):
    if isinstance(node, ast.Constant):
        return node.value
    return None


def stmt_node(eng, fn: FunctionInfo, node: ast.AST) -> CNode:
    cn = cfg_of(fn).node_of(node)
    if cn is None:
        raise AnalysisError(f"no CFG node for {norm(node)[:60]} in {fn.short}")
    return cn


def local_defs(eng, fn: FunctionInfo, name: str) -> List[ast.AST]:
    """right-hand sides assigned to a local name (plain assignments only)"""
    out = []
    for kind, node, extra in eng.flow._defs(fn).get(name, []):
        if kind == "assign" and not extra:
            out.append(node)
        else:
            out.append(None)
    return out


def resolves_to_call(eng, fn: FunctionInfo, e: ast.AST, pred: Callable[[CallSite], bool], depth: int = 0) -> Optional[CallSite]:
    """e is a call satisfying pred, or a local name whose every definition is such a call"""
    if isinstance(e, ast.Call):
        s = eng.cg.site_of.get(id(e))
        if s is not None and pred(s):
            return s
        return None
    if isinstance(e, ast.Name) and depth < 3:
        defs = local_defs(eng, fn, e.id)
        if not defs or any(d is None for d in defs) or e.id in fn.params:
            return None
        sites = [resolves_to_call(eng, fn, d, pred, depth + 1) for d in defs]
        if all(s is not None for s in sites):
            return sites[0]
    return None


def can_reach_exit(cfg: CFG, start_nodes: Iterable[CNode], blocked: Iterable[CNode] = ()) -> bool:
    for s in start_nodes:
        if cfg.exit in cfg.reachable(s, blocked):
            return True
    return False


def succ_by_label(cfg: CFG, n: CNode, label: str) -> List[CNode]:
    return [s for s, lab in cfg.succ[n] if lab == label]


def entry_param_leaves(res: SliceResult, entry: FunctionInfo) -> List[Leaf]:
    pref = entry.short + "."
    return [l for l in res.leaves if l.kind == "param" and l.name.startswith(pref)]


def foreign_leaves(res: SliceResult, entry: FunctionInfo, ignore_kinds=("const", "func", "class")) -> List[Leaf]:
    """leaves that are neither constants nor parameters of the entry"""
    pref = entry.short + "."
    out = []
    for l in res.leaves:
        if l.kind in ignore_kinds:
            continue
        if l.kind == "param" and l.name.startswith(pref):
            continue
        out.append(l)
    return out


def leaf_param_name(l: Leaf) -> str:
    return l.name.rsplit(".", 1)[-1]


def loop_nonempty_established(cfg: CFG, loop: CNode) -> bool:
    """S4 refinement: a dominating guard `if not E: raise/return ...` (or len(E) == 0 / < 1) on the loop's iterable"""
    st = loop.ast
    assert isinstance(st, (ast.For, ast.AsyncFor))
    it = st.iter
    if isinstance(it, ast.Call) and isinstance(it.func, ast.Name) and it.func.id in ("enumerate", "iter", "list", "reversed") and it.args:
        it = it.args[0]
    text = norm(it)
    for t in cfg.nodes:
        if t.kind != "test" or t.ast is None:
            continue
        a = t.ast
        falsy_label = None  # label of the edge taken when E is empty
        if norm(a) == text:
            falsy_label = "false"
        elif isinstance(a, ast.Compare) and len(a.ops) == 1 and isinstance(a.left, ast.Call) \
                and isinstance(a.left.func, ast.Name) and a.left.func.id == "len" and a.left.args \
                and norm(a.left.args[0]) == text and isinstance(a.comparators[0], ast.Constant):
            op, c = a.ops[0], a.comparators[0].value
            if (isinstance(op, ast.Eq) and c == 0) or (isinstance(op, ast.Lt) and c == 1) or (isinstance(op, ast.LtE) and c == 0):
                falsy_label = "true"
            elif (isinstance(op, ast.Gt) and c == 0) or (isinstance(op, ast.GtE) and c == 1) or (isinstance(op, ast.NotEq) and c == 0):
                falsy_label = "false"
        if falsy_label is None:
            continue
        if not cfg.dominates(t, loop):
            continue
        empties = succ_by_label(cfg, t, falsy_label)
        if all(loop not in cfg.reachable(s) for s in empties):
            return True
    return False


def enclosing_loops(prog, node: ast.AST) -> List[ast.AST]:
    out = []
    cur = prog.parent(node)
    while cur is not None and not isinstance(cur, (ast.FunctionDef, ast.AsyncFunctionDef, ast.Lambda, ast.Module)):
        if isinstance(cur, (ast.For, ast.AsyncFor, ast.While)):
            out.append(cur)
        cur = prog.parent(cur)
    return out


def body_contains(stmt: ast.AST, node: ast.AST) -> bool:
    for n in ast.walk(stmt):
        if n is node:
            return True
    return False


def names_in(e: ast.AST) -> Set[str]:
    return {n.id for n in ast.walk(e) if isinstance(n, ast.Name)}


def reaching_values(fn: FunctionInfo, name: str, at: ast.AST) -> Optional[List[ast.expr]]:
    """the right-hand sides of the plain assignments `name = v` that reach `at` (no other assignment of name in between); None when name is
    bound in a way this does not model (loop target, augmented assignment, unpacking) or `at` is not in the CFG"""
    cfg = cfg_of(fn)
    target = cfg.node_of(at)
    if target is None:
        return None
    defs = []
    for n in fn_nodes(fn):
        if isinstance(n, ast.Assign) and len(n.targets) == 1 and isinstance(n.targets[0], ast.Name) and n.targets[0].id == name:
            defs.append(n)
        elif isinstance(n, ast.AnnAssign) and isinstance(n.target, ast.Name) and n.target.id == name and n.value is not None:
            defs.append(n)
        elif isinstance(n, ast.Name) and n.id == name and isinstance(n.ctx, ast.Store):
            par = [d for d in defs if any(x is n for x in ast.walk(d))]
            if not par and not any(isinstance(p, (ast.Assign, ast.AnnAssign)) and any(x is n for x in ast.walk(p)) and
                                   ((isinstance(p, ast.Assign) and len(p.targets) == 1 and p.targets[0] is n) or (isinstance(p, ast.AnnAssign) and p.target is n))
                                   for p in fn_nodes(fn) if isinstance(p, (ast.Assign, ast.AnnAssign))):
                return None
    dn = [(d, cfg.node_of(d)) for d in defs]
    if any(c is None for _d, c in dn):
        return None
    out = []
    for d, c in dn:
        others = [c2 for _d2, c2 in dn if c2 is not c]
        succs = [s_ for s_, lab in cfg.succ[c] if lab != "exc"]
        if any(target is s_ or target in cfg.reachable(s_, blocked=others) for s_ in succs if s_ not in others or s_ is target):
            out.append(d.value)
    return out


def derives_from_param(eng, fn: FunctionInfo, e: ast.AST, pname: str) -> bool:
    """intra-procedural: does expression e (transitively through local assignments) mention parameter pname"""
    seen: Set[str] = set()
    stack = [e]
    while stack:
        x = stack.pop()
        for nm in names_in(x):
            if nm == pname:
                return True
            if nm in seen:
                continue
            seen.add(nm)
            for kind, node, extra in eng.flow._defs(fn).get(nm, []):
                if kind == "assign" and isinstance(node, ast.AST):
                    stack.append(node)
                elif kind == "mut-set":
                    stack.append(extra[0])
                elif kind == "mut-call":
                    stack.append(node)
    return False


def handler_catches(eng, fn: FunctionInfo, h: ast.ExceptHandler) -> List[str]:
    """canonical names of the exception classes a handler catches ('*' for bare except)"""
    if h.type is None:
        return ["*"]
    elts = h.type.elts if isinstance(h.type, ast.Tuple) else [h.type]
    out = []
    for e in elts:
        r = eng.prog.resolve_expr(fn.module, e, fn)
        from ..program import Ext, ClassInfo as CI
        if isinstance(r, Ext):
            out.append(r.name)
        elif isinstance(r, CI):
            out.append(r.short)
        elif isinstance(e, ast.Name):
            out.append("builtins." + e.id)
        else:
            out.append(norm(e))
    return out


def find_locals(eng, fn: FunctionInfo, pred: Callable[[str], bool]) -> List[str]:
    """names of the locals of fn with an assignment whose right-hand side (single-assignment locals inlined) satisfies pred;
    lets a rule speak about "the local that holds X" instead of hard-coding today's variable name"""
    from .c05 import _resolve_local
    out = []
    for name, defs in eng.flow._defs(fn).items():
        for d in defs:
            if d[0] == "assign" and isinstance(d[1], ast.AST) and not d[2]:
                try:
                    if pred(_resolve_local(eng, fn, d[1])):
                        out.append(name)
                        break
                except Exception:
                    continue
    return out


def find_local(eng, fn: FunctionInfo, pred: Callable[[str], bool], default: str = "\0none") -> str:
    r = find_locals(eng, fn, pred)
    return r[0] if r else default


def resolve_all(eng, fn: FunctionInfo, e: ast.AST, limit: int = 24, depth: int = 5) -> List[str]:
    """all texts of e with every local of fn replaced by (each of) its assigned right-hand sides, recursively.
    Locals with several assignments give several texts (cartesian, bounded by `limit`); locals bound by loops / with / except /
    imports and parameters stay as names.  Rules compare these texts instead of texts that contain today's variable names."""
    import copy
    import itertools
    defs_of = eng.flow._defs(fn)

    def alts(name: str, d: int, at: Optional[ast.AST] = None) -> Optional[List[ast.AST]]:
        if name in fn.params or d <= 0:
            return None
        ds = defs_of.get(name)
        if not ds:
            return None
        # flow-sensitive at the expression asked about: of several plain assignments only those that reach it count
        reach = eng.flow._reaching(fn, name, at, ds) if at is not None else None
        out = []
        for kind, node, extra in ds:
            if kind == "assign" and isinstance(node, ast.expr) and not extra:
                if reach is not None and id(node) in eng.flow._rhs_stmt and id(node) not in reach[0]:
                    continue
                out.append(node)
            elif kind in ("mut-call", "mut-set"):
                continue
            else:
                return None  # loop target, with-as, except-as, tuple unpacking ... keep the name
        return out or None

    def expand(node: ast.AST, d: int, stack: tuple) -> List[ast.AST]:
        names = []
        for x in ast.walk(node):
            if isinstance(x, ast.Name) and isinstance(x.ctx, ast.Load) and x.id not in names and x.id not in stack:
                if alts(x.id, d, node if not stack else None) is not None:
                    names.append(x.id)
        if not names:
            return [node]
        choices = []
        for nm in names:
            sub = []
            for a in alts(nm, d, node if not stack else None) or []:
                sub.extend(expand(a, d - 1, stack + (nm,)))
            choices.append(sub[:limit])
        res = []
        for combo in itertools.islice(itertools.product(*choices), limit):
            m = dict(zip(names, combo))

            class Sub(ast.NodeTransformer):
                def visit_Name(self, n: ast.Name):
                    if isinstance(n.ctx, ast.Load) and n.id in m:
                        return copy.deepcopy(m[n.id])
                    return n
            res.append(Sub().visit(copy.deepcopy(node)))
        return res
    texts = []
    for t in expand(e, depth, ()):
        x = norm(t)
        if x not in texts:
            texts.append(x)
    return sorted(texts)


def resolve_one(eng, fn: FunctionInfo, e: ast.AST) -> str:
    r = resolve_all(eng, fn, e)
    return r[0] if len(r) == 1 else " | ".join(r)


def misguarded_member_stores(eng, fn: FunctionInfo) -> List[Tuple[ast.AST, str]]:
    """stores `d["member"] = value` whose controlling test is the *absence* of the value that is stored (writer emits an optional
    member exactly when it has nothing to emit, and drops it when it has).  Returns (store node, reason)."""
    from ..cfg import cfg_of
    out = []
    cfg = cfg_of(fn)
    for n in cfg.nodes:
        st = n.ast
        if n.kind != "stmt" or not isinstance(st, ast.Assign) or len(st.targets) != 1 or not isinstance(st.targets[0], ast.Subscript):
            continue
        key = const_value(st.targets[0].slice)
        if not isinstance(key, str):
            continue
        vtexts = resolve_all(eng, fn, st.value) + [norm(st.value)]
        for t in cfg.nodes:
            if t.kind != "test" or t.ast is None:
                continue
            # does t control the store, and with which outcome?
            r_true = n in cfg.reachable(cfg.entry, edge_filter=lambda a, b, lab, _t=t: not (a is _t and lab == "false"))
            r_false = n in cfg.reachable(cfg.entry, edge_filter=lambda a, b, lab, _t=t: not (a is _t and lab == "true"))
            if r_true == r_false:
                continue
            e = t.ast
            pos = True
            subject = None
            if isinstance(e, ast.Compare) and len(e.ops) == 1:
                if isinstance(e.ops[0], (ast.IsNot, ast.Is)) and is_const(e.comparators[0], None):
                    subject = norm(e.left)
                    pos = isinstance(e.ops[0], ast.IsNot)
                elif isinstance(e.ops[0], (ast.In, ast.NotIn)):
                    subject = f"{norm(e.comparators[0])}[{norm(e.left)}]"
                    pos = isinstance(e.ops[0], ast.In)
            elif isinstance(e, (ast.Name, ast.Attribute, ast.Subscript)):
                subject = norm(e)
            if subject is None:
                continue
            subs = resolve_all(eng, fn, e.left if isinstance(e, ast.Compare) and not isinstance(e.ops[0], (ast.In, ast.NotIn)) else e) if not isinstance(e, ast.Compare) or \
                not isinstance(e.ops[0], (ast.In, ast.NotIn)) else []
            cands = {subject} | {x for x in subs if len(x) > 2}
            if not any(c in v for c in cands for v in vtexts):
                continue
            needed_outcome_true = r_true and not r_false
            if needed_outcome_true != pos:
                out.append((st, f"member {key!r} is written when `{subject}` is absent / empty and dropped when it is present"))
    return out


def shape(eng, fn: FunctionInfo, e: ast.AST) -> str:
    """text of e with the locals of fn (not parameters, not module-level names) replaced by `$`: identifies a construct without
    depending on today's variable names (used for whitelist / known-finding keys)"""
    import copy
    loc = eng.cg.local_names(fn) - set(fn.params)

    class Sub(ast.NodeTransformer):
        def visit_Name(self, n: ast.Name):
            if n.id in loc:
                return ast.copy_location(ast.Name(id="$", ctx=n.ctx), n)
            return n
    return norm(Sub().visit(copy.deepcopy(e)))


def as_less(e: ast.AST) -> Optional[Tuple[ast.AST, str, ast.AST]]:
    """an ordering comparison oriented as (smaller side, '<' | '<=', larger side): `a > b` and `b < a` are one construct"""
    if not (isinstance(e, ast.Compare) and len(e.ops) == 1):
        return None
    l, r, op = e.left, e.comparators[0], e.ops[0]
    if isinstance(op, ast.Lt):
        return (l, "<", r)
    if isinstance(op, ast.LtE):
        return (l, "<=", r)
    if isinstance(op, ast.Gt):
        return (r, "<", l)
    if isinstance(op, ast.GtE):
        return (r, "<=", l)
    return None


_MIRROR = {ast.Lt: ast.Gt, ast.LtE: ast.GtE, ast.Gt: ast.Lt, ast.GtE: ast.LtE, ast.Eq: ast.Eq, ast.NotEq: ast.NotEq}


def len_vs_const(e: ast.AST, is_len: Callable[[str], bool]):
    """`len(x) OP c` or the mirrored `c OP' len(x)` -> (OP instance as if the length were on the left, c); else None"""
    if not (isinstance(e, ast.Compare) and len(e.ops) == 1 and type(e.ops[0]) in _MIRROR):
        return None
    l, r = e.left, e.comparators[0]
    if is_len(norm(l)) and isinstance(r, ast.Constant):
        return e.ops[0], r.value
    if is_len(norm(r)) and isinstance(l, ast.Constant):
        return _MIRROR[type(e.ops[0])](), l.value
    return None


def isinstance_excludes(eng, fn: FunctionInfo, node: ast.AST, carriers) -> Optional[str]:
    """some `isinstance(x, C)` test controls `node` (node is unreachable unless the test is true) and C's class family does not
    contain every class in `carriers` -> text naming the test and the excluded classes; else None"""
    from ..cfg import cfg_of
    from ..program import ClassInfo as _CI
    cfg = cfg_of(fn)
    xn = cfg.node_of(node)
    if xn is None:
        return None
    for t in cfg.nodes:
        if t.kind != "test" or not (isinstance(t.ast, ast.Call) and isinstance(t.ast.func, ast.Name) and t.ast.func.id == "isinstance" and len(t.ast.args) == 2):
            continue
        if xn in cfg.reachable(cfg.entry, edge_filter=lambda a, b, lab, _t=t: not (a is _t and lab == "true")):
            continue
        tys = t.ast.args[1].elts if isinstance(t.ast.args[1], ast.Tuple) else [t.ast.args[1]]
        fam = set()
        for ty in tys:
            r = eng.cg.resolve_name(fn, ty.id) if isinstance(ty, ast.Name) else None
            if isinstance(r, _CI):
                fam.add(r)
                fam.update(r.all_subclasses())
        if not fam:
            continue
        if not any(c in fam for c in carriers):
            continue  # a test about another class family (e.g. CompactEncryption)
        missing = [c.name for c in carriers if c not in fam]
        if missing:
            return f"`{norm(t.ast)}` excludes {missing}"
    return None


# call sites where a same-named parameter is deliberately not handed on (confirmed by reading; one line of reason each)
FORWARDING_EXCEPTIONS = {
    ("rfc7797.compact:serialize_compact", "jws:serialize_compact", "algorithms"): "passes the registry it built from `algorithms` instead (checked by C05 R05.13)",
    ("rfc7797.compact:deserialize_compact", "jws:deserialize_compact", "algorithms"): "passes the registry it built from `algorithms` instead (C05 R05.13)",
    ("rfc7797.json:serialize_json", "jws:serialize_json", "algorithms"): "passes the registry it built from `algorithms` instead (C05 R05.13)",
    ("rfc7797.json:deserialize_json", "jws:deserialize_json", "algorithms"): "passes the registry it built from `algorithms` instead (C05 R05.13)",
    ("_keys:KeySet.as_dict", "rfc7517.models:BaseKey.as_dict", "params"): "passes **params (keyword expansion)",
    ("rfc7519.registry:JWTClaimsRegistry.__init__", "rfc7519.registry:ClaimsRegistry.__init__", "kwargs"): "passes **kwargs (keyword expansion)",
    ("rfc7516.models:CompactEncryption.attach_recipient", "rfc7516.models:Recipient.__init__", "header"): "compact JWE has no per-recipient header: None by construction",
    ("jwe:encrypt_json", "jwk:guess_key", "obj"): "the object whose headers name the key is the recipient, not the message",
    ("rfc7797.compact:_extract_compact", "rfc7515.model:CompactSignature.__init__", "payload"): "attached form: the payload is the token's own segment (the detached branch passes the parameter)",
    ("rfc7797.compact:deserialize_compact", "rfc7515.model:CompactSignature.__init__", "payload"): "the same site when the extractor is dissolved into the reader: attached form, the payload is the token's own segment",
    ("rfc7517.pem:CryptographyBinding.as_bytes", "rfc7517.pem:dump_pem_key", "private"): "the 'export what the key holds' branch passes key.is_private (decided by C12 R12.7)",
}


# parameters that are re-bound inside the function on the unchanged tree (every one confirmed by reading; what is assigned is decided by the rule named)
REBINDING_EXCEPTIONS = {
    ("rfc7517.pem:CryptographyBinding.as_bytes", "private"): "the (native key, flag) pair handed to dump_pem_key is decided per path, re-bindings substituted (C12 R12.7)",
    ("_keys:JWKRegistry.import_key", "key_type"): "defaults to the JWK's own kty when the caller named none (C11 R11.9 decides the dispatch)",
    ("jws:serialize_compact", "registry"): "None -> registry built from `algorithms` (C05 R05.13)",
    ("jws:validate_compact", "registry"): "None -> registry built from `algorithms` (C05 R05.13)",
    ("jws:serialize_json", "registry"): "None -> registry built from `algorithms` (C05 R05.13)",
    ("jws:deserialize_json", "registry"): "None -> registry built from `algorithms` (C05 R05.13)",
    ("jwe:encrypt_compact", "registry"): "None -> registry built from `algorithms` / the default registry (C05 R05.13)",
    ("jwe:decrypt_compact", "registry"): "None -> registry built from `algorithms` / the default registry (C05 R05.13)",
    ("jwe:encrypt_json", "registry"): "None -> registry built from `algorithms` / the default registry (C05 R05.13)",
    ("jwe:decrypt_json", "registry"): "None -> registry built from `algorithms` / the default registry (C05 R05.13)",
    ("rfc7797.compact:serialize_compact", "registry"): "None -> RFC 7797 registry built from `algorithms` (C05 R05.13)",
    ("rfc7797.compact:deserialize_compact", "registry"): "None -> RFC 7797 registry built from `algorithms` (C05 R05.13)",
    ("rfc7797.json:serialize_json", "registry"): "None -> RFC 7797 registry built from `algorithms` (C05 R05.13)",
    ("rfc7797.json:deserialize_json", "registry"): "None -> RFC 7797 registry built from `algorithms` (C05 R05.13)",
    ("util:urlsafe_b64decode", "s"): "restores the stripped '=' padding (C19 R19.2 decides the arithmetic)",
}
_PURE_CONVERSIONS = {"to_bytes", "to_str"}


def _rebinding_ok(p: str, node: ast.AST) -> bool:
    """`p = to_bytes(p, ...)` / `p = to_str(p, ...)`: a change of representation, not of value"""
    if not isinstance(node, ast.Assign) or len(node.targets) != 1 or not isinstance(node.targets[0], ast.Name):
        return False
    v = node.value
    return (isinstance(v, ast.Call) and isinstance(v.func, ast.Name) and v.func.id in _PURE_CONVERSIONS and v.args
            and isinstance(v.args[0], ast.Name) and v.args[0].id == p)


def rebinding_discipline(ctx, rule: str, fn: FunctionInfo, mine: Set[str]) -> int:
    """a parameter the property speaks about keeps the value the caller gave: inside the function it is re-bound only by a pure change of
    representation (to_bytes / to_str of itself) or at a site of the frozen table"""
    n = 0
    for node in fn_nodes(fn):
        if isinstance(node, ast.Assign):
            tgts = [x for t_ in node.targets for x in ast.walk(t_)]
        elif isinstance(node, (ast.AnnAssign, ast.AugAssign)):
            tgts = list(ast.walk(node.target)) if getattr(node, "value", None) is not None else []
        elif isinstance(node, (ast.For, ast.comprehension)):
            tgts = list(ast.walk(node.target))
        elif isinstance(node, ast.NamedExpr):
            tgts = [node.target]
        elif isinstance(node, (ast.With,)):
            tgts = [x for it in node.items if it.optional_vars is not None for x in ast.walk(it.optional_vars)]
        else:
            continue
        for x in tgts:
            if isinstance(x, ast.Name) and isinstance(x.ctx, ast.Store) and x.id in mine:
                p = x.id
                n += 1
                if (fn.short, p) in REBINDING_EXCEPTIONS:
                    ctx.ok(rule, f"{fn.short} :: re-binding of {p}", "exception: " + REBINDING_EXCEPTIONS[(fn.short, p)])
                    continue
                ctx.check(_rebinding_ok(p, node), rule, fn, node, f"{fn.short} :: re-binding of {p}", f"{fn.short} replaces the value of its parameter `{p}` "
                          f"(`{norm(node)[:70]}`): what the caller asked for is no longer what is used", f"`{p}` used as given (or to_bytes / to_str of it)",
                          construct=f"re-binding of parameter {p} in {fn.short}")
    return n


_JWE_ONLY = ("jwe", "rfc7516", "rfc7518.jwe_algs", "rfc7518.jwe_encs", "rfc7518.jwe_zips", "rfc7518.derive_key", "drafts.jwe_chacha20", "drafts.jwe_ecdh_1pu")
_JWS_ONLY = ("jws", "rfc7515", "rfc7797", "rfc7518.jws_algs", "rfc8037.jws_eddsa", "rfc8812")


def in_family(fn: FunctionInfo, family: Optional[str]) -> bool:
    """a JWS property does not speak about code that only JWE operations run, and vice versa (shared code - keys, registries, util, jwt - belongs to both)"""
    if family is None:
        return True
    other = _JWE_ONLY if family == "jws" else _JWS_ONLY
    ms = fn.module.short
    return not any(ms == o or ms.startswith(o + ".") for o in other)


def forwarding_discipline(ctx, rule: str, params: Iterable[str], minimum: int, family: Optional[str] = None) -> None:
    """wherever a function that has a parameter named p calls a function that also has a parameter named p, it hands on p itself or a
    value derived from p (to_bytes(p), p.attr, p(...)); anything else - another variable, a constant, an omitted argument - is a
    mis-routed or dropped argument unless the site is in the frozen exception table.  (On the unchanged tree 400+ sites follow
    this, about thirty in derived form; inferred statistically, every exception confirmed by reading.)"""
    eng = ctx.eng
    want = set(params)
    n = 0
    for fn in eng.prog.all_functions():
        if fn.name == "<module>" or not in_family(fn, family):
            continue
        mine = want & set(fn.params)
        if not mine:
            continue
        rebinding_discipline(ctx, rule, fn, mine - {"self", "cls"})
        for s in eng.cg.calls_in(fn):
            if not isinstance(s.node, ast.Call):
                continue
            for c in s.callees:
                if c is fn:
                    continue
                for p in mine & set(c.params):
                    if p in ("self", "cls"):
                        continue
                    n += 1
                    a = eng.cg.arg_for_param(s, c, p)
                    ok = a is not None and any(isinstance(x, ast.Name) and x.id == p for x in ast.walk(a))
                    if not ok and isinstance(a, ast.Name):
                        # a local that was computed from p (`_value = to_bytes(value)`)
                        ok = any(f"{p}" in t_ and (f"({p}" in t_ or f"{p}." in t_ or f"{p})" in t_ or t_ == p) for t_ in resolve_all(eng, fn, a))
                    if not ok and (fn.short, c.short, p) in FORWARDING_EXCEPTIONS:
                        ctx.ok(rule, f"{fn.short} -> {c.short} :: {p}", "exception: " + FORWARDING_EXCEPTIONS[(fn.short, c.short, p)])
                        continue
                    ctx.check(ok, rule, fn, s.node, f"{fn.short} -> {c.short} :: {p}", f"{fn.short} calls {c.short} without handing on its `{p}` "
                              f"({'argument omitted: the callee default applies' if a is None else 'passes `' + norm(a)[:40] + '`'})", f"{p}={p} (or a value derived from it)",
                              construct=f"forwarding of {p}: {fn.short} -> {c.short}")
    # attribute routing: a callee parameter p (one the property speaks about) that is given `<x>.q`, where q is the name of ANOTHER parameter of
    # the same callee, is a swapped setting (`verify_all_recipients=registry.strict_check_header`, or the same by position)
    for fn in eng.prog.all_functions():
        if not in_family(fn, family):
            continue
        for s in eng.cg.calls_in(fn):
            if not isinstance(s.node, ast.Call):
                continue
            for c in s.callees:
                cps = set(c.params) - {"self", "cls"}
                for p in cps:
                    a = eng.cg.arg_for_param(s, c, p)
                    # crossed names: the callee's parameter p is given a variable that carries the name of ANOTHER parameter q of the same callee
                    # (`Encryption(protected, None, protected, aad)` for `(protected, plaintext, unprotected, aad)`); no site of the reference tree does that
                    if isinstance(a, ast.Name) and a.id != p and a.id in cps and (p in want or a.id in want):
                        ctx.fail(rule, fn, s.node, f"{fn.short} gives {c.short} its `{p}` from the variable `{a.id}`, which carries the name of the callee's parameter `{a.id}`: "
                                 f"two arguments are crossed or one is passed twice", construct=f"{p} of {c.short} taken from variable {a.id} in {fn.short}")
                for p in want & cps:
                    a = eng.cg.arg_for_param(s, c, p)
                    if isinstance(a, ast.Attribute) and a.attr in cps:
                        if a.attr == p:
                            ctx.ok(rule, f"{fn.short} -> {c.short} :: {p}=<…>.{p}", "attribute of the same name")
                            continue
                        ctx.fail(rule, fn, s.node, f"{fn.short} gives {c.short} its `{p}` from `{norm(a)}`, the attribute that belongs to the callee's parameter `{a.attr}`: two settings are crossed",
                                 construct=f"{p} of {c.short} taken from .{a.attr} in {fn.short}")
    ctx.count(rule, n, minimum, f"same-name forwarding sites for {sorted(want)}")



def octet_length_lint(ctx, rule: str, family: Optional[str] = None) -> None:
    """bits -> octets of a quantity that need not be a multiple of 8 (the size of an RSA modulus, of a curve, a bit_length()) rounds UP:
    `(bits + 7) // 8` (RFC 8017 k, RFC 7518 coordinate size, RFC 7518 6.3 integers).  `bits // 8` drops an octet for P-521 (521 bits, 66 octets)
    and for RSA moduli such as 2047 bits.  Algorithm parameters (AES key sizes, CEK / IV sizes, hash lengths) are multiples of 8 and not concerned:
    the operand is recognised by what it is (type of the receiver of `.key_size`, the curve_key_size property, bit_length())."""
    eng = ctx.eng
    n = 0
    for fn in eng.prog.all_functions():
        if not in_family(fn, family):
            continue
        for node in fn_nodes(fn):
            if not (isinstance(node, ast.BinOp) and ((isinstance(node.op, (ast.FloorDiv, ast.Div)) and const_value(node.right) == 8) or
                                                     (isinstance(node.op, ast.RShift) and const_value(node.right) == 3))):
                continue
            lefts = [node.left]
            bits = False
            for x in ast.walk(node.left):
                if isinstance(x, ast.Attribute) and x.attr == "curve_key_size":
                    bits = True
                elif isinstance(x, ast.Attribute) and x.attr == "key_size":
                    td = eng.types.of(fn.module, x.value) if eng.types is not None else None
                    if td is not None and any(c.startswith("cryptography.") for c in td.classes):
                        bits = True
                elif isinstance(x, ast.Call) and isinstance(x.func, ast.Attribute) and x.func.attr == "bit_length":
                    bits = True
            if not bits:
                # through a local: `length = op_key.curve.key_size; length = (length + 7) // 8`
                for t_ in resolve_all(eng, fn, node.left):
                    if ".curve.key_size" in t_ or "curve_key_size" in t_ or "bit_length()" in t_:
                        bits = True
            if not bits:
                continue
            n += 1
            up = isinstance(node.left, ast.BinOp) and isinstance(node.left.op, ast.Add) and (const_value(node.left.right) == 7 or const_value(node.left.left) == 7)
            neg = isinstance(node.left, ast.UnaryOp) and isinstance(node.left.op, ast.USub)  # -(-x // 8) is written as (-x) // 8 under a minus
            ctx.check(up or neg, rule, fn, node, f"{fn.short} :: {norm(node)[:50]}", f"`{norm(node)[:60]}` rounds a bit size that need not be a multiple of 8 DOWN to octets: "
                      "one octet is lost for P-521 and for RSA moduli of 2047, 1025 ... bits", "(bits + 7) // 8", construct=f"octet length rounded down in {fn.short}")
    ctx.count(rule, n, 3, "bits -> octets conversions of curve / modulus / integer sizes")


def built_lists(fn: FunctionInfo) -> List[Dict[str, object]]:
    """lists a function builds element by element, whatever the spelling: `T = [E for v in IT if c]` and `T = []; for v in IT: [if c:] T.append(E)`.
    Each entry: {"name": T, "elt": E, "iter": IT, "var": text of v, "ifs": [c...], "node": the comprehension / loop}.  A loop only counts when every
    iteration that passes its (plain `if` without else) conditions appends exactly once and nothing else in the function appends to / rebinds T."""
    out: List[Dict[str, object]] = []
    for n in fn_nodes(fn):
        if isinstance(n, ast.Assign) and len(n.targets) == 1 and isinstance(n.targets[0], ast.Name) and isinstance(n.value, ast.ListComp) and len(n.value.generators) == 1:
            g = n.value.generators[0]
            out.append({"name": n.targets[0].id, "elt": n.value.elt, "iter": g.iter, "var": norm(g.target), "ifs": list(g.ifs), "node": n.value})
        elif isinstance(n, ast.For) and not n.orelse:
            body = list(n.body)
            ifs = []
            while len(body) == 1 and isinstance(body[0], ast.If) and not body[0].orelse:
                ifs.append(body[0].test)
                body = list(body[0].body)
            if len(body) == 1 and isinstance(body[0], ast.Expr) and isinstance(body[0].value, ast.Call) and isinstance(body[0].value.func, ast.Attribute) \
                    and body[0].value.func.attr == "append" and isinstance(body[0].value.func.value, ast.Name) and len(body[0].value.args) == 1:
                nm = body[0].value.func.value.id
                inits = [a for a in fn_nodes(fn) if isinstance(a, ast.Assign) and any(isinstance(t_, ast.Name) and t_.id == nm for t_ in a.targets)]
                others = [c for c in fn_nodes(fn) if isinstance(c, ast.Call) and isinstance(c.func, ast.Attribute) and isinstance(c.func.value, ast.Name) and c.func.value.id == nm
                          and c.func.attr in ("append", "extend", "insert", "pop", "remove", "clear") and c is not body[0].value]
                if len(inits) == 1 and isinstance(inits[0].value, ast.List) and not inits[0].value.elts and not others:
                    out.append({"name": nm, "elt": body[0].value.args[0], "iter": n.iter, "var": norm(n.target), "ifs": ifs, "node": n})
    return out


def member_crossing(ctx, rule: str, family: Optional[str], shared: bool = False) -> None:
    """a function that writes several named members (`{"payload": ..., "signature": ...}`, `data["unprotected"] = ...`) fills each from the
    value of that name: a member m whose value mentions the name of ANOTHER member written by the same function, and not its own, is a
    crossed pair (`data["unprotected"] = obj.protected`).  No function of the reference tree does that (158 stores).  `family` selects
    the JWS-only / JWE-only functions, `shared` the functions that belong to neither."""
    eng = ctx.eng

    def idents(e: ast.AST) -> Set[str]:
        out: Set[str] = set()
        for x in ast.walk(e):
            if isinstance(x, ast.Name):
                out.add(x.id)
            elif isinstance(x, ast.Attribute):
                out.add(x.attr)
            elif isinstance(x, ast.Constant) and isinstance(x.value, str):
                out.add(x.value)
        return out | {t_ for i in out for t_ in i.split("_")}
    n = 0
    for fn in eng.prog.all_functions():
        if fn.name == "<module>":
            continue
        only_jws, only_jwe = not in_family(fn, "jwe"), not in_family(fn, "jws")
        if shared:
            if only_jws or only_jwe:
                continue
        elif not ((family == "jws" and only_jws) or (family == "jwe" and only_jwe)):
            continue
        stores = []
        for x in fn_nodes(fn):
            if isinstance(x, ast.Dict):
                for k, v in zip(x.keys, x.values):
                    if k is not None and isinstance(k, ast.Constant) and isinstance(k.value, str):
                        stores.append((k.value, v, x))
            if isinstance(x, ast.Assign) and len(x.targets) == 1 and isinstance(x.targets[0], ast.Subscript) and isinstance(x.targets[0].slice, ast.Constant) \
                    and isinstance(x.targets[0].slice.value, str):
                stores.append((x.targets[0].slice.value, x.value, x))
        keys = {m for m, _, _ in stores}
        for m, v, x in stores:
            n += 1
            ids = set()
            for t_ in [v] + [ast.parse(t, mode="eval").body for t in resolve_all(eng, fn, v) if t and len(t) < 400]:
                ids |= idents(t_)
            others = sorted(q for q in keys if q != m and q in ids)
            if others and m not in ids:
                ctx.fail(rule, fn, x, f"{fn.short} fills the member \"{m}\" from `{norm(v)[:50]}`, which is the value of its member \"{others[0]}\": two members are crossed",
                         construct=f"member {m} filled from {others[0]} in {fn.short}")
            # the same for the test that decides whether an optional member is written
            if isinstance(x, ast.Assign) and len(keys) > 1:
                from ..cfg import cfg_of
                cfg = cfg_of(fn)
                sn = cfg.node_of(x)
                for t in cfg.nodes if sn is not None else []:
                    if t.kind != "test" or t.ast is None:
                        continue
                    r_true = sn in cfg.reachable(cfg.entry, edge_filter=lambda a, b, lab, _t=t: not (a is _t and lab == "false"))
                    r_false = sn in cfg.reachable(cfg.entry, edge_filter=lambda a, b, lab, _t=t: not (a is _t and lab == "true"))
                    if r_true == r_false:
                        continue
                    tid = idents(t.ast)
                    oth = sorted(q for q in keys if q != m and q in tid)
                    if oth and m not in tid:
                        ctx.fail(rule, fn, x, f"{fn.short} writes the member \"{m}\" depending on `{norm(t.ast)[:50]}`, which speaks about its member \"{oth[0]}\": the guards of two members are crossed",
                                 construct=f"member {m} guarded by {oth[0]} in {fn.short}")
    ctx.ok(rule, "named members filled from the value of the same name", f"{n} constant-key stores in functions")


def inconclusive_on_error(fn):
    """a folded decision that trips over something unforeseen (an Unknown where a value was expected, ...) is no decision: None, and the shape rule decides"""
    import functools

    @functools.wraps(fn)
    def w(*a, **k):
        try:
            return fn(*a, **k)
        except AnalysisError:
            raise
        except Exception:
            try:
                eng = getattr(a[0], "eng", a[0])
                eng.folder.intercepts = {}
                eng.folder.one_sided()
            except Exception:
                pass
            return None
    return w


VALIDATOR_PROBES = ["", "a", "http://x", "https://x", "ftp://x", "httpx", "http://", "https://", "http://a", "https://a.example/b?c", "HTTP://x", "xhttp://x", " http://x", "http:/x", 0, 1, -1, True, False, None, 1.5, [], ["a"], ["a", "b"], ["a", 1], [1], [["a"]], [None],
                    ("a",), {}, {"a": 1}, b"a"]

VALIDATOR_SPEC = {
    "is_str": lambda v: isinstance(v, str),
    "is_int": lambda v: isinstance(v, int),
    "is_bool": lambda v: isinstance(v, bool),
    "is_jwk": lambda v: isinstance(v, dict),
    "is_list_str": lambda v: isinstance(v, list) and all(isinstance(x, str) for x in v),
    "is_url": lambda v: isinstance(v, str) and v.startswith(("http://", "https://")),
}


def _validator_probes(eng) -> List[object]:
    """the JSON-shaped probes plus one object that is none of the JSON types but quacks like a mapping (a key object: it has keys() and [])"""
    from ..fold import Inst
    return VALIDATOR_PROBES + [Inst(eng.prog.cls("rfc7518.oct_key:OctKey"), {})]


@inconclusive_on_error
def validator_verdicts(eng, fn: FunctionInfo) -> Optional[Dict[int, str]]:
    """Fold a one-argument value validator on the probe battery: index of the probe -> "ok" | name of the exception class it raises.
    None when some probe does not fold or a test of the validator was decided the same way on every probe (11.11: a sample, not a decision)."""
    import copy as _copy
    from ..fold import FuncVal, FoldRaise, is_unknown
    F = eng.folder
    out: Dict[int, str] = {}
    F.start_trace()
    try:
        for i, v in enumerate(_validator_probes(eng)):
            try:
                r = F.call(FuncVal(fn, None, None), [_copy.deepcopy(v) if not hasattr(v, 'cls') else v], {})
            except FoldRaise as e:
                out[i] = getattr(e, "name", "") or "?"
                continue
            except AnalysisError:
                return None
            if is_unknown(r):
                return None
            out[i] = "ok"
    finally:
        sided = F.one_sided()
    return None if sided else out


def validator_accepts_exactly(eng, fn: FunctionInfo, spec_name: str) -> Optional[List[str]]:
    """problems ([] = the validator accepts exactly the values of `spec_name` and refuses all others with ValueError); None = not decided by folding"""
    vd = validator_verdicts(eng, fn)
    if vd is None:
        return None
    want = VALIDATOR_SPEC[spec_name]
    bad = []
    for i, v in enumerate(_validator_probes(eng)):
        if want(v) and vd[i] != "ok":
            bad.append(f"refuses {v!r} ({vd[i]})")
        elif not want(v) and vd[i] == "ok":
            bad.append(f"accepts {v!r}")
        elif not want(v) and vd[i] != "ValueError":
            bad.append(f"refuses {v!r} with {vd[i]}, not ValueError")
    return bad


@inconclusive_on_error
def dump_pem_verdicts(eng) -> Optional[List[Tuple[str, str]]]:
    """Fold rfc7517.pem.dump_pem_key on a grid of (encoding, private, password) with the native key symbolic: the call it makes on the key must
    be  private_bytes(encoding=E, format=PKCS8, encryption_algorithm=NoEncryption() | BestAvailableEncryption(<octets of the password>))  when
    `private` is truthy and  public_bytes(encoding=E, format=SubjectPublicKeyInfo)  otherwise, with E = Encoding.PEM for None / "PEM",
    Encoding.DER for "DER", and ValueError for every other encoding value.  Returns [(clause, problem)] ("dispatch" = the encoding choice,
    "branch" = private / public serialisation); None when it does not fold or a test was decided one way only (DESIGN 11.11)."""
    import re
    from ..fold import FuncVal, ExtVal, FoldRaise, is_unknown
    F = eng.folder
    fn = eng.prog.func("rfc7517.pem:dump_pem_key")
    if len(fn.pos_params) < 4:
        return None
    problems: List[Tuple[str, str]] = []
    F.start_trace()
    try:
        for enc in (None, "PEM", "DER", "pem", "", "PEMX", "DE", 1):
            for priv in (True, False, None, 1, 0):
                for pw in (None, "pw", b"pw", ""):
                    try:
                        r = F.call(FuncVal(fn, None, None), [ExtVal("KEY"), enc, priv, pw], {})
                        if is_unknown(r):
                            return None
                        got = repr(r).replace("ext:", "").replace("cryptography.hazmat.primitives.serialization.", "")
                        m = re.fullmatch(r"typing\.cast\(.*?, (KEY\..*)\)", got)
                        got = m.group(1) if m else got
                    except FoldRaise as ex:
                        got = "raise " + (getattr(ex, "name", "") or "?")
                    E = {None: "Encoding.PEM", "PEM": "Encoding.PEM", "DER": "Encoding.DER"}.get(enc) if not isinstance(enc, int) or enc is None else None
                    where = f"encoding={enc!r}, private={priv!r}, password={pw!r}"
                    if E is None:
                        if got != "raise ValueError":
                            problems.append(("dispatch", f"an unknown encoding is not refused with ValueError ({where}: {got[:80]})"))
                        continue
                    if got.startswith("raise"):
                        problems.append(("dispatch", f"a documented encoding value is refused ({where}: {got})"))
                        continue
                    if priv:
                        pwb = pw.encode() if isinstance(pw, str) else pw
                        encn = "NoEncryption()" if pw is None else f"BestAvailableEncryption({pwb!r})"
                        want = f"KEY.private_bytes(encoding={E}, encryption_algorithm={encn}, format=PrivateFormat.PKCS8)"
                    else:
                        want = f"KEY.public_bytes(encoding={E}, format=PublicFormat.SubjectPublicKeyInfo)"
                    if got != want:
                        clause = "dispatch" if got.replace("Encoding.PEM", "E").replace("Encoding.DER", "E") == want.replace("Encoding.PEM", "E").replace("Encoding.DER", "E") else "branch"
                        problems.append((clause, f"{where}: serialises with `{got[:140]}`, expected `{want}`"))
    except AnalysisError:
        return None
    finally:
        sided = F.one_sided(ignore=("util:to_bytes",))  # the codec is C19's business
    return None if sided else problems


@inconclusive_on_error
def basekey_accessor_verdicts(eng) -> Optional[List[Tuple[str, str]]]:
    """Fold the small accessors of BaseKey on probe JWK views (members absent, present, present-but-empty):
      kid / alg   return the member as it is ("" stays "", absent is None)                                         -> clause "kid"
      check_use   raises UnsupportedKeyUseError exactly when a use is declared and differs from the requested one,
                  whatever else the key declares (key_ops, alg)                                                     -> clause "use"
      check_alg   likewise for alg                                                                                   -> clause "alg"
    Returns [(clause, problem)]; None when something does not fold or a test was decided one way only."""
    from ..fold import Inst, FuncVal, FoldRaise, is_unknown
    P, F = eng.prog, eng.folder
    c = P.cls("rfc7518.oct_key:OctKey")
    problems: List[Tuple[str, str]] = []
    F.start_trace()
    try:
        for member in ("kid", "alg"):
            prop = c.lookup(member)
            if prop is None:
                return None
            for dv, want in (({"kty": "oct"}, None), ({"kty": "oct", member: "a"}, "a"), ({"kty": "oct", member: ""}, ""), ({"kty": "oct", member: "0"}, "0")):
                r = F.get_attr(Inst(c, {"dict_value": dict(dv)}), member)
                if is_unknown(r):
                    return None
                if r != want or type(r) is not type(want):
                    problems.append(("kid", f"key.{member} of a key whose JWK {'holds ' + member + '=' + repr(dv[member]) if member in dv else 'has no ' + member} folds to {r!r}, not {want!r}"))
        for meth, member, exc in (("check_use", "use", "UnsupportedKeyUseError"), ("check_alg", "alg", "UnsupportedKeyAlgorithmError")):
            fn = c.lookup(meth)
            if fn is None:
                return None
            vals = ("sig", "enc") if member == "use" else ("HS256", "HS512")
            for declared in (None, vals[0], vals[1]):
                for extra in ({}, {"key_ops": ["sign", "verify"]}, {"key_ops": ["encrypt"]}, {"kid": "k"}, {"alg": "HS256"} if member == "use" else {"use": "sig"}):
                    for asked in vals:
                        dv = {"kty": "oct", **extra}
                        if declared is not None:
                            dv[member] = declared
                        try:
                            r = F.call(FuncVal(fn, None, Inst(c, {"dict_value": dict(dv)})), [asked], {})
                            if is_unknown(r):
                                return None
                            got = "ok"
                        except FoldRaise as ex:
                            got = getattr(getattr(ex.exc, "cls", None), "name", None) or getattr(ex, "name", "") or "?"
                        want = exc if (declared is not None and declared != asked) else "ok"
                        if got != want:
                            problems.append((member, f"{meth}({asked!r}) on a key that declares {dv!r} folds to {got}, expected {want}"))
    finally:
        sided = F.one_sided()
    return None if sided else problems


def syntax_dispatch(ctx, rule: str, general: str, flattened: str, member: str, minimum: int = 1) -> None:
    """A JSON serialization is the GENERAL syntax exactly when it carries the array member (`signatures` / `recipients`): every function that reaches
    both the general and the flattened reader decides between them by the presence of that member - the general reader on the arm where it is
    present, the flattened reader on the arm where it is absent.  (A test on another member - the flattened syntax's own `signature`, say - agrees
    for well-formed input and lets a crafted object that carries both be read as flattened: the array, empty or forged, is then never looked at.)"""
    eng = ctx.eng
    P = eng.prog
    g, f = P.func(general), P.func(flattened)
    n = 0
    for fn in P.all_functions():
        sites = [s for s in eng.cg.calls_in(fn) if isinstance(s.node, ast.Call)]
        gs = [s for s in sites if g in s.callees]
        fs = [s for s in sites if f in s.callees]
        if not gs or not fs:
            continue
        n += 1
        cfg = cfg_of(fn)
        tests = []
        for t in cfg.nodes:
            if t.kind != "test" or t.ast is None:
                continue
            e, neg = t.ast, False
            while isinstance(e, ast.UnaryOp) and isinstance(e.op, ast.Not):
                e, neg = e.operand, not neg
            if isinstance(e, ast.Name) and e.id not in fn.params:
                # a local flag bound once to the membership test (`general = "signatures" in value`)
                defs = [d_ for d_ in eng.flow._defs(fn).get(e.id, []) if d_[0] == "assign"]
                if len(defs) == 1 and len(eng.flow._defs(fn).get(e.id, [])) == 1 and isinstance(defs[0][1], ast.Compare):
                    e = defs[0][1]
            if isinstance(e, ast.Compare) and len(e.ops) == 1 and isinstance(e.ops[0], (ast.In, ast.NotIn)) and const_value(e.left) == member:
                present_on_true = isinstance(e.ops[0], ast.In) != neg
                tests.append((t, "true" if present_on_true else "false"))
        ok = bool(tests)
        why = "no test of the array member decides between the two readers"
        if ok:
            for s_, want_present in [(x, True) for x in gs] + [(x, False) for x in fs]:
                cn = cfg.node_of(s_.node)
                if cn is None:
                    ok, why = False, "a reader call outside the flow graph"
                    break
                # reachable only through the wanted arm of some such test
                good = False
                for t, present_label in tests:
                    reach_without_wanted = cfg.reachable(cfg.entry, edge_filter=lambda a, b, lab, _t=t, _w=(present_label if want_present else ("false" if present_label == "true" else "true")): not (a is _t and lab == _w))
                    if cn not in reach_without_wanted:
                        good = True
                if not good:
                    ok = False
                    why = f"the {'general' if want_present else 'flattened'} reader is reached on a path that did not establish that `{member}` is {'present' if want_present else 'absent'}"
                    break
        ctx.check(ok, rule, fn, (gs + fs)[0].node, f"{fn.short} :: general / flattened dispatch", f"{fn.short} does not choose the general syntax exactly when `{member}` is present: {why}",
                  f"if '{member}' in value: general else: flattened", construct=f"syntax dispatch in {fn.short}")
    ctx.count(rule, n, minimum, "functions that choose between the general and the flattened reader")


def ignored_parameters(ctx, rule: str, select, minimum: int = 1) -> None:
    """A parameter that a function accepts and never reads is an argument the caller gave in vain (a size, a curve, a flag dropped while a call was
    re-spelled).  Every parameter of the selected functions is read somewhere in the body - except those the reference tree already ignores
    (abstract methods, protocol stubs: jv/spec/reference_unused_params.txt, keyed by position so that a rename is not news)."""
    import os
    eng = ctx.eng
    table = set()
    path = os.path.join(os.path.dirname(os.path.dirname(os.path.abspath(__file__))), "spec", "reference_unused_params.txt")
    with open(path) as fh:
        for line in fh:
            if line.startswith("#") or not line.strip():
                continue
            q, i, _nm = line.rstrip("\n").split("\t")
            table.add((q, int(i)))
    n = 0
    for fn in eng.prog.all_functions():
        if fn.name == "<module>" or not isinstance(fn.node, (ast.FunctionDef, ast.AsyncFunctionDef)) or not select(fn):
            continue
        if any(ast.unparse(d_).endswith("overload") for d_ in fn.node.decorator_list):
            continue
        a = fn.node.args
        ps = [x.arg for x in a.posonlyargs + a.args + a.kwonlyargs] + ([a.vararg.arg] if a.vararg else []) + ([a.kwarg.arg] if a.kwarg else [])
        used = {x.id for b in fn.node.body for x in ast.walk(b) if isinstance(x, ast.Name)}
        body = [b for b in fn.node.body if not (isinstance(b, ast.Expr) and isinstance(b.value, ast.Constant))]
        stub = not body or all(isinstance(b, (ast.Pass, ast.Raise)) or (isinstance(b, ast.Expr) and isinstance(b.value, ast.Constant)) for b in body)
        for i, p_ in enumerate(ps):
            if i == 0 and fn.cls is not None and p_ in ("self", "cls"):
                continue
            n += 1
            if p_ in used or stub or p_.startswith("_"):
                continue
            ctx.check((fn.short, i) in table, rule, fn, fn.node, f"{fn.short} :: parameter {p_}", f"{fn.short} accepts `{p_}` and never reads it: what the caller asked for is ignored "
                      "(the callee's default applies instead)", "every parameter is read or handed on", construct=f"parameter {p_} of {fn.short} ignored")
    ctx.count(rule, n, minimum, "parameters of the selected functions")


def every_recipient_tried(ctx, rule: str) -> None:
    """"every JWE that implementation produces ... decrypts": with verify_all_recipients off, a recipient entry that this key cannot open is skipped and
    the NEXT one is tried.  Walking outwards from the `decrypt_recipient` call, a `try` whose handler can complete normally (the tolerance) is met
    before the recipients loop - a handler outside the loop ends the search at the first entry that fails."""
    eng = ctx.eng
    P = eng.prog
    dr = P.func("rfc7516.message:decrypt_recipient")
    n = 0
    for fn in P.all_functions():
        for s_ in eng.cg.calls_in(fn):
            if not (isinstance(s_.node, ast.Call) and dr in s_.callees):
                continue
            # ancestors of the call, innermost first
            chain = []
            x = P.parent(s_.node)
            while x is not None and x is not fn.node:
                chain.append(x)
                x = P.parent(x)
            loops = [i for i, a in enumerate(chain) if isinstance(a, (ast.For, ast.While))]
            if not loops:
                continue
            n += 1
            li = loops[0]

            def tolerant(t: ast.Try) -> bool:
                return any(not (h.body and isinstance(h.body[-1], ast.Raise)) for h in t.handlers)
            outer = [a for a in chain[li + 1:] if isinstance(a, ast.Try) and tolerant(a) and any(chain[li] is b_ or any(chain[li] is y for y in ast.walk(b_)) for b_ in a.body)]
            ctx.check(not outer, rule, fn, s_.node, f"{fn.short} :: recipients loop", "a handler that tolerates a failing recipient stands outside the recipients loop: the first entry that cannot "
                      "be opened ends the search and later recipients (the caller's own, perhaps) are never tried", "try / except inside the loop body",
                      construct=f"recipient tolerance outside the loop in {fn.short}")
    ctx.count(rule, n, 1, "decrypt_recipient calls inside a recipients loop")
