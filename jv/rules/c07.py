"""C07 - JWS octets on the wire are those of RFC 7515 / 7518 / 8037 / 8812 / 7797 (tables + layout).

R07.1 folded JWS parameter table = RFC table (hash, padding, curve, key type; primitive call shapes)
R07.2 signing-input term at every sign site            R07.3 received octets are verified (= C01 R01.3)
R07.4 fixed-width R||S and DER conversion (= C03 R03.3) R07.5 compact ASCII JSON, unpadded base64url
R07.6 public JWK member sets per key type
"""
from __future__ import annotations
import ast
from typing import List

from ..program import AnalysisError, FunctionInfo, fn_nodes, norm
from ..fold import ExtVal, Inst
from ..spec import tables as T
from ..terms import Terms, show, match, alts, C, K, L
from .common import const_value, is_const
from .c03 import sign_sites, r03_3
from .c01 import r01_3
from .c11 import BINDINGS, _dict_members


def _ext_name(v) -> str:
    if isinstance(v, ExtVal):
        return v.name
    return repr(v)


def _is_op_key(eng, fn: FunctionInfo, e: ast.AST, op: str) -> bool:
    """e denotes <key parameter>.get_op_key('<op>') (through any local)"""
    from .common import resolve_all
    kp = fn.pos_params[-1]
    return resolve_all(eng, fn, e) == [f"{kp}.get_op_key('{op}')"]


def r07_1(ctx) -> None:
    eng = ctx.eng
    P = eng.prog
    F = eng.folder
    algs = F.class_attr(P.cls("rfc7515.registry:JWSRegistry"), "algorithms")
    if not isinstance(algs, dict):
        raise AnalysisError("JWS algorithm table did not fold")
    ctx.count("R07.1", len(algs), 15, "JWS algorithm models")
    for name, (cname, kty, _rec, hash_name, extra) in T.JWS_ALGS.items():
        inst = algs.get(name)
        if not isinstance(inst, Inst):
            ctx.fail("R07.1", None, None, f"algorithm {name} is not registered", construct=f"JWS model {name}")
            continue
        got_cls = inst.cls.name
        got_kty = F.get_attr(inst, "key_type")
        ok = got_cls == cname and got_kty == kty
        detail = [f"class {got_cls}", f"kty {got_kty}"]
        if hash_name is not None:
            h = F.get_attr(inst, "hash_alg")
            ok = ok and _ext_name(h) == hash_name
            detail.append(f"hash {_ext_name(h).split('.')[-1]}")
        if "curve" in extra:
            cv = F.get_attr(inst, "curve")
            ok = ok and cv == extra["curve"]
            detail.append(f"curve {cv}")
        if extra.get("padding") == "PKCS1v15":
            pd = F.get_attr(inst, "padding")
            ok = ok and repr(pd) == f"ext:{T.PAD}PKCS1v15()"
            detail.append("PKCS1v15")
        if extra.get("padding") == "PSS":
            pd = F.get_attr(inst, "padding")
            want = f"ext:{T.PAD}PSS(mgf=ext:{T.PAD}MGF1(ext:{hash_name}()), salt_length=ext:{hash_name}.digest_size)"
            ok = ok and repr(pd) == want
            detail.append("PSS(MGF1(same hash), salt = digest size)")
        ctx.check_folded(F.get_attr(inst, "hash_alg") if hash_name else got_kty, ok, "R07.1", None, None, f"JWS {name}", f"{name}: folded parameters {detail} / padding {F.get_attr(inst, 'padding') if 'padding' in extra else ''} "
                         f"differ from RFC 7518 section 3 ({cname}, {kty}, {hash_name}, {extra})", ", ".join(detail), construct=f"JWS parameters of {name}")
    # primitive call shapes
    M = P.mod("rfc7518.jws_algs")

    def cls(n):
        return P.cls(f"rfc7518.jws_algs:{n}")
    hs, hv = cls("HMACAlgModel").methods["sign"], cls("HMACAlgModel").methods["verify"]
    for fn in (hs, hv):
        calls = [n for n in fn_nodes(fn) if isinstance(n, ast.Call) and norm(n.func) == "hmac.new"]
        ok = len(calls) == 1 and len(calls[0].args) == 3 and _is_op_key(eng, fn, calls[0].args[0], fn.name) and norm(calls[0].args[1]) == fn.pos_params[1] \
            and norm(calls[0].args[2]) == f"{fn.self_name}.hash_alg"
        ctx.check(ok, "R07.1", fn, fn.node, f"{fn.short} :: HMAC", "HSn is not HMAC(raw key octets, message, SHA-n)", "hmac.new(op_key, msg, self.hash_alg)", construct=f"HMAC call in {fn.name}")
    # the oct key's operation key is its raw octets
    sk = P.cls("rfc7517.models:SymmetricKey")
    for prop in ("public_key", "private_key", "raw_value"):
        f = sk.methods.get(prop)
        t = [norm(r.value) for r in fn_nodes(f) if isinstance(r, ast.Return)] if f else []
        ctx.check(t in (["self.raw_value"], ["self._raw_value"]), "R07.1", f, f.node if f else None, f"SymmetricKey.{prop}", f"SymmetricKey.{prop} returns {t}", "the raw key octets",
                  construct=f"SymmetricKey.{prop}")
    for cn, pad in (("RSAAlgModel", True), ("RSAPSSAlgModel", True)):
        for m in ("sign", "verify"):
            fn = cls(cn).methods[m]
            calls = [n for n in fn_nodes(fn) if isinstance(n, ast.Call) and isinstance(n.func, ast.Attribute) and n.func.attr == m and _is_op_key(eng, fn, n.func.value, m)]
            want = [fn.pos_params[1], f"{fn.self_name}.padding", f"{fn.self_name}.hash_alg()"] if m == "sign" else \
                [fn.pos_params[2], fn.pos_params[1], f"{fn.self_name}.padding", f"{fn.self_name}.hash_alg()"]
            ok = len(calls) == 1 and [norm(a) for a in calls[0].args] == want
            ctx.check(ok, "R07.1", fn, fn.node, f"{fn.short} :: primitive arguments", f"{cn}.{m} does not call the RSA primitive with (…, padding, hash)", f"op_key.{m}({', '.join(want)})",
                      construct=f"RSA primitive call in {cn}.{m}")
    ec = cls("ECAlgModel")
    for m in ("sign", "verify"):
        fn = ec.methods[m]
        calls = [n for n in fn_nodes(fn) if isinstance(n, ast.Call) and isinstance(n.func, ast.Attribute) and n.func.attr == m and _is_op_key(eng, fn, n.func.value, m)]
        ok = len(calls) == 1 and norm(calls[0].args[-1]) == f"ECDSA({fn.self_name}.hash_alg())"
        ctx.check(ok, "R07.1", fn, fn.node, f"{fn.short} :: ECDSA hash", "ECDSA is not used with the algorithm's hash", "ECDSA(self.hash_alg())", construct=f"ECDSA call in {m}")
    ed = P.cls("rfc8037.jws_eddsa:EdDSAAlgModel")
    for m in ("sign", "verify"):
        fn = ed.methods[m]
        calls = [n for n in fn_nodes(fn) if isinstance(n, ast.Call) and isinstance(n.func, ast.Attribute) and n.func.attr == m and _is_op_key(eng, fn, n.func.value, m)]
        want = [fn.pos_params[1]] if m == "sign" else [fn.pos_params[2], fn.pos_params[1]]
        ok = len(calls) == 1 and [norm(a) for a in calls[0].args] == want and not calls[0].keywords
        ctx.check(ok, "R07.1", fn, fn.node, f"{fn.short} :: pure EdDSA", "EdDSA is not the pure (no pre-hash) signature over the message", f"op_key.{m}({', '.join(want)})", construct=f"EdDSA call in {m}")
    nn = cls("NoneAlgModel").methods["sign"]
    t = [norm(r.value) for r in fn_nodes(nn) if isinstance(r, ast.Return)]
    ctx.check(t == ["b''"], "R07.1", nn, nn.node, nn.short, "none does not produce the empty signature", "b''", construct="none signature")


def r07_2(ctx) -> None:
    eng = ctx.eng
    Tm = Terms(eng)
    sites = sign_sites(eng)
    ctx.count("R07.2", len(sites), 4, "sign sites")
    for s in sites:
        fn = s.fn
        t = Tm.of(fn, s.node.args[0])
        ok = False
        why = show(t)
        if t[0] == "CAT" and len(t[1]) == 3 and t[1][1] == K(b"."):
            A, B = t[1][0], t[1][2]
            a_ok = all(x == K(b"") or (x[0] == "B64J") for x in alts(A)) and any(x[0] == "B64J" for x in alts(A))
            # payload: BASE64URL(payload) or - under b64:false (RFC 7797 modules) - the payload octets themselves
            in_7797 = fn.module.short.startswith("rfc7797")
            if B[0] == "B64U":
                b_ok = True
            elif B[0] == "LEAF" and B[1] in fn.params and not in_7797:
                # the caller passes BASE64URL(payload)
                b_ok = True
                for cs in eng.cg.callers.get(fn, []):
                    a = eng.cg.arg_for_param(cs, fn, B[1])
                    if a is None or Tm.of(cs.fn, a)[0] != "B64U":
                        b_ok = False
            else:
                b_ok = in_7797 and B[0] == "LEAF"
            ok = a_ok and b_ok
            # the header that is encoded is the protected header of the object being signed
            for x in alts(A):
                if x[0] == "B64J":
                    inner = show(x[1])
                    # (a compact object's headers() IS its protected header; a JSON member's headers() also holds the unprotected members, which are not signed)
                    in_json = fn.module.short.endswith("json")
                    if not ("protected" in inner or ("headers" in inner and not in_json)):
                        ok = False
                        why = f"the encoded header is {inner}"
        ctx.check(ok, "R07.2", fn, s.node, f"{fn.short} :: signing input", f"signing input is not ASCII(BASE64URL(UTF8(protected header)) '.' BASE64URL(payload)) (payload unencoded only under b64:false): {why}",
                  show(t), construct=f"signing input term in {fn.short}")


def r07_18(ctx) -> None:
    """R07.18  "tokens signed by that independent implementation ... verify": in the JSON serializations `alg` may stand in the UNPROTECTED header of a
    signature (RFC 7515 7.2.1), so the JSON readers must not demand it of the protected header.  Who-may-call: `rfc7515.compact:decode_header` - the
    decoder that raises MissingAlgorithmError when the decoded protected header has no `alg` - is reached from the compact readers only."""
    eng = ctx.eng
    P = eng.prog
    dh = P.func("rfc7515.compact:decode_header")
    callers = [s for s in eng.cg.callers.get(dh, []) if isinstance(s.node, ast.Call)]
    ctx.count("R07.18", len(callers), 2, "decode_header call sites")
    for s in callers:
        ok = s.fn.module.short.endswith("compact")
        ctx.check(ok, "R07.18", s.fn, s.node, f"{s.fn.short} :: {norm(s.node)[:40]}", f"{s.fn.short} decodes a protected header with the compact decoder, which demands `alg` in it: a JSON signature "
                  "that carries `alg` in its unprotected header is refused", "json_b64decode + dict check in the JSON readers", construct=f"compact header decoder used in {s.fn.short}")
    # ... and the JSON readers raise no missing-algorithm error of their own before the merged header is judged
    for short in ("rfc7515.json:extract_general_json", "rfc7515.json:extract_flattened_json", "rfc7515.json:__signature_to_member", "rfc7797.json:_extract_json"):
        try:
            fn = P.func(short)
        except Exception:
            continue
        bad = [n for n in fn_nodes(fn) if isinstance(n, ast.Raise) and n.exc is not None and "MissingAlgorithmError" in norm(n.exc)]
        ctx.check(not bad, "R07.18", fn, bad[0] if bad else fn.node, f"{fn.short} :: no alg demand", f"{fn.short} raises MissingAlgorithmError while reading a member: `alg` may be in the unprotected header",
                  "the merged header is judged by check_header", construct=f"missing-alg raise in {fn.short}")


def r07_5(ctx) -> None:
    eng = ctx.eng
    P = eng.prog
    from .common import resolve_all
    je = P.func("util:json_b64encode")
    pt = je.pos_params[0]
    dumps = [n for n in fn_nodes(je) if isinstance(n, ast.Call) and norm(n.func) == "json.dumps"]
    ok = len(dumps) == 1
    if ok:
        kw = {k.arg: k.value for k in dumps[0].keywords}
        sep = kw.get("separators")
        ok = isinstance(sep, ast.Tuple) and [const_value(e) for e in sep.elts] == [",", ":"] and is_const(kw.get("ensure_ascii", ast.Constant(value=True)), True) \
            and len(dumps[0].args) == 1 and norm(dumps[0].args[0]) == pt and set(kw) <= {"ensure_ascii", "separators"}
    # every return is urlsafe_b64encode(to_bytes(<text>, 'ascii')) where <text> is that json.dumps output or the argument itself (already serialised
    # by the caller) - whatever locals carry it; nothing else is ever encoded (no hand-written formatter, no default= / cls= hook)
    rets = [r for r in fn_nodes(je) if isinstance(r, ast.Return) and r.value is not None]
    DUMP = norm(dumps[0]) if dumps else "?"
    seen = set()
    for r in rets:
        for t_ in resolve_all(eng, je, r.value):
            m_ = t_.startswith("urlsafe_b64encode(to_bytes(") and t_.endswith(", 'ascii'))")
            inner = t_[len("urlsafe_b64encode(to_bytes("):-len(", 'ascii'))")] if m_ else None
            if not m_ and t_ in (f"urlsafe_b64encode({DUMP}.encode('ascii'))", f"urlsafe_b64encode({DUMP}.encode('ascii', 'strict'))"):
                inner = DUMP  # json.dumps returns text: to_bytes(text, 'ascii') is text.encode('ascii', 'strict')
            if inner == DUMP:
                seen.add("dumps")
            elif inner == pt:
                seen.add("param")
            else:
                ok = False
                ctx.fail("R07.5", je, r, f"the header octets that are signed can be `{t_[:80]}`, which is not the base64url of the JSON serialisation of the header by json.dumps "
                         "without hooks (a hand-written formatter does not escape '\"' and '\\'; a default= hook serialises non-JSON objects)", construct=f"header text bound to {t_[:50]}")
    # a parameter re-binding, where used, is that json.dumps call
    binds = [n for n in fn_nodes(je) if isinstance(n, (ast.Assign, ast.AugAssign)) and any(isinstance(x, ast.Name) and x.id == pt and isinstance(x.ctx, ast.Store)
             for t_ in (n.targets if isinstance(n, ast.Assign) else [n.target]) for x in ast.walk(t_))]
    for b in binds:
        if norm(b.value) == DUMP:
            seen.add("dumps")
        if norm(b.value) != DUMP:
            ok = False
            ctx.fail("R07.5", je, b, f"the header text that is signed can be `{norm(b.value)[:70]}`, which is not the JSON serialisation of the header by json.dumps without hooks",
                     construct=f"header text bound to {norm(b.value)[:50]}")
    ok = ok and "dumps" in seen
    ctx.check(ok, "R07.5", je, je.node, je.short, "header JSON is not serialised compactly in ASCII and base64url-encoded", "json.dumps(separators=(',', ':'), ensure_ascii=True) -> urlsafe_b64encode",
              construct="json_b64encode")
    ue = P.func("util:urlsafe_b64encode")
    t = [norm(r.value) for r in fn_nodes(ue) if isinstance(r, ast.Return)]
    ctx.check(t == ["base64.urlsafe_b64encode(s).rstrip(b'=')"], "R07.5", ue, ue.node, ue.short, f"urlsafe_b64encode is {t}", "URL-safe alphabet, padding stripped", construct="urlsafe_b64encode")


def r07_6(ctx) -> None:
    eng = ctx.eng
    P = eng.prog
    want = {"RSAKey": {"n", "e"}, "ECKey": {"crv", "x", "y"}, "OKPKey": {"crv", "x"}}
    for k, w in want.items():
        fn = P.cls(BINDINGS[k]).methods["export_public_key"]
        got = set(_dict_members(fn))
        ctx.check(got == w, "R07.6", fn, fn.node, f"{k} public members", f"public JWK of {k} has members {sorted(got)}, RFC 7518 section 6 / RFC 8037 section 2 require {sorted(w)}", f"= {sorted(w)}",
                  construct=f"{k} public JWK members")
    # crv names handed out
    F = eng.folder
    cd = F.class_attr(P.cls(BINDINGS["ECKey"]), "_curves_dss")
    names = sorted(cd.values()) if isinstance(cd, dict) else []
    ctx.check(names == sorted(T.EC_CURVES), "R07.6", None, None, "EC crv names", f"crv names {names}", f"= {sorted(T.EC_CURVES)}", construct="EC crv names")
    gk = P.func("rfc8037.okp_key:get_key_curve")
    consts = {const_value(r.value) for r in fn_nodes(gk) if isinstance(r, ast.Return)}
    if None in consts:
        # a name returned after a search: every value it can hold
        import ast as _ast
        from .common import resolve_all
        consts = set()
        for r in fn_nodes(gk):
            if isinstance(r, ast.Return) and r.value is not None:
                for t_ in resolve_all(eng, gk, r.value):
                    try:
                        consts.add(_ast.literal_eval(t_))
                    except Exception:
                        consts.add(None)
    ctx.check(consts == T.OKP_CURVES, "R07.6", gk, gk.node, "OKP crv names", f"OKP crv names {sorted(x for x in consts if x)}", f"= {sorted(T.OKP_CURVES)}", construct="OKP crv names")


def r07_10(ctx) -> None:
    """HMAC uses the raw key octets: the octets given to OctKey.import_key are the octets of the key - OctBinding.import_from_bytes
    returns its argument itself (no strip / normalisation), and import_key converts text with to_bytes only"""
    eng = ctx.eng
    fn = eng.prog.cls("rfc7518.oct_key:OctBinding").methods.get("import_from_bytes")
    if fn is None:
        raise AnalysisError("OctBinding.import_from_bytes vanished")
    vp = fn.pos_params[1]
    rets = [r.value for r in fn_nodes(fn) if isinstance(r, ast.Return) and r.value is not None]
    rebinds = [n for n in fn_nodes(fn) if isinstance(n, (ast.Assign, ast.AugAssign, ast.AnnAssign)) and any(isinstance(t, ast.Name) and t.id == vp for t in
               (n.targets if isinstance(n, ast.Assign) else [n.target]))]
    ok = bool(rets) and all(isinstance(r, ast.Name) and r.id == vp for r in rets) and not rebinds
    ctx.check(ok, "R07.10", fn, fn.node, fn.short, "the secret imported from bytes is not the given octet string itself (it is re-bound / transformed before being returned)",
              f"return {vp}", construct="oct import returns the given octets")


def _in_handler_of(fn: FunctionInfo, node: ast.AST, exc: str) -> bool:
    for h in fn_nodes(fn):
        if isinstance(h, ast.ExceptHandler) and h.type is not None and exc in norm(h.type):
            if any(x is node for b in h.body for x in ast.walk(b)):
                return True
    return False


def r07_11(ctx) -> None:
    """R07.11  whether the RFC 7797 signing input applies is decided from the PARSED header: in the two rfc7797 extractors the conclusion
    "ordinary token" (return None) is reached only through a membership test of "b64" in the decoded header object.  A decision taken
    from the spelling of the header octets (substring search, regex) mis-classifies foreign tokens whose JSON uses escapes."""
    eng = ctx.eng
    from .common import resolve_all
    from ..cfg import cfg_of
    n = 0
    for short, host, plain in (("rfc7797.compact:_extract_compact", "rfc7797.compact:deserialize_compact", "jws:deserialize_compact"),
                               ("rfc7797.json:_extract_json", "rfc7797.json:deserialize_json", "jws:deserialize_json")):
        try:
            fn = eng.prog.func(short)
        except AnalysisError:
            # the extractor was dissolved into the reader (its parts are inlined there): the "ordinary token" conclusion is the hand-over to the plain
            # RFC 7515 reader, and on every path to one a membership test of "b64" in the parsed header was taken
            fn = eng.prog.func(host)
            target = eng.prog.func(plain)
            cfg = cfg_of(fn)
            sites = [s for s in eng.cg.calls_in(fn) if target in s.callees and isinstance(s.node, ast.Call)]
            if not sites:
                raise AnalysisError(f"R07.11: {host} no longer hands ordinary tokens to {plain}")
            for s_ in sites:
                cn = cfg.node_of(s_.node)
                for path in (cfg.guards_of(cn) if cn is not None else []):
                    n += 1
                    ok = False
                    for t, _out in path:
                        c = t.ast
                        if t.kind == "test" and isinstance(c, ast.Compare) and len(c.ops) == 1 and isinstance(c.ops[0], (ast.In, ast.NotIn)) and const_value(c.left) == "b64":
                            srcs = resolve_all(eng, fn, c.comparators[0])
                            if srcs and all(("decode_header(" in x) or ("json_b64decode(" in x) or x.endswith(".headers()") for x in srcs):
                                ok = True
                    ctx.check(ok, "R07.11", fn, s_.node, f"{fn.short} :: hand-over to {plain} at line {s_.node.lineno}",
                              "the reader hands a token to the plain RFC 7515 reader without having asked the parsed header for a b64 member", "if 'b64' not in <decoded header>: return plain(...)",
                              construct=f"'no b64' conclusion in {fn.short} not from the parsed header")
            continue
        cfg = cfg_of(fn)
        exits = [r for r in cfg.returns() if r.ast.value is None or is_const(r.ast.value, None)]  # type: ignore[union-attr]
        falloff = [e for e, _lab in cfg.normal_exits() if not isinstance(e.ast, ast.Return)]
        for r in exits + [e for e in falloff if e not in exits]:
            for path in cfg.guards_of(r):
                n += 1
                tests = [(t, out) for t, out in path if t.kind == "test"]
                ok = False
                why = "no test at all precedes it"
                if tests:
                    t, out = tests[-1]
                    c = t.ast
                    why = f"the deciding test is `{norm(c)}`"
                    if (isinstance(c, ast.Compare) and len(c.ops) == 1 and isinstance(c.ops[0], (ast.In, ast.NotIn)) and const_value(c.left) == "b64"
                            and (isinstance(c.ops[0], ast.NotIn) == out)):
                        srcs = resolve_all(eng, fn, c.comparators[0])
                        ok = bool(srcs) and all(("decode_header(" in x) or ("json_b64decode(" in x) or x.endswith(".headers()") for x in srcs)
                        why = f"the header object tested is {srcs}"
                    elif (isinstance(c, ast.Compare) and len(c.ops) == 1 and isinstance(c.ops[0], (ast.In, ast.NotIn)) and isinstance(const_value(c.left), str)
                          and isinstance(c.comparators[0], ast.Name) and c.comparators[0].id in fn.params and const_value(c.left) != "b64"):
                        ok = True  # a test of the SHAPE of the serialization given (general JSON is not an RFC 7797 form here), not of the header
                ctx.check(ok, "R07.11", fn, r.ast if r.ast is not None else fn.node, f"{fn.short} :: 'no b64' exit at line {r.lineno}",
                          f"the extractor concludes that the token carries no b64 member without asking the parsed header ({why}): a header spelled with JSON escapes "
                          f"is classified by its spelling", "if 'b64' not in <decoded header>: return None", construct=f"'no b64' conclusion in {fn.short} not from the parsed header")
    ctx.count("R07.11", n, 2, "paths to the 'ordinary token' conclusion of the RFC 7797 extractors")


def r07_12(ctx) -> None:
    """R07.12  a signature of an independent implementation is refused only by the primitive: in every verify() of the JWS algorithm models a
    `return False` sits in the handler of the primitive's InvalidSignature, or behind a length test of the signature against an exact octet
    length ((bits + 7) // 8 - RFC 8017 k, RFC 7518 3.4 coordinate size).  A rounded-down length refuses every key whose bit size is not a multiple of 8."""
    eng = ctx.eng
    from .common import resolve_all
    from ..cfg import cfg_of
    base = eng.prog.cls("rfc7515.model:JWSAlgModel")
    n = 0
    for fn in eng.prog.implementations(base, "verify"):
        cfg = cfg_of(fn)
        p_sig = fn.pos_params[2]
        for r in cfg.returns():
            v = r.ast.value  # type: ignore[union-attr]
            if not (is_const(v, False) or is_const(v, None) or v is None):
                continue
            if len(cfg.returns()) == 1 and not cfg.guards_of(r)[0]:
                continue  # a constant function ("none" never verifies - C05 decides that)
            n += 1
            if _in_handler_of(fn, r.ast, "InvalidSignature"):
                ctx.ok("R07.12", f"{fn.short} :: return False at line {r.lineno}", "in the handler of the primitive's InvalidSignature")
                continue
            ok = True
            why = ""
            for path in cfg.guards_of(r):
                tests = [(t, out) for t, out in path if t.kind == "test"]
                if not tests:
                    ok, why = False, "unconditional"
                    break
                c = tests[-1][0].ast
                sides = [c.left, c.comparators[0]] if isinstance(c, ast.Compare) and len(c.ops) == 1 and isinstance(c.ops[0], (ast.Eq, ast.NotEq)) else []
                lens = [x for x in sides if isinstance(x, ast.Call) and isinstance(x.func, ast.Name) and x.func.id == "len" and x.args and norm(x.args[0]) == p_sig]
                if not lens:
                    ok, why = False, f"decided by `{norm(c)}`"
                    break
                other = sides[1] if sides[0] is lens[0] else sides[0]
                texts = resolve_all(eng, fn, other)
                # every alternative that still mentions a bit size must carry the round-up; `length = (length + 7) // 8` re-binds a local, so the
                # un-rounded alternative of the first binding appears only inside the rounded one
                if not texts or not all(("+ 7) // 8" in x.replace("(", "(").replace("  ", " ")) for x in texts if "key_size" in x or "bit_length" in x) \
                        or not any("key_size" in x or "bit_length" in x for x in texts):
                    ok, why = False, f"the length compared with is {texts}"
                    break
            ctx.check(ok, "R07.12", fn, r.ast, f"{fn.short} :: return False at line {r.lineno}", f"{fn.short} refuses a signature before / without the primitive ({why}); "
                      f"an octet length must be (bits + 7) // 8", "return False only on InvalidSignature or len(sig) != exact octet length",
                      construct=f"early refusal in {fn.short}: {why[:80]}")
    ctx.count("R07.12", n, 5, "refusing returns in the verify methods of the JWS algorithm models")


def run(ctx) -> None:
    from .c03 import r03_6 as _r03_6
    ctx.guard_as("R07.13", _r03_6)
    from .c15 import r15_2 as _r15_2
    ctx.guard_as("R07.14", _r15_2, "jws")  # RFC 7797 tokens of another implementation: "b64" needs to be IN crit, crit may list more
    from .c11 import r11_9 as _r11_9
    # "yield the same header and payload": key resolution on the verifying side never writes a kid into the received header (use_random=False there)
    from .c14 import r14_2 as _r14_2
    from .common import JWS_CONSUME as _JC7, entries as _entries7, scope_of as _scope_of7
    _within7 = set()
    for _e7 in _entries7(ctx.eng, _JC7 + [("jws", "validate_compact")]):
        _within7.update(_scope_of7(ctx.eng, _e7))
    ctx.guard_as("R07.19", _r14_2, within=_within7)
    ctx.guard_as("R07.17", _r11_9)  # "given only the exported public JWK": a published key with `use: sig, key_ops: [verify]` is importable
    from .common import member_crossing
    ctx.guard(member_crossing, "R07.15", "jws")  # "yield the same payload and header": each named member of a parsed token is filled from the member of that name, under a test of its own presence
    from .c20 import r20_1 as _r20_1
    from ..effects import Effects as _Fx
    from .common import in_family as _inf
    ctx.guard_as("R07.16", _r20_1, _Fx(ctx.eng.prog, ctx.eng.cg), {f for f in ctx.eng.prog.all_functions() if _inf(f, "jws")})  # the signing input that is verified is this token's own segments (no class-level containers)
    ctx.guard(r07_18)
    ctx.guard(r07_10)
    ctx.guard(r07_11)
    ctx.guard(r07_12)
    ctx.guard(r07_1)
    ctx.guard(r07_2)
    ctx.guard(r01_3)  # R07.3: reported under its own rule id R01.3
    ctx.guard(r03_3)  # R07.4
    ctx.guard(r07_5)
    ctx.guard(r07_6)
    from .c03 import r03_5
    ctx.guard_as("R07.7", r03_5)
    from .c19 import r19_4_5
    ctx.guard_as("R07.8", r19_4_5)
    from .c20 import r20_6
    ctx.guard_as("R07.9", r20_6, "jws")  # every verification yields its own header object (no memoised decode results)  # header JSON codec: foreign spellings (raw UTF-8, escapes) decode, own output is compact ASCII  # b64=false compact: which payloads stay attached (no '.' inside a compact token)
    ctx.note("R07.3 (foreign header spellings verify because the received octets are verified) and R07.4 (R||S width) reuse the C01 / C03 rule implementations and keep their rule ids")
    ctx.note("undecided remainder: agreement with an independent implementation for every key, header and payload needs an oracle implementation - a different technique")
    ctx.assume("RFC 7518 section 3 / RFC 8037 / RFC 8812 parameter table as transcribed in jv/spec/tables.py")
