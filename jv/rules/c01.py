"""C01 - JWS verification returns only authentically signed content (structural core).

R01.1 verify dominates success        R01.2 aggregators cannot succeed vacuously
R01.3 verify-what-you-received        R01.4 return-what-you-verified
R01.5 b64 switch read from the protected header only
R01.6 the verify implementations agree on the accept idiom
"""
from __future__ import annotations
import ast
from typing import Dict, List, Optional, Set

from ..program import AnalysisError, FunctionInfo, fn_nodes, norm
from ..callgraph import CallSite
from ..cfg import cfg_of, CNode
from ..flow import leaf_hops
from .common import (resolve_all, shape, ENCODERS, JWS_CONSUME, can_reach_exit, const_value, derives_from_param, enclosing_loops,
                     entries, entry_param_leaves, foreign_leaves, handler_catches, impls, is_const, leaf_param_name,
                     loop_nonempty_established, resolves_to_call, scope_of, sites_calling, succ_by_label)

TOKEN_PARAMS = {"value"}
DETACHED_PARAMS = {"payload"}


def verify_family(eng) -> List[FunctionInfo]:
    """JWSAlgModel.verify implementations and every bool function that consults one (fixed point)"""
    fam: List[FunctionInfo] = impls(eng, "rfc7515.model:JWSAlgModel", "verify", include_abstract=True)
    if len(fam) < 2:
        raise AnalysisError("JWSAlgModel.verify implementations not found")
    changed = True
    while changed:
        changed = False
        for fn in eng.prog.all_functions():
            if fn in fam or fn.name == "<module>" or isinstance(fn.node, ast.Lambda):
                continue
            ann = fn.node.returns
            if ann is None or norm(ann) != "bool":
                continue
            for s in eng.cg.calls_in(fn):
                if s.callees and all(c in fam for c in s.callees):
                    fam.append(fn)
                    changed = True
                    break
    return fam


def _is_vf_site(fam: List[FunctionInfo]):
    def pred(s: CallSite) -> bool:
        return bool(s.callees) and all(c in fam for c in s.callees)
    return pred


def gates_in(eng, fn: FunctionInfo, fam: List[FunctionInfo]) -> List[CNode]:
    cfg = cfg_of(fn)
    out = []
    for n in cfg.nodes:
        if n.kind == "test" and n.ast is not None and not isinstance(n.stmt, ast.Assert):
            if resolves_to_call(eng, fn, n.ast, _is_vf_site(fam)) is not None:
                out.append(n)
    return out


# ----------------------------------------------------------------------------------------------- R01.1
def r01_1(ctx, fam: List[FunctionInfo]) -> None:
    eng = ctx.eng
    ents = entries(eng, JWS_CONSUME)
    checked = set(ents)
    n_inst = 0
    for E in ents:
        cfg = cfg_of(E)
        gates = gates_in(eng, E, fam)
        good_gates = []
        for g in gates:
            if can_reach_exit(cfg, succ_by_label(cfg, g, "false")):
                ctx.fail("R01.1", E, g.ast, "result of the signature verification is tested but its falsy outcome can "
                         "still reach a normal return (must lead to an error)")
            else:
                good_gates.append(g)
        for r in cfg.returns():
            assert isinstance(r.ast, ast.Return)
            v = r.ast.value
            if not cfg.is_reachable(r):
                continue
            n_inst += 1
            inst = f"{E.short} :: {norm(r.ast)}"
            # (a) tail delegation to another checked entry
            if isinstance(v, ast.Call):
                s = eng.cg.site_of.get(id(v))
                if s is not None and s.callees and all(c in checked for c in s.callees):
                    ctx.ok("R01.1", inst, "tail delegation to " + ",".join(c.short for c in s.callees))
                    continue
            # (b) dominated by a checked verification gate
            if good_gates and cfg.must_pass(cfg.entry, r, good_gates):
                ctx.ok("R01.1", inst, "every path passes " + " / ".join(norm(g.ast)[:50] for g in good_gates) +
                       " whose falsy edge only raises")
                continue
            w = cfg.path_avoiding(cfg.entry, r, good_gates)
            ctx.fail("R01.1", E, r.ast, "a normal return is reachable without a checked signature verification",
                     path=[repr(x) for x in (w or [])][:12])
    ctx.count("R01.1", n_inst, 9, "return sites of the four JWS consume entries")


# ----------------------------------------------------------------------------------------------- R01.2
def r01_2(ctx, fam: List[FunctionInfo]) -> None:
    eng = ctx.eng
    leaf = set(impls(eng, "rfc7515.model:JWSAlgModel", "verify", include_abstract=True))
    aggregators = [f for f in fam if f not in leaf]
    ctx.count("R01.2", len(aggregators), 5, "verification aggregators")
    for G in aggregators:
        cfg = cfg_of(G)
        gates = gates_in(eng, G, fam)
        pred = _is_vf_site(fam)
        truthy: List[CNode] = []
        for r in cfg.returns():
            v = r.ast.value  # type: ignore[union-attr]
            if is_const(v, False):
                continue
            if v is not None and resolves_to_call(eng, G, v, pred) is not None:
                ctx.ok("R01.2", f"{G.short} :: {norm(r.ast)}", "returns the verdict of a verification call")
                continue
            truthy.append(r)
        for r in truthy:
            inst = f"{G.short} :: {norm(r.ast)}"
            bad = False
            # falsy edge of every gate must not reach a truthy return unchecked
            for g in gates:
                for s in succ_by_label(cfg, g, "false"):
                    if r in cfg.reachable(s, gates):
                        ctx.fail("R01.2", G, g.ast, "a failed verification can still reach a success return")
                        bad = True
            # no success without at least one verification: loops must be known non-empty
            loops = [n for n in cfg.nodes if n.kind == "loop"]
            unproven = [l for l in loops if not loop_nonempty_established(cfg, l)]

            def ef(a: CNode, b: CNode, lab: str, _loops=loops, _unproven=unproven) -> bool:
                # proven non-empty loops cannot be skipped on first arrival
                if a.kind == "loop" and lab == "done" and a not in _unproven:
                    return False
                return True
            reach_a = cfg.reachable(cfg.entry, gates, edge_filter=ef)
            vac = r in reach_a
            if not vac:
                # after >= 1 iteration: the body must not get around the gate
                for l in loops:
                    if l in unproven:
                        continue
                    for s in succ_by_label(cfg, l, "iter"):
                        if r in cfg.reachable(s, gates):
                            vac = True
            if vac:
                w = cfg.path_avoiding(cfg.entry, r, gates)
                ctx.fail("R01.2", G, r.ast, "success is returned on a path that verified nothing (e.g. an empty "
                         "signature list): no verification call dominates this return",
                         path=[repr(x) for x in (w or [])][:12])
                bad = True
            # every signature must be verified: no early exit from the verifying loop
            for g in gates:
                for lp in enclosing_loops(eng.prog, g.ast):
                    for n in ast.walk(lp):
                        if isinstance(n, ast.Break):
                            ctx.fail("R01.2", G, lp, "the verifying loop can be left early (break): not every signature is verified")
                            bad = True
                    if any(n is r.ast for n in ast.walk(lp)):
                        ctx.fail("R01.2", G, r.ast, "success is returned from inside the verifying loop: later signatures are not verified")
                        bad = True
            if not bad:
                ctx.ok("R01.2", inst, "dominated by a verification gate; loops proven non-empty or gated per iteration")


# ----------------------------------------------------------------------------------------------- R01.3
def _verify_sites(eng) -> List[CallSite]:
    targets = impls(eng, "rfc7515.model:JWSAlgModel", "verify", include_abstract=True)
    return [s for s in sites_calling(eng, targets) if s.kind in ("method", "cha") and isinstance(s.node, ast.Call)
            and len(s.node.args) >= 3]


def _check_origin(ctx, rule: str, E: FunctionInfo, site: CallSite, what: str, res, need_posts, allowed_params) -> bool:
    ok = True
    enc = res.passes(*ENCODERS)
    if enc:
        ctx.fail(rule, site.fn, site.node, f"the {what} given to the verification primitive is re-encoded from parsed "
                 f"values ({', '.join(sorted({x.name for x in enc}))}) instead of being the received octets",
                 construct=f"{what} of {norm(site.node)[:80]} [{E.short}]", slice=res.describe())
        ok = False
    foreign = [l for l in foreign_leaves(res, E) if l.kind not in ("ext",)]
    foreign = [l for l in foreign if not (l.kind == "global")]
    badp = [l for l in entry_param_leaves(res, E) if leaf_param_name(l) not in allowed_params]
    if foreign or badp:
        ctx.fail(rule, site.fn, site.node, f"the {what} does not originate only from the received token: "
                 f"{sorted(repr(l) for l in (foreign + badp))[:6]}",
                 construct=f"origin of {what} of {norm(site.node)[:80]} [{E.short}]", slice=res.describe())
        ok = False
    have = set()
    for l in entry_param_leaves(res, E):
        have.update(leaf_hops(l))
        if leaf_param_name(l) in DETACHED_PARAMS:
            have.add(("param", "payload"))
    for alt in need_posts:
        if not any(a in have for a in alt):
            ctx.fail(rule, site.fn, site.node, f"the {what} lacks the received part {alt} (found {sorted(have)})",
                     construct=f"coverage of {what} of {norm(site.node)[:80]} [{E.short}]", slice=res.describe())
            ok = False
    return ok


def r01_3(ctx) -> None:
    eng = ctx.eng
    sites = _verify_sites(eng)
    ctx.count("R01.3", len(sites), 3, "alg.verify(msg, sig, key) call sites")
    ents = entries(eng, JWS_CONSUME)
    n = 0
    for E in ents:
        scope = scope_of(eng, E)
        compact = "compact" in E.name
        for s in sites:
            if s.fn not in scope:
                continue
            n += 1
            call = s.node
            assert isinstance(call, ast.Call)
            msg = eng.flow.slice(s.fn, call.args[0], scope, [E])
            sig = eng.flow.slice(s.fn, call.args[1], scope, [E])
            if compact:
                need_msg = [[("idx", 0)], [("idx", 1), ("param", "payload")]]
                need_sig = [[("idx", 2)]]
            else:
                need_msg = [[("key", "protected")], [("key", "payload")]]
                need_sig = [[("key", "signature")]]
            ok1 = _check_origin(ctx, "R01.3", E, s, "signing input", msg, need_msg, TOKEN_PARAMS | DETACHED_PARAMS)
            # the signature is decoded, never encoded
            ok2 = _check_origin(ctx, "R01.3", E, s, "signature", sig, need_sig, TOKEN_PARAMS)
            if ok1 and ok2:
                ctx.ok("R01.3", f"{E.short} -> {s.fn.short}:{norm(call)[:50]}",
                       f"msg leaves {msg.describe(6)}; sig leaves {sig.describe(4)}; no encoder on either slice")
    ctx.count("R01.3/entry-sites", n, 5, "(entry, verify site) pairs")


# ----------------------------------------------------------------------------------------------- R01.4
def r01_4(ctx) -> None:
    """the decoded payload / protected header stored on the returned object come from the same received
    segments that form the verified signing input"""
    eng = ctx.eng
    P = eng.prog
    compact_cls = [P.cls("rfc7515.model:CompactSignature")]
    json_cls = [P.cls("rfc7515.model:FlattenedJSONSignature"), P.cls("rfc7515.model:GeneralJSONSignature")]
    member_cls = [P.cls("rfc7515.model:HeaderMember")]
    n = 0
    for E in entries(eng, JWS_CONSUME):
        scope = scope_of(eng, E)
        compact = "compact" in E.name
        queries = []
        if compact:
            queries.append(("payload", compact_cls, "payload", (), [("idx", 1), ("param", "payload")]))
            queries.append(("protected header", compact_cls, "protected", (("key", "alg"),), [("idx", 0)]))
        else:
            queries.append(("payload", json_cls, "payload", (), [("key", "payload")]))
            queries.append(("protected header", member_cls, "protected", (("key", "alg"),), [("key", "protected")]))
        for what, classes, attr, path, expect in queries:
            res = eng.flow.slice_field(classes, attr, scope, [E], path)
            have = set()
            others = []
            for l in res.leaves:
                if l.kind in ("const", "func", "class"):
                    continue
                if l.kind == "param" and l.name.startswith(E.short + "."):
                    pn = leaf_param_name(l)
                    hops = [h for h in leaf_hops(l) if h != ("key", "signatures")]
                    got = hops[-1] if hops else None
                    if pn in DETACHED_PARAMS:
                        got = ("param", "payload")
                    if got is not None and pn in TOKEN_PARAMS | DETACHED_PARAMS:
                        have.add(got)
                        continue
                if l.kind == "param" and ".__init__." in l.name:
                    continue  # object constructed outside the entry's scope (other serializations)
                others.append(l)
            n += 1
            inst = f"{E.short} :: returned {what}"
            wrong = [h for h in have if h not in expect]
            if wrong or others or not have:
                ctx.fail("R01.4", E, None, f"the returned {what} does not (only) come from the received segment "
                         f"{expect}: got {sorted(have)} other={sorted(repr(o) for o in others)[:5]}",
                         construct=f"returned {what} [{E.short}]", slice=res.describe())
            else:
                ctx.ok("R01.4", inst, f"leaves {sorted(have)} = verified segment; decoders: "
                       + ",".join(sorted(x for x in res.call_names() if "decode" in x or "loads" in x)))
    ctx.count("R01.4", n, 8, "returned-field queries")


# ----------------------------------------------------------------------------------------------- R01.5
def _b64_read_kind(node: ast.AST) -> str:
    """identifies a read of the b64 member independently of variable names and of how the surrounding branch is spelled"""
    if isinstance(node, ast.Compare):
        return "membership test of 'b64'"
    if isinstance(node, ast.Subscript):
        return "subscript ['b64']"
    return "lookup .get('b64')"


def r01_5(ctx) -> None:
    """reads of header member "b64" that steer payload processing must not see the unprotected header"""
    eng = ctx.eng
    P = eng.prog
    validators = set()
    for c in P.classes.values():
        f = c.methods.get("check_header")
        if f is not None:
            validators.update(eng.cg.reachable([f]))
    n = 0
    for E in entries(eng, JWS_CONSUME):
        scope = scope_of(eng, E)
        for fn in scope:
            if fn in validators or fn.name == "<module>":
                continue
            for node in fn_nodes(fn):
                target = None
                if isinstance(node, ast.Compare) and len(node.ops) == 1 and isinstance(node.ops[0], (ast.In, ast.NotIn)) \
                        and is_const(node.left, "b64") is False and const_value(node.left) == "b64":
                    target = node.comparators[0]
                elif isinstance(node, ast.Subscript) and const_value(node.slice) == "b64" and isinstance(node.ctx, ast.Load):
                    target = node.value
                elif isinstance(node, ast.Call) and isinstance(node.func, ast.Attribute) and node.func.attr in ("get", "pop") \
                        and node.args and const_value(node.args[0]) == "b64":
                    target = node.func.value
                if target is None:
                    continue
                n += 1
                res = eng.flow.slice(fn, target, scope, [E], (("key", "b64"),))
                unprot = [l for l in res.leaves if l.kind == "param" and any(st == ("key", "header") for st in l.path)]
                if unprot and isinstance(node, ast.Compare):
                    # a *rejection* of b64 in the unprotected header is exactly what the property asks for
                    tn = cfg_of(fn).node_of(node)
                    if tn is not None and tn.kind == "test":
                        present = "true" if isinstance(node.ops[0], ast.In) else "false"
                        if not can_reach_exit(cfg_of(fn), succ_by_label(cfg_of(fn), tn, present)):
                            ctx.ok("R01.5", f"{E.short} -> {fn.short}:{norm(node)}", "unprotected b64 is refused (branch only raises)")
                            continue
                if unprot:
                    ctx.fail("R01.5", fn, node, "the unencoded-payload switch \"b64\" is read from a view that includes the "
                             "unprotected header (not integrity protected): " + ", ".join(sorted(repr(l) for l in unprot)[:3]),
                             construct=f"{_b64_read_kind(node)} [{E.short}]", slice=res.describe())
                else:
                    ctx.ok("R01.5", f"{E.short} -> {fn.short}:{norm(node)}", "leaves " + res.describe(5))
    ctx.count("R01.5", n, 4, "reads of the b64 header member on consume paths")


# ----------------------------------------------------------------------------------------------- R01.6
def _returns_of(fn: FunctionInfo):
    return [r for r in cfg_of(fn).returns() if cfg_of(fn).is_reachable(r)]


def r01_6(ctx) -> None:
    eng = ctx.eng
    vimpls = impls(eng, "rfc7515.model:JWSAlgModel", "verify")
    ctx.count("R01.6", len(vimpls), 6, "JWSAlgModel.verify implementations")
    for V in vimpls:
        cfg = cfg_of(V)
        pp = V.pos_params
        if len(pp) < 4:
            ctx.fail("R01.6", V, V.node, "verify() does not take (msg, sig, key)", construct="signature of verify")
            continue
        p_msg, p_sig, p_key = pp[1], pp[2], pp[3]
        rets = _returns_of(V)
        if any(lab == "fall" for _, lab in cfg.normal_exits()):
            ctx.fail("R01.6", V, V.node, "verify() can fall off its end (returns None)", construct="fall-through")
        nonfalse = [r for r in rets if not is_const(r.ast.value, False)]  # type: ignore[union-attr]
        inst = f"{V.short}"
        if not nonfalse:
            ctx.ok("R01.6", inst, "(a) every return is the constant False: never verifies")
            continue
        ok = True
        idiom = None
        for r in nonfalse:
            v = r.ast.value  # type: ignore[union-attr]
            if is_const(v, True):
                idiom = idiom or "primitive"
                if not _primitive_idiom(ctx, eng, V, cfg, r, p_msg, p_sig, p_key):
                    ok = False
            else:
                idiom = idiom or "mac"
                if not _mac_idiom(ctx, eng, V, v, p_msg, p_sig, p_key):
                    ok = False
        if ok:
            ctx.ok("R01.6", inst, f"({'b' if idiom == 'mac' else 'c'}) {idiom} idiom: verdict is the primitive's / "
                   "comparison's, both msg and sig reach it, key via get_op_key")


def _mac_idiom(ctx, eng, V, v, p_msg, p_sig, p_key) -> bool:
    # return <compare>(sig, mac(msg, key))
    a = b = None
    if isinstance(v, ast.Call):
        s = eng.cg.site_of.get(id(v))
        if s is not None and any(x.endswith("compare_digest") for x in s.ext) and len(v.args) == 2:
            a, b = v.args
    elif isinstance(v, ast.Compare) and len(v.ops) == 1 and isinstance(v.ops[0], ast.Eq):
        a, b = v.left, v.comparators[0]
    elif isinstance(v, ast.UnaryOp) and isinstance(v.op, ast.Not) and isinstance(v.operand, ast.Compare) \
            and len(v.operand.ops) == 1 and isinstance(v.operand.ops[0], ast.NotEq):
        a, b = v.operand.left, v.operand.comparators[0]
    if a is None:
        ctx.fail("R01.6", V, v, "the verdict is neither a constant, a primitive's verdict nor a comparison of the "
                 "received signature with a MAC computed here")
        return False
    sa = (derives_from_param(eng, V, a, p_sig), derives_from_param(eng, V, a, p_msg), derives_from_param(eng, V, a, p_key))
    sb = (derives_from_param(eng, V, b, p_sig), derives_from_param(eng, V, b, p_msg), derives_from_param(eng, V, b, p_key))
    sig_side, mac_side = (a, b) if sa[0] else (b, a)
    s_sig = sa if sa[0] else sb
    s_mac = sb if sa[0] else sa
    good = True
    if not s_sig[0] or s_sig[1] or s_sig[2]:
        ctx.fail("R01.6", V, v, "one side of the comparison must be exactly the received signature")
        good = False
    if not (s_mac[1] and s_mac[2]) or s_mac[0]:
        ctx.fail("R01.6", V, v, "the other side must be a MAC computed from the message and the key (and not from the signature)")
        good = False
    # the MAC is computed by an external keyed primitive
    scope = [V]
    res = eng.flow.slice(V, mac_side, scope, [V])
    prim = [x for x in res.call_names() if x.startswith("hmac.") or ".hmac." in x or "HMAC" in x]
    if not prim:
        ctx.fail("R01.6", V, v, "no keyed MAC primitive (hmac) on the computed side: " + str(sorted(res.call_names()))[:120])
        good = False
    if not res.passes("get_op_key"):
        ctx.fail("R01.6", V, v, "the MAC key is not obtained through key.get_op_key(...)")
        good = False
    # the MAC is a function of (message, key, hash) only: nothing kept on the (shared) algorithm object takes part
    wide = [f for f in eng.cg.reachable([V]) if f.module is V.module]
    res2 = eng.flow.slice(V, mac_side, wide, [V])
    own = {c.name for c in ([V.cls] + list(V.cls.mro))} if V.cls is not None else set()
    state = sorted(f for f in res2.fields if f.split(".")[0] in own and f.split(".")[-1] not in ("hash_alg",))
    if state:
        ctx.fail("R01.6", V, v, f"the MAC that the signature is compared with depends on state kept on the algorithm object ({state}): it is not a function of the message and "
                 "the key resolved for this token alone (e.g. a keyed state cached under the kid of another key)", construct=f"MAC depends on {state}")
        good = False
    return good


def _primitive_idiom(ctx, eng, V, cfg, r, p_msg, p_sig, p_key) -> bool:
    # candidates: statements calling an external *.verify with msg and sig flowing in
    prims: List[CNode] = []
    for s in eng.cg.calls_in(V):
        if isinstance(s.node, ast.Call) and s.attr == "verify" and not s.callees and s.kind == "ext":
            args = list(s.node.args) + [k.value for k in s.node.keywords]
            has_msg = any(derives_from_param(eng, V, a, p_msg) for a in args)
            has_sig = any(derives_from_param(eng, V, a, p_sig) for a in args)
            recv_key = derives_from_param(eng, V, s.node.func.value, p_key)  # type: ignore[union-attr]
            if has_msg and has_sig and recv_key:
                n = cfg.node_of(s.node)
                if n is not None:
                    prims.append(n)
                # the signature argument is the received octet string itself - or, for ECDSA, its DER re-encoding of the two halves;
                # never a padded / stripped / otherwise "normalised" copy (the primitive decides about malformed lengths)
                for a in args:
                    if derives_from_param(eng, V, a, p_sig):
                        txts = resolve_all(eng, V, a)
                        rebound = any(isinstance(x, (ast.Assign, ast.AugAssign, ast.AnnAssign)) and any(isinstance(t_, ast.Name) and t_.id == p_sig for t_ in
                                      (x.targets if isinstance(x, ast.Assign) else [x.target])) for x in fn_nodes(V))
                        exact = txts == [p_sig] and not rebound
                        if rebound:
                            txts = [f"{p_sig} (re-bound inside verify)"]
                        der = len(txts) == 1 and txts[0].startswith("encode_dss_signature(decode_int(") and f"{p_sig}[" in txts[0]
                        if not (exact or der):
                            ctx.fail("R01.6", V, a, f"the signature given to the verification primitive is not the received signature but `{txts[0][:80]}`: "
                                     "a modified signature (e.g. with octets removed) can be completed into an accepted one", construct=f"signature argument of {V.short}")
    if not prims:
        ctx.fail("R01.6", V, r.ast, "`return True` without an external verify(sig, msg) primitive fed with both the "
                 "received message and signature on a key-derived object")
        return False
    good = True
    if not cfg.must_pass(cfg.entry, r, prims):
        w = cfg.path_avoiding(cfg.entry, r, prims)
        ctx.fail("R01.6", V, r.ast, "`return True` is reachable without the primitive having accepted",
                 path=[repr(x) for x in (w or [])][:10])
        good = False
    for p in prims:
        for h, lab in cfg.succ[p]:
            if lab != "exc":
                continue
            reach = cfg.reachable(h, prims)
            for r2 in cfg.returns():
                if r2 in reach and not is_const(r2.ast.value, False):  # type: ignore[union-attr]
                    ctx.fail("R01.6", V, r2.ast, "an exception of the verification primitive leads to a non-False return")
                    good = False
    return good


def _ec_length_guard(ctx) -> None:
    """ECDSA: a `return False` guarded by len(sig) != 2*ceil(bits/8) precedes the R||S split"""
    eng = ctx.eng
    EC = eng.prog.cls("rfc7518.jws_algs:ECAlgModel")
    V = EC.methods.get("verify")
    if V is None:
        raise AnalysisError("ECAlgModel.verify vanished")
    cfg = cfg_of(V)
    p_sig = V.pos_params[2]
    guard = None
    for t in cfg.nodes:
        if t.kind != "test" or not isinstance(t.ast, ast.Compare) or len(t.ast.ops) != 1:
            continue
        c = t.ast
        sides = [c.left, c.comparators[0]]
        lens = [x for x in sides if isinstance(x, ast.Call) and isinstance(x.func, ast.Name) and x.func.id == "len"
                and x.args and norm(x.args[0]) == p_sig]
        if not lens:
            continue
        other = sides[1] if sides[0] is lens[0] else sides[0]
        if isinstance(c.ops[0], ast.NotEq):
            bad_label = "true"
        elif isinstance(c.ops[0], ast.Eq):
            bad_label = "false"
        else:
            continue
        # the mismatching branch must not reach a non-False return
        okb = True
        for s in succ_by_label(cfg, t, bad_label):
            reach = cfg.reachable(s)
            for r in cfg.returns():
                if r in reach and not is_const(r.ast.value, False):  # type: ignore[union-attr]
                    okb = False
        if okb:
            guard = (t, other)
    if guard is None:
        ctx.fail("R01.6", V, V.node, "no length guard `len(sig) != 2*size -> return False` before splitting R||S",
                 construct="EC signature length guard")
        return
    t, other = guard
    # the split (slicing of sig) must come after the guard
    for n in fn_nodes(V):
        if isinstance(n, ast.Subscript) and isinstance(n.slice, ast.Slice) and norm(n.value) == p_sig:
            cn = cfg.node_of(n)
            if cn is not None and not cfg.dominates(t, cn):
                ctx.fail("R01.6", V, n, "the signature is split before its length was checked")
                return
    # both halves are used: sig[:L] and sig[L:] with the same L
    halves = [n for n in fn_nodes(V) if isinstance(n, ast.Subscript) and isinstance(n.slice, ast.Slice) and norm(n.value) == p_sig]
    lo = [h for h in halves if h.slice.lower is None and h.slice.upper is not None]
    hi = [h for h in halves if h.slice.lower is not None and h.slice.upper is None]
    if not lo or not hi or norm(lo[0].slice.upper) != norm(hi[0].slice.lower):
        ctx.fail("R01.6", V, V.node, "R and S are not the two complementary halves sig[:L], sig[L:]", construct="EC R||S split")
        return
    L = norm(lo[0].slice.upper)
    if L not in norm(other) or "2" not in norm(other):
        ctx.fail("R01.6", V, t.ast, f"the guarded length is not twice the half length {L}")
        return
    ctx.ok("R01.6", f"{V.short} :: {norm(t.ast)}", "length guard dominates the split; halves are complementary")


# ----------------------------------------------------------------------------------------------- R01.7
def r01_7b(ctx) -> None:
    """R01.7 (second clause)  "every payload octet string" reaches verification: in the JWS extractors the only refusal that depends on the payload member is the
    failure of its base64url decoding.  A test of the member's truthiness / emptiness / length that leads to a raise refuses a well-formed token
    (the empty payload is a payload)."""
    eng = ctx.eng
    n = 0
    for short in ("rfc7515.json:extract_general_json", "rfc7515.json:extract_flattened_json", "rfc7515.compact:extract_compact"):
        fn = eng.prog.func(short)
        cfg = cfg_of(fn)
        vp = fn.pos_params[0]
        for t in cfg.nodes:
            if t.kind != "test":
                continue
            texts = resolve_all(eng, fn, t.ast)
            about = [x for x in texts if ("['payload']" in x or ".get('payload'" in x or "payload_segment" in x or
                                          any(isinstance(y, ast.Name) and y.id in ("payload", "payload_segment") for y in ast.walk(t.ast)))]
            if not about:
                continue
            n += 1
            for lab in ("true", "false"):
                succ = succ_by_label(cfg, t, lab)
                if succ and not can_reach_exit(cfg, succ):
                    # membership of the key itself ('payload' in value) is about the shape of the serialization, not about the payload's value
                    if isinstance(t.ast, ast.Compare) and len(t.ast.ops) == 1 and isinstance(t.ast.ops[0], (ast.In, ast.NotIn)) and const_value(t.ast.left) == "payload":
                        continue
                    ctx.fail("R01.7", fn, t.ast, f"{fn.short} refuses a token on a test of its payload member (`{norm(t.ast)[:60]}`): payloads that are valid octet strings "
                             "(the empty one) never reach verification", construct=f"payload-dependent refusal in {fn.short}")
    ctx.ok("R01.7", "extractors :: payload-dependent refusals", f"{n} tests about the payload member, none of them leads to a refusal")


def r01_7(ctx) -> None:
    """the payload part of every signing input is the payload that is returned: either the returned object's own `.payload`
    field, or the received segment that the extractor pairs with it (payload = decode(S); segments['payload'] = S)"""
    from ..terms import Terms, show, alts, K
    eng = ctx.eng
    T = Terms(eng)
    n = 0
    for s in _verify_sites(eng):
        fn = s.fn
        t = T.of(fn, s.node.args[0])
        n += 1
        inst = f"{fn.short} :: payload part of {norm(s.node)[:40]}"
        if t[0] != "CAT" or K(b".") not in t[1]:
            ctx.fail("R01.7", fn, s.node, f"signing input is not <header> '.' <payload>: {show(t)}", construct=f"signing input shape at {fn.short}")
            continue
        i = list(t[1]).index(K(b"."))
        P = t[1][i + 1:]
        ok = len(P) == 1
        why = show(("CAT", tuple(P))) if len(P) != 1 else show(P[0])
        if ok:
            for a in alts(P[0]):
                if a[0] != "LEAF":
                    ok = False
                    continue
                leaf = a[1]
                if leaf.endswith(".payload") or leaf.endswith(".segments['payload']"):
                    continue
                if leaf in fn.params:
                    # every caller passes the paired segment
                    for cs in eng.cg.callers.get(fn, []):
                        arg = eng.cg.arg_for_param(cs, fn, leaf)
                        ta = T.of(cs.fn, arg) if arg is not None else ("LEAF", "?")
                        if not (ta[0] == "LEAF" and ta[1].endswith(".segments['payload']")):
                            ok = False
                            why = f"caller {cs.fn.short} passes {show(ta)}"
                    continue
                ok = False
        ctx.check(ok, "R01.7", fn, s.node, inst, f"the payload octets that are verified ({why}) are not the returned object's payload field or its paired received segment: "
                  "what is verified and what is returned can differ", "payload part = obj.payload / obj.segments['payload']", construct=f"verified payload at {fn.short}")
    # modules whose verify sites check the returned object's own .payload field (a caller-supplied detached payload is then
    # both what is verified and what is returned)
    field_sites = set()
    for s in _verify_sites(eng):
        t = T.of(s.fn, s.node.args[0])
        if t[0] == "CAT" and K(b".") in t[1]:
            P0 = t[1][list(t[1]).index(K(b".")) + 1:]
            if len(P0) == 1 and all(a[0] == "LEAF" and a[1].endswith(".payload") for a in alts(P0[0])):
                field_sites.add(s.fn.module.short)
    # extractor pairing
    P_ = eng.prog
    classes = [P_.cls("rfc7515.model:CompactSignature"), P_.cls("rfc7515.model:FlattenedJSONSignature"), P_.cls("rfc7515.model:GeneralJSONSignature")]
    m = 0
    scope = set()
    for E in entries(eng, JWS_CONSUME):
        scope.update(scope_of(eng, E))
    for fn in sorted(scope, key=lambda f: f.qualname):
        ctors = [c for c in eng.cg.calls_in(fn) if c.kind == "ctor" and isinstance(c.node, ast.Call) and any(eng.cg.class_by_fullname(x) in classes for x in c.recv_classes)]
        if not ctors:
            continue
        segs = []
        for node in fn_nodes(fn):
            if isinstance(node, ast.Dict):
                par = eng.prog.parent(node)
                tgt_ok = (isinstance(par, ast.Assign) and norm(par.targets[0]).endswith(".segments")) or \
                    (isinstance(par, ast.Call) and isinstance(par.func, ast.Attribute) and par.func.attr == "update" and norm(par.func.value).endswith(".segments"))
                if tgt_ok:
                    for k, v in zip(node.keys, node.values):
                        if k is not None and const_value(k) == "payload":
                            segs.append(v)
        for c in ctors:
            if len(c.node.args) < 2:
                continue
            m += 1
            pt = T.of(fn, c.node.args[1])
            good = bool(segs)
            detached_ok = pt[0] == "LEAF" and pt[1] in fn.params and fn.module.short in field_sites
            for sv in segs:
                st = T.of(fn, sv)
                pair = any(a == st or a == ("B64D", st) for a in alts(pt))
                if not pair and not detached_ok:
                    good = False
            # a caller-supplied detached payload (RFC 7797) is returned *and* verified: it is obj.payload itself
            ctx.check(good or not segs and False, "R01.7", fn, c.node, f"{fn.short} :: {norm(c.node)[:50]}", f"the extractor does not pair the returned payload ({show(pt)}) with the stored payload segment "
                      f"({[show(T.of(fn, x)) for x in segs]})", "payload = [decode of] the stored payload segment", construct=f"payload pairing in {fn.short}")
    ctx.count("R01.7", n + m, 8, "verify sites + extractor constructions")


def r01_8(ctx) -> None:
    """what was received is kept per token: every container attribute of the JWS message objects (segments, signatures, ...) is
    bound per instance - a class-level container would be one object for all tokens, and the octets verified for one token could be
    the octets received for another"""
    eng = ctx.eng
    n = 0
    for c in eng.prog.mod("rfc7515.model").classes:
        if not any(m in c.methods for m in ("headers", "set_kid")) and not c.name.endswith("Signature"):
            continue
        for attr, v in c.class_attrs.items():
            if v is None or isinstance(v, (ast.Constant, ast.Lambda, ast.Tuple, ast.JoinedStr)):
                continue
            if not isinstance(v, (ast.Dict, ast.List, ast.Set, ast.Call, ast.ListComp, ast.DictComp, ast.SetComp)):
                continue
            n += 1
            own = False
            for k in c.mro:
                for m in k.methods.values():
                    sn = m.self_name
                    if not sn:
                        continue
                    for x in fn_nodes(m):
                        tgs = x.targets if isinstance(x, ast.Assign) else ([x.target] if isinstance(x, ast.AnnAssign) and x.value is not None else [])
                        if m.name == "__init__" and any(isinstance(t, ast.Attribute) and t.attr == attr and norm(t.value) == sn for t in tgs):
                            own = True
            ctx.check(own, "R01.8", c.module.body_fn, v, f"{c.short}.{attr}", f"{c.name}.{attr} is a class-level container that __init__ never replaces: all tokens share it, so "
                      "what is verified for one token can be what was received for another", "self." + attr + " = ... in __init__", construct=f"class-level container {c.name}.{attr}")
    # (zero such attributes is the healthy state; the count is informational)
    ctx.ok("R01.8", "JWS message classes", f"{n} class-level container attribute(s) on the JWS message classes, each replaced per instance")


def r01_18(ctx) -> None:
    """R01.18  "over exactly the received protected-header octets": the flattened readers keep a received `protected` / `header` member whenever it is
    PRESENT in the input - `if "protected" in value: sig["protected"] = value["protected"]`.  A test of the decoded member's truthiness instead drops a
    protected header that decodes to `{}` from the signing input: the token then verifies with or without it."""
    from ..cfg import cfg_of
    eng = ctx.eng
    n = 0
    for short in ("rfc7515.json:extract_flattened_json", "rfc7797.json:_extract_json", "rfc7797.json:deserialize_json"):
        try:
            fn = eng.prog.func(short)
        except AnalysisError:
            continue
        if not fn.pos_params:
            continue
        vp = fn.pos_params[0]
        cfg = cfg_of(fn)
        for x in fn_nodes(fn):
            if not (isinstance(x, ast.Assign) and len(x.targets) == 1 and isinstance(x.targets[0], ast.Subscript) and const_value(x.targets[0].slice) in ("protected", "header")
                    and isinstance(x.value, ast.Subscript) and norm(x.value.value) == vp and const_value(x.value.slice) == const_value(x.targets[0].slice)):
                continue
            k = const_value(x.targets[0].slice)
            sn = cfg.node_of(x)
            if sn is None:
                continue
            n += 1
            deciding = []
            for t in cfg.nodes:
                if t.kind != "test" or t.ast is None:
                    continue
                r_true = sn in cfg.reachable(cfg.entry, edge_filter=lambda a, b, lab, _t=t: not (a is _t and lab == "false"))
                r_false = sn in cfg.reachable(cfg.entry, edge_filter=lambda a, b, lab, _t=t: not (a is _t and lab == "true"))
                if r_true != r_false and any((isinstance(y, ast.Constant) and y.value == k) or (isinstance(y, ast.Attribute) and y.attr == k) or (isinstance(y, ast.Name) and y.id == k)
                                             for y in ast.walk(t.ast)):
                    deciding.append((t, r_true))
            ok = bool(deciding) and all(isinstance(t.ast, ast.Compare) and len(t.ast.ops) == 1 and isinstance(t.ast.ops[0], ast.In) and const_value(t.ast.left) == k
                                        and norm(t.ast.comparators[0]) == vp and pol for t, pol in deciding)
            ctx.check(ok, "R01.18", fn, x, f"{fn.short} :: received \"{k}\" member kept when present", f"the received \"{k}\" member is kept depending on "
                      f"{[norm(t.ast)[:40] for t, _ in deciding] or 'nothing'}, not on its presence in the input: a member that is present but decodes to an empty object is dropped from what is verified",
                      f'if "{k}" in {vp}: sig["{k}"] = {vp}["{k}"]', construct=f"received {k} member kept when present in {fn.short}")
    ctx.count("R01.18", n, 4, "received protected / header members copied into the signature entry by the flattened readers")


def run(ctx) -> None:
    from .c14 import r14_1 as _r14_1
    ctx.guard_as("R01.13", _r14_1)  # "valid under the key resolved for it": a kid names the key whose kid EQUALS it (no suffix / prefix / case match)
    from .common import forwarding_discipline
    ctx.guard(forwarding_discipline, "R01.10", ['value', 'payload', 'members', 'member', 'find_key', 'public_key'], 35, "jws")  # arguments are handed on under their own name (generic routing rule, rules/common.py)
    fam = verify_family(ctx.eng)
    ctx.guard(r01_8)
    from .c15 import r15_3
    ctx.guard_as("R01.9", r15_3, "jws")  # the crit defence: a verifier that does not implement b64 does not know the parameter (header tables = RFC tables)
    ctx.extra["verify_family"] = [f.short for f in fam]
    ctx.guard(r01_1, fam)
    ctx.guard(r01_2, fam)
    ctx.guard(r01_3)
    ctx.guard(r01_4)
    ctx.guard(r01_5)
    ctx.guard(r01_6)
    ctx.guard(_ec_length_guard)
    ctx.guard(r01_7)
    ctx.guard(r01_7b)
    # "valid under ... the algorithm named in its header": the verify primitives are called with exactly the RFC 7518 paddings (a PSS verifier that
    # accepts any salt length accepts signatures the named algorithm does not define)
    from .c07 import r07_1
    ctx.guard_as("R01.11", r07_1)
    # "the header members returned are the ones that were signed": key resolution on the consuming side never writes a kid into the received header
    from .c14 import r14_2
    from .common import JWS_CONSUME as _JC, entries as _entries, scope_of as _scope_of
    _within = set()
    for _e in _entries(ctx.eng, _JC + [("jws", "validate_compact")]):
        _within.update(_scope_of(ctx.eng, _e))
    ctx.guard_as("R01.11", r14_2, within=_within)  # only the verifying operations' call sites
    # "under ... the algorithm named in its header": the model the gate hands out is the table entry of exactly the name asked for (no aliasing)
    from .c05 import r05_3
    ctx.guard_as("R01.12", r05_3)
    # "every signature present is valid": an object that carries a `signatures` array is read - and verified - as the general syntax
    from .c19 import r19_2_3 as _r19_2_3
    ctx.guard_as("R01.17", _r19_2_3)  # "truncating or extending a signature is rejected": the decoder of the signature segment is the strict one (nothing after the padding, no foreign characters)
    from .common import syntax_dispatch
    ctx.guard(syntax_dispatch, "R01.16", "rfc7515.json:extract_general_json", "rfc7515.json:extract_flattened_json", "signatures")
    ctx.guard(r01_18)
    ctx.assume("pyca/cryptography verify primitives reject every forged signature (unforgeability is trusted)")
    ctx.assume("receiver types as inferred by mypy; class-hierarchy analysis for dynamic dispatch")
