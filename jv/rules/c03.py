"""C03 - JWS sign-then-verify round trip (claimed for structural clauses only).

R03.1 emit-what-you-sign: the segments placed in the output are the values that form the signing input
R03.2 kid-before-header: key selection (which may record a kid) precedes the encoding of the protected header
R03.3 fixed-width R||S: ceiling division for every bit->octet conversion, same width on both sides, left-padding
R03.7 compact round trip as a term identity (extract o sign, verify) under stated codec laws
R03.6 optional JSON members (protected / header) are written when present
R03.4 detaching touches only the payload        R03.5 the RFC 7797 attach/detach pattern is a full match of [A-Za-z0-9-_~]+
"""
from __future__ import annotations
import ast
import re
from typing import List, Optional, Tuple

from ..program import AnalysisError, FunctionInfo, fn_nodes, norm
from ..callgraph import CallSite
from ..cfg import cfg_of
from ..terms import Terms, show, match, alts, C, K, L, simplify, substitute
from .common import misguarded_member_stores, find_local, resolve_all, JWS_PRODUCE, const_value, entries, impls, is_const, scope_of, sites_calling
from .c05 import _resolve_local
from .c06 import _key_producers


def sign_sites(eng) -> List[CallSite]:
    targets = impls(eng, "rfc7515.model:JWSAlgModel", "sign", include_abstract=True)
    return [s for s in sites_calling(eng, targets) if isinstance(s.node, ast.Call) and s.kind in ("method", "cha") and len(s.node.args) >= 2]


def _split_input(t):
    """signing input term = A || '.' || B  ->  (A, B)"""
    if t[0] != "CAT":
        return None
    parts = list(t[1])
    for i, p in enumerate(parts):
        if p == K(b"."):
            a, b = parts[:i], parts[i + 1:]
            if not a or not b:
                return None
            A = a[0] if len(a) == 1 else ("CAT", tuple(a))
            B = b[0] if len(b) == 1 else ("CAT", tuple(b))
            return A, B
    return None


def r03_1(ctx) -> None:
    eng = ctx.eng
    T = Terms(eng)
    sites = sign_sites(eng)
    ctx.count("R03.1", len(sites), 4, "alg.sign(signing_input, key) sites")
    for s in sites:
        fn = s.fn
        tin = T.of(fn, s.node.args[0])
        sp = _split_input(tin)
        inst = f"{fn.short} :: {norm(s.node)[:40]}"
        if sp is None:
            ctx.fail("R03.1", fn, s.node, f"the signing input is not <header segment> || '.' || <payload segment>: {show(tin)}", construct=f"signing input shape in {fn.short}")
            continue
        A, B = sp
        sig = ("B64U", ("CALL", "sign", (("ANY",), tin, ("ANY",))))
        ok = False
        how = ""
        # (1) compact: a return whose term is A.B.sig (attached) or A..sig (detached)
        rets = [n for n in fn_nodes(fn) if isinstance(n, ast.Return) and n.value is not None]
        for r in rets:
            rt = T.of(fn, r.value)
            for alt in alts(rt):
                if match(alt, C(A, K(b"."), B, K(b"."), sig)):
                    ok = True
                    how = "output = signing input || '.' || BASE64URL(signature)"
        # several alternatives (attached / detached) in one local
        if not ok:
            for r in rets:
                rt = T.of(fn, r.value)
                al = alts(rt)
                if al and all(match(a, C(A, K(b"."), B, K(b"."), sig)) or match(a, C(A, K(b".."), sig)) for a in al) and \
                        any(match(a, C(A, K(b"."), B, K(b"."), sig)) for a in al):
                    ok = True
                    how = "output = header '.' payload '.' sig, or header '..' sig when detached"
        # (2) JSON: members 'protected' / 'payload' / 'signature'
        if not ok:
            mem = {}
            for n in fn_nodes(fn):
                if isinstance(n, ast.Dict):
                    for k, v in zip(n.keys, n.values):
                        if k is not None and isinstance(k, ast.Constant):
                            mem[k.value] = v
                if isinstance(n, ast.Assign) and isinstance(n.targets[0], ast.Subscript) and isinstance(n.targets[0].slice, ast.Constant):
                    mem[n.targets[0].slice.value] = n.value
            if "signature" in mem and match(T.of(fn, mem["signature"]), sig):
                a_alts = [x for x in alts(A) if x != K(b"")]
                pv = [x for x in alts(T.of(fn, mem["protected"])) if x != K(b"")] if "protected" in mem else []
                okp = bool(pv) and all(any(match(x, y) for y in a_alts) for x in pv)
                okb = False
                if "payload" in mem:
                    okb = match(T.of(fn, mem["payload"]), B)
                else:
                    # the payload segment is a parameter: every caller publishes the value it passes
                    if B[0] == "LEAF" and B[1] in fn.params:
                        okb = True
                        for cs in eng.cg.callers.get(fn, []):
                            a = eng.cg.arg_for_param(cs, fn, B[1])
                            cm = {}
                            for n in fn_nodes(cs.fn):
                                if isinstance(n, ast.Dict):
                                    for k, v in zip(n.keys, n.values):
                                        if k is not None and isinstance(k, ast.Constant):
                                            cm[k.value] = v
                            if a is None or "payload" not in cm or not match(T.of(cs.fn, cm["payload"]), T.of(cs.fn, a)):
                                okb = False
                ok = okp and okb
                how = "members protected / payload / signature carry the signed segments"
        ctx.check(ok, "R03.1", fn, s.node, inst, f"the serialization does not emit exactly the segments that were signed (signing input {show(tin)})", how,
                  construct=f"emitted segments vs signing input in {fn.short}")


def r03_2(ctx, rule: str = "R03.2") -> None:
    eng = ctx.eng
    P = eng.prog
    kp = _key_producers(eng)
    jbe = P.func("util:json_b64encode")
    n = 0
    scope = set()
    for e in entries(eng, JWS_PRODUCE):
        scope.update(scope_of(eng, e))
    for fn in sorted(scope, key=lambda f: f.qualname):
        if fn in kp or fn.name == "<module>":
            continue
        ks = [s for s in eng.cg.calls_in(fn) if isinstance(s.node, ast.Call) and s.callees and all(c in kp for c in s.callees)]
        if not ks:
            continue
        cfg = cfg_of(fn)
        knodes = [cfg.node_of(s.node) for s in ks]
        knodes = [k for k in knodes if k is not None]
        # header-encoding sites: json_b64encode here, or calls into functions that encode the header of the same object
        encs = []
        for s in eng.cg.calls_in(fn):
            if not isinstance(s.node, ast.Call) or not s.callees:
                continue
            if jbe in s.callees or any(jbe in eng.cg.reachable([c]) and c.module.short.startswith(("rfc7515", "rfc7797")) and c not in kp for c in s.callees):
                # delegations to another public entry (which selects its own key first) are not header encodings of this activation
                if any(c in [eng.entry(m, nm) for m, nm in JWS_PRODUCE] for c in s.callees):
                    continue
                encs.append(s)
        for s in encs:
            n += 1
            en = cfg.node_of(s.node)
            ok = en is not None and cfg.must_pass(cfg.entry, en, knodes)
            ctx.check(ok, rule, fn, s.node, f"{fn.short} :: {norm(s.node)[:50]}", "the protected header is encoded before the key is selected: a kid recorded by the key selection would "
                      "not be part of the signed header", "key selection dominates the header encoding", construct=f"kid before header at {norm(s.node)[:50]}")
            # the dict that is encoded is the dict the key selection writes the kid into
            if jbe in s.callees and s.node.args and isinstance(s.node.args[0], ast.Name) and s.node.args[0].id in fn.params:
                n += 1
                why = _same_header_object(eng, fn, s.node.args[0].id, ks)
                ctx.check(why is None, rule, fn, s.node, f"{fn.short} :: identity of {norm(s.node)[:40]}", f"the header that is encoded is not the object that receives the kid of the selected key: {why}",
                          "the message object stores the caller's dict itself (or the encoder reads obj.protected)", construct=f"kid target identity at {norm(s.node)[:50]}")
    ctx.count(rule, n, 4, "header encodings in functions that select a key")


def _same_header_object(eng, fn: FunctionInfo, name: str, ks) -> Optional[str]:
    """`name` (a parameter of fn holding the header dict) is encoded directly; the key selection records the kid on a message
    object: that object must hold the very same dict.  Returns a reason when it does not."""
    objs = []
    for k in ks:
        for a in list(k.node.args) + [kw.value for kw in k.node.keywords]:
            if isinstance(a, ast.Name) and a.id not in fn.params:
                objs.append(a.id)
    found = False
    for oname in objs:
        for kind, dn, extra in eng.flow._defs(fn).get(oname, []):
            if kind != "assign" or not isinstance(dn, ast.Call):
                continue
            site = eng.cg.site_of.get(id(dn))
            if site is None or site.kind != "ctor":
                continue
            for init in site.callees:
                if init.cls is None or "set_kid" not in {m for c in init.cls.mro for m in c.methods}:
                    continue
                for pname in init.pos_params[1:]:
                    a = eng.cg.arg_for_param(site, init, pname)
                    if isinstance(a, ast.Name) and a.id == name:
                        found = True
                        sn = init.self_name
                        stores = [x for x in fn_nodes(init) if isinstance(x, ast.Assign) and any(isinstance(t, ast.Attribute) and norm(t.value) == sn for t in x.targets)
                                  and any(isinstance(y, ast.Name) and y.id == pname for y in ast.walk(x.value))]
                        if not stores:
                            return f"{init.short} does not keep its {pname!r} argument"
                        for st in stores:
                            if not (isinstance(st.value, ast.Name) and st.value.id == pname):
                                return f"{init.short} stores `{norm(st.value)}` (a different object) - a kid set on the message never reaches the encoded dict"
    if not found:
        return f"`{name}` is not the header object of the message handed to the key selection"
    return None


def _ceil_div8(e: ast.AST) -> bool:
    t = norm(e).replace(" ", "")
    return (t.startswith("(") and t.endswith("+7)//8")) or t.startswith("-(-") and t.endswith("//8)") or (t.startswith("math.ceil(") and t.endswith("/8)"))


def r03_3(ctx) -> None:
    eng = ctx.eng
    P = eng.prog
    ei = P.func("rfc7518.util:encode_int")
    bits = ei.pos_params[1]
    # every arithmetic use of `bits` in encode_int is a ceiling division; the hex string is left padded
    divs = [n for n in fn_nodes(ei) if isinstance(n, ast.BinOp) and isinstance(n.op, (ast.FloorDiv, ast.Div)) and bits in norm(n)]
    ok = bool(divs) and all(_ceil_div8(d) for d in divs if isinstance(d.right, ast.Constant) and d.right.value == 8)
    pad = any(isinstance(n, ast.BinOp) and isinstance(n.op, ast.Mod) and isinstance(n.left, ast.Constant) and n.left.value == "%0*x" for n in fn_nodes(ei)) or \
        any(isinstance(n, ast.Call) and isinstance(n.func, ast.Attribute) and n.func.attr == "to_bytes" for n in fn_nodes(ei))
    ctx.check(ok and pad, "R03.3", ei, ei.node, ei.short, "encode_int does not produce exactly ceil(bits / 8) octets, left padded with zeros", "length = ((bits + 7) // 8) * 2 hex digits, '%0*x'",
              construct="encode_int width")
    EC = P.cls("rfc7518.jws_algs:ECAlgModel")
    sg, vf = EC.methods.get("sign"), EC.methods.get("verify")
    if sg is None or vf is None:
        raise AnalysisError("ECAlgModel.sign / verify vanished")
    # sign: encode_int(r, size) + encode_int(s, size) with size = key.curve_key_size
    # EVERY value `sign` returns has that form (seed C03-s: a second return for the octet-aligned curves used a minimal-length encoder,
    # so a signature whose r or s has a leading zero octet came out short - one good return next to it must not discharge the obligation)
    rets = [n for n in fn_nodes(sg) if isinstance(n, ast.Return) and n.value is not None]
    good, bad = [], []
    for r in rets:
        v = r.value
        okr = False
        if isinstance(v, ast.BinOp) and isinstance(v.op, ast.Add) and all(isinstance(x, ast.Call) and norm(x.func) == "encode_int" and len(x.args) == 2 for x in (v.left, v.right)):
            w1 = _resolve_local(eng, sg, v.left.args[1])
            w2 = _resolve_local(eng, sg, v.right.args[1])
            a1, a2 = norm(v.left.args[0]), norm(v.right.args[0])
            if w1 == w2 and w1.endswith(".curve_key_size") and a1 != a2:
                okr = True
        (good if okr else bad).append(r)
    ctx.check(bool(good) and not bad, "R03.3", sg, (bad[0] if bad else sg.node), f"{sg.short} :: R||S",
              "the ECDSA signature is not encode_int(r, curve_key_size) || encode_int(s, curve_key_size)" + (f" on the return at line {bad[0].lineno}: `{norm(bad[0].value)[:120]}`" if bad else ""),
              "R and S each ceil(bits/8) octets on every return of sign", construct="EC sign R||S widths")
    # DER <-> raw conversion
    dec = [s for s in eng.cg.calls_in(sg) if any(x.endswith("decode_dss_signature") for x in s.ext)]
    enc = [s for s in eng.cg.calls_in(vf) if any(x.endswith("encode_dss_signature") for x in s.ext)]
    ctx.check(bool(dec) and bool(enc), "R03.3", sg, sg.node, "DER <-> raw", "the DER signature of the primitive is not converted with decode_dss_signature / encode_dss_signature", "decode on sign, encode on verify",
              construct="DER conversion")
    # verify: length = ceil(curve_key_size / 8), r = sig[:length], s = sig[length:]
    okv = False
    sigp, keyp = vf.pos_params[2], vf.pos_params[3]
    for s_ in enc:
        if isinstance(s_.node, ast.Call) and len(s_.node.args) == 2:
            ra, sa = resolve_all(eng, vf, s_.node.args[0]), resolve_all(eng, vf, s_.node.args[1])
            W = f"({keyp}.curve_key_size + 7) // 8"
            if ra == [f"decode_int({sigp}[:{W}])"] and sa == [f"decode_int({sigp}[{W}:])"]:
                okv = True
    ctx.check(okv, "R03.3", vf, vf.node, f"{vf.short} :: half length", "verify does not derive the R / S length as ceil(curve_key_size / 8) (P-521: 66 octets)", "length = (key.curve_key_size + 7) // 8",
              construct="EC verify half length")
    # decode_int is big-endian
    di = P.func("rfc7518.util:decode_int")
    t = [norm(r.value) for r in fn_nodes(di) if isinstance(r, ast.Return) and r.value is not None]
    ctx.check(bool(t) and all(x in ("int(binascii.b2a_hex(s), 16)", "int.from_bytes(s, 'big')") for x in t), "R03.3", di, di.node, di.short, "decode_int is not the unsigned big-endian decoder",
              "int(hex(s), 16)", construct="decode_int")
    # curve_key_size is the curve's bit size
    ck = P.cls("rfc7518.ec_key:ECKey").methods.get("curve_key_size")
    t = [norm(r.value) for r in fn_nodes(ck) if isinstance(r, ast.Return)] if ck else []
    ctx.check(t == ["self.raw_value.curve.key_size"], "R03.3", ck, ck.node if ck else None, "ECKey.curve_key_size", f"curve_key_size is {t}", "raw_value.curve.key_size", construct="curve_key_size")


def r03_4(ctx) -> None:
    eng = ctx.eng
    P = eng.prog
    dc = P.func("rfc7515.compact:detach_compact_content")
    vp = dc.pos_params[0]
    pv = find_local(eng, dc, lambda t_: t_ == f"{vp}.split('.')")
    sp = [d for d in eng.flow._defs(dc).get(pv, []) if d[0] == "assign"]
    ok = len(sp) == 1
    stores = [n for n in fn_nodes(dc) if isinstance(n, ast.Assign) and isinstance(n.targets[0], ast.Subscript)]
    ok = ok and len(stores) == 1 and norm(stores[0].targets[0]) == f"{pv}[1]" and const_value(stores[0].value) == ""
    rets = [norm(n.value) for n in fn_nodes(dc) if isinstance(n, ast.Return)]
    ok = ok and rets == [f"'.'.join({pv})"]
    ctx.check(ok, "R03.4", dc, dc.node, dc.short, "detach_compact_content does not replace exactly the payload segment (index 1) and re-join with '.'", "parts[1] = ''; '.'.join(parts)",
              construct="compact detach")
    dj = P.func("rfc7515.json:detach_json_content")
    vp = dj.pos_params[0]
    rvv = find_local(eng, dj, lambda t_: t_ == f"copy.deepcopy({vp})")
    cp = [d for d in eng.flow._defs(dj).get(rvv, []) if d[0] == "assign"]
    okj = len(cp) == 1
    dels = [n for n in fn_nodes(dj) if isinstance(n, ast.Delete)]
    okj = okj and len(dels) == 1 and norm(dels[0].targets[0]) == f"{rvv}['payload']"
    muts = [n for n in fn_nodes(dj) if isinstance(n, ast.Assign) and isinstance(n.targets[0], ast.Subscript)]
    okj = okj and not muts and [norm(n.value) for n in fn_nodes(dj) if isinstance(n, ast.Return)] == [rvv]
    ctx.check(okj, "R03.4", dj, dj.node, dj.short, "detach_json_content does not delete only 'payload' from a deep copy", "rv = deepcopy(value); del rv['payload']", construct="JSON detach")


def r03_5(ctx) -> None:
    eng = ctx.eng
    P = eng.prog
    m = P.mod("rfc7797.compact")
    pats = []
    for st in m.tree.body:
        if isinstance(st, ast.Assign) and isinstance(st.value, ast.Call) and norm(st.value.func) == "re.compile" and st.value.args and isinstance(st.value.args[0], ast.Constant):
            pats.append((st, st.value.args[0].value))
    if len(pats) != 1:
        raise AnalysisError("rfc7797.compact: expected exactly one compiled pattern")
    st, pat = pats[0]
    import re._parser as rp  # type: ignore
    tree = list(rp.parse(pat))
    ok = False
    why = "unexpected shape"
    # AT_BEGINNING, MAX_REPEAT(1, MAXREPEAT, IN[...]), AT_END
    names = [str(op) for op, _ in tree]
    if len(tree) == 3 and names[0] == "AT" and names[2] == "AT" and names[1] == "MAX_REPEAT":
        lo, hi, sub = tree[1][1]
        if lo == 1 and len(sub) == 1 and str(sub[0][0]) == "IN":
            allowed = set()
            neg = False
            for op, av in sub[0][1]:
                if str(op) == "NEGATE":
                    neg = True
                elif str(op) == "RANGE":
                    allowed |= set(range(av[0], av[1] + 1))
                elif str(op) == "LITERAL":
                    allowed.add(av)
            want = set(map(ord, "abcdefghijklmnopqrstuvwxyzABCDEFGHIJKLMNOPQRSTUVWXYZ0123456789-_~"))
            if not neg and allowed == want and str(tree[0][1]) == "AT_BEGINNING" and str(tree[2][1]) in ("AT_END", "AT_END_STRING"):
                ok = True
            else:
                why = f"character class differs: extra {sorted(map(chr, allowed - want))} missing {sorted(map(chr, want - allowed))}"
    # `$` also matches before a trailing newline: the caller must use fullmatch, or the class must exclude '\n' (it does) - '.' can never appear
    ctx.check(ok, "R03.5", m.body_fn, st, "rfc7797 url-safe pattern", f"the attach/detach pattern is not ^[A-Za-z0-9\\-_~]+$ ({why}): a payload containing '.' could be attached",
              "anchored, one or more of exactly the 65 URL-safe characters", construct="url-safe payload pattern")
    # it is applied to the payload, and a mismatch detaches
    sc = eng.entry("rfc7797", "serialize_compact")
    uses = [s for s in eng.cg.calls_in(sc) if isinstance(s.node, ast.Call) and s.callees and any(c.module is sc.module and any(
        isinstance(x, ast.Name) and x.id == norm(st.targets[0]) for x in ast.walk(c.node)) for c in s.callees)]
    ok2 = bool(uses) and all(norm(s.node.args[0]) == sc.pos_params[1] for s in uses)
    ctx.check(ok2, "R03.5", sc, sc.node, f"{sc.short} :: applies the pattern to the payload", "the attached/detached decision is not taken on the payload", "__is_urlsafe_characters(payload)",
              construct="pattern applied to payload")


def r03_6(ctx) -> None:
    """writers / re-packers of the JWS JSON signature object emit protected / header when (not unless) they are present"""
    eng = ctx.eng
    P = eng.prog
    n = 0
    for mod in ("rfc7515.json", "rfc7797.json"):
        for fn in P.mod(mod).functions:
            stores = [x for x in fn_nodes(fn) if isinstance(x, ast.Assign) and len(x.targets) == 1 and isinstance(x.targets[0], ast.Subscript)
                      and const_value(x.targets[0].slice) in ("protected", "header", "payload", "signature")]
            if not stores:
                continue
            n += 1
            bad = misguarded_member_stores(eng, fn)
            ctx.check(not bad, "R03.6", fn, bad[0][0] if bad else fn.node, f"{fn.short} :: optional members", f"JWS JSON writer: {bad[0][1] if bad else ''}", "if member.header: rv['header'] = member.header",
                      construct=f"optional member guards in {fn.short}")
    # what is signed and what is emitted are decided by one and the same predicate on the protected header
    for mod in ("rfc7515.json", "rfc7797.json"):
        for fn in P.mod(mod).functions:
            if not any(s_.attr == "sign" for s_ in eng.cg.calls_in(fn)):
                continue
            preds = {}
            for t in cfg_of(fn).nodes:
                if t.kind != "test" or t.ast is None:
                    continue
                subj = [x for x in ast.walk(t.ast) if isinstance(x, ast.Attribute) and x.attr == "protected"]
                if subj:
                    preds.setdefault(norm(t.ast).replace(norm(subj[0]), "$.protected"), []).append(t)
            n += 1
            ctx.check(len(preds) <= 1, "R03.6", fn, fn.node, f"{fn.short} :: protected predicate", f"the protected header takes part in the signing input and in the output under different "
                      f"predicates {sorted(preds)}: for a value on which they differ (e.g. an empty dict) the emitted object does not verify", "one predicate for both",
                      construct=f"protected predicate mirror in {fn.short}")
    ctx.count("R03.6", n, 4, "functions writing members of the JSON signature object")


def r03_7(ctx) -> None:
    """term-level round trip of the compact serialization: extract_compact(sign_compact(obj)) and verify_compact, composed
    symbolically over the byte terms of the code under three stated codec laws (jv/terms.py: split of dot-free segments,
    B64D(B64U(x)) = x, JSON header round trip), hand back exactly obj.payload / obj.headers() and verify the produced
    signature over the produced signing input"""
    eng = ctx.eng
    P = eng.prog
    Tm = Terms(eng)
    sc, ec, vc = P.func("rfc7515.compact:sign_compact"), P.func("rfc7515.compact:extract_compact"), P.func("rfc7515.compact:verify_compact")
    rets = [n.value for n in fn_nodes(sc) if isinstance(n, ast.Return) and n.value is not None]
    if len(rets) != 1:
        raise AnalysisError("sign_compact: expected one return")
    prod = Tm.of(sc, rets[0])
    ok = prod[0] == "CAT" and len(prod[1]) == 5
    sign_call = None
    if ok:
        hseg, d1, pseg, d2, sseg = prod[1]
        ok = hseg[0] == "B64J" and pseg[0] == "B64U" and sseg[0] == "B64U" and d1 == d2 == K(b".") and sseg[1][:2] == ("CALL", "sign")
        sign_call = sseg[1] if ok else None
    ctx.check(ok, "R03.7", sc, sc.node, "compact producer term", f"sign_compact does not produce B64J(header) '.' B64U(payload) '.' B64U(sign(...)): {show(prod)}", show(prod), construct="compact producer term")
    if not ok:
        return
    vp = ec.pos_params[0]
    ctor = [n for n in fn_nodes(ec) if isinstance(n, ast.Call) and eng.cg.site_of.get(id(n)) is not None and eng.cg.site_of[id(n)].kind == "ctor" and len(n.args) == 2]
    if len(ctor) != 1:
        raise AnalysisError("extract_compact: message constructor not found")
    hdr = simplify(substitute(Tm.of(ec, ctor[0].args[0]), vp, prod))
    pay = simplify(substitute(Tm.of(ec, ctor[0].args[1]), vp, prod))
    ctx.check(pay == pseg[1], "R03.7", ec, ctor[0], "payload round trip", f"extract_compact(sign_compact(obj)).payload is {show(pay)}, not {show(pseg[1])}", f"= {show(pseg[1])}",
              construct="compact payload round trip")
    ctx.check(hdr == hseg[1], "R03.7", ec, ctor[0], "header round trip", f"extract_compact(sign_compact(obj)).protected is {show(hdr)}, not {show(hseg[1])}", f"= {show(hseg[1])}",
              construct="compact header round trip")
    # the segments kept by the extractor, then what verify_compact hands to the primitive
    segs = {}
    for n in fn_nodes(ec):
        if isinstance(n, ast.Dict):
            for k, v in zip(n.keys, n.values):
                if isinstance(k, ast.Constant) and isinstance(k.value, str):
                    segs[k.value] = simplify(substitute(Tm.of(ec, v), vp, prod))
    vrets = [n.value for n in fn_nodes(vc) if isinstance(n, ast.Return) and n.value is not None]
    okv = len(vrets) == 1
    vt = Tm.of(vc, vrets[0]) if okv else None
    if okv:
        op = vc.pos_params[0]
        for kname, tv in segs.items():
            vt = substitute(vt, f"{op}.segments['{kname}']", tv)
        vt = simplify(vt)
        okv = vt[:2] == ("CALL", "verify") and len(vt[2]) >= 3
        if okv:
            inp, sig = vt[2][1], vt[2][2]
            okv = inp == sign_call[2][1] and sig == sign_call
    ctx.check(okv, "R03.7", vc, vc.node, "signature round trip", "verify_compact(extract_compact(sign_compact(obj))) does not verify the produced signature over the produced signing input: "
              f"{show(vt) if vt else ''}", "alg.verify(I, alg.sign(I, key), key) with I = B64J(header) '.' B64U(payload)", construct="compact signature round trip")
    ctx.assume("codec laws used by R03.7: split('.') of base64url segments; B64D(B64U(x)) = x; JSON round trip of the header object; alg.verify(I, alg.sign(I, k), k')"
               " accepts for matching keys (primitive)")


def run(ctx) -> None:
    from .c14 import r14_2 as _r14_2
    from .common import JWS_CONSUME as _JC, JWS_PRODUCE as _JP, entries as _entries, scope_of as _scope_of
    _within = set()
    for _e in _entries(ctx.eng, _JC + _JP):
        _within.update(_scope_of(ctx.eng, _e))
    ctx.guard_as("R03.15", _r14_2, within=_within)  # a key picked from a set for signing leaves its kid in the token (the verifier's set finds it), whatever the size of the set
    from .common import member_crossing
    ctx.guard(member_crossing, "R03.14", "jws")  # named members are filled from the value of the same name (generic crossing rule, rules/common.py)
    from .common import forwarding_discipline
    ctx.guard(forwarding_discipline, "R03.9", ['payload', 'members', 'member', 'private_key', 'protected', 'find_key', 'value'], 19, "jws")  # arguments are handed on under their own name (generic routing rule, rules/common.py)
    # key given as a key set: the algorithm -> key-type table covers every registered algorithm (C14), and every admissible header is
    # judged by a per-instance registry (C15)
    from .c14 import r14_3
    from .c15 import r15_5
    ctx.guard_as("R03.8", r14_3)
    from .c14 import r14_11
    ctx.guard_as("R03.8", r14_11)
    ctx.guard_as("R03.8", r15_5, "jws")
    from .c14 import r14_4_5
    ctx.guard_as("R03.8", r14_4_5)  # the key picked for signing without a kid is a member of the set as it is now
    # "every payload octet string": the JSON extraction accepts every base64url payload member, the empty one included (C01's extraction rule)
    from .c01 import r01_7
    ctx.guard_as("R03.10", r01_7)
    from .c01 import r01_7b
    ctx.guard_as("R03.10", r01_7b)
    # "every key of the type the algorithm requires", "every admissible header": verify() refuses only on an exact octet length; the header codec
    # encodes every JSON string (C07 R07.12, C19 R19.4 / R19.5)
    from .c07 import r07_12
    from .c19 import r19_4_5
    ctx.guard_as("R03.11", r07_12)
    ctx.guard_as("R03.11", r19_4_5)
    from .common import octet_length_lint
    ctx.guard(octet_length_lint, "R03.13", "jws")  # "every key of the type and curve that algorithm requires": RSA moduli / curve sizes that are not multiples of 8
    from .c04 import r04_14
    ctx.guard_as("R03.12", r04_14, "jws")  # "exactly the original header members": no member is ever removed from a header object
    from .c07 import r07_2 as _r07_2
    ctx.guard_as("R03.17", _r07_2)  # every member of a JSON signature is signed over ITS OWN protected header (none: the empty segment)
    from .c11 import r11_9 as _r11_9
    ctx.guard_as("R03.18", _r11_9)  # a key whose use / key_ops are consistent (`sig` + ["verify"]) is importable: the round trip starts with importing the peer's key
    from .c13 import r13_1 as _r13_1
    ctx.guard_as("R03.16", _r13_1)  # a key without a kid gets its thumbprint as kid: the private key that signs and the public key that verifies must get the SAME one (RFC 7638 members only)
    ctx.guard(r03_7)
    ctx.guard(r03_6)
    ctx.guard(r03_1)
    ctx.guard(r03_2)
    ctx.guard(r03_3)
    ctx.guard(r03_4)
    ctx.guard(r03_5)
    ctx.note("undecided remainder (the bulk of the statement): equality of the recovered payload / header for every payload, key and header value is value-level; "
             "the verification side is covered by C01's provenance rules")
    ctx.assume("the environment's suite cannot run P-521 (test_ES512 always fails here); R03.3 covers the 521-bit width statically")
