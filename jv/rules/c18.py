"""C18 - every encryption and key generation draws fresh randomness of the right size (source / size / no-reuse).

R18.1 IV, CEK, GCM-KW IV, PBES2 salt, generated keys originate at a CSPRNG call made in the activation of the operation
R18.2 the requested sizes fold to the sizes the algorithms need
R18.3 the ephemeral key is generated per recipient on the recipient's curve and stored on the per-call Recipient only
R18.5 the header objects the library writes p2s / p2c / epk / iv / tag into are per-message objects (never a default-argument or module-level object)
R18.6 every store to .ephemeral_key is None or a fresh generate_key(...) result
R18.4 allow-list: `random` only in KeySet.pick_random_key, no seeding; no constant / parameter / field can reach the sinks
("pairwise distinct" as such is statistical and not decided)
"""
from __future__ import annotations
import ast
from typing import Dict, List, Optional, Set, Tuple

from ..program import AnalysisError, ClassInfo, Ext, FunctionInfo, fn_nodes, norm
from ..callgraph import CallSite
from ..cfg import cfg_of
from ..effects import Effects
from ..fold import ExtVal, Inst, is_unknown
from ..spec import tables as T
from .common import (resolve_all, reaching_values, JWE_PRODUCE, can_reach_exit, const_value, entries, impls, is_const, scope_of, sites_calling, succ_by_label)
from .c05 import _resolve_local
from .c20 import shared_classes

ENC = "rfc7516.models:JWEEncModel"
OKP_GEN = ".generate"


def _is_csprng(name: str) -> bool:
    return name in T.CSPRNG or name.endswith("PrivateKey.generate") or name.endswith(".generate") and "asymmetric" in name


def _src_ok(leaf) -> bool:
    return leaf.kind == "source" and (_is_csprng(leaf.name) or leaf.name.split(".")[-1] == "generate")


# ----------------------------------------------------------------------------------------------- R18.1 / R18.4
def r18_1(ctx) -> None:
    eng = ctx.eng
    P = eng.prog
    enc_impls = impls(eng, ENC, "encrypt", include_abstract=True)
    km = P.cls("rfc7516.models:KeyManagement")
    direct = []
    for nm in ("compute_cek", "encrypt_agreed_upon_key", "encrypt_agreed_upon_key_with_tag"):
        direct.extend(eng.prog.implementations(km, nm, include_abstract=True))
    n = 0
    for E in entries(eng, JWE_PRODUCE):
        scope = scope_of(eng, E)
        for s in sites_calling(eng, enc_impls, scope):
            if not isinstance(s.node, ast.Call) or s.kind not in ("method", "cha"):
                continue
            # ---- IV
            iv = None
            cek = None
            for c in s.callees:
                iv = iv or eng.cg.arg_for_param(s, c, "iv")
                cek = cek or eng.cg.arg_for_param(s, c, "cek")
            if iv is None or cek is None:
                raise AnalysisError("enc.encrypt call without iv / cek argument")
            n += 1
            res = eng.flow.slice(s.fn, iv, scope, [E], partial_ok=True)
            bad = [l for l in res.leaves if not _src_ok(l)]
            if res.exploded and not bad:
                raise AnalysisError(f"value-flow slice of the IV exploded at {s.fn.short}")
            # a nonce is used as drawn: it may not be routed through a container that outlives the call (setdefault / get on a segment dict)
            for t_ in resolve_all(eng, s.fn, iv):
                if ".setdefault(" in t_ or "_segments" in t_:
                    bad.append(f"read back from a container: {t_[:70]}")
            ctx.check(not bad and bool(res.leaves), "R18.1", s.fn, s.node, f"{E.short} -> {s.fn.short}: iv of enc.encrypt",
                      f"the IV given to the content encryption does not come only from a CSPRNG call: {sorted(repr(b) for b in bad)[:5]}",
                      "leaves = " + res.describe(4), construct=f"iv of {norm(s.node)[:60]} [{E.short}]")
            # ---- CEK (direct modes are barriers: there the CEK is key material by specification)
            n += 1
            res = eng.flow.slice(s.fn, cek, scope, [E], stop_at=direct)
            bad = []
            for l in res.leaves:
                if _src_ok(l) or l.kind == "barrier":
                    continue
                if l.kind == "const" and l.name in ("b''", "''"):
                    continue  # the initialiser, shown below to be overwritten before any use
                bad.append(l)
            ctx.check(not bad and any(_src_ok(l) for l in res.leaves), "R18.1", s.fn, s.node, f"{E.short} -> {s.fn.short}: cek of enc.encrypt",
                      f"a content-encryption key that is not agreed/direct key material does not come only from a CSPRNG call: {sorted(repr(b) for b in bad)[:5]}",
                      "leaves = " + res.describe(5), construct=f"cek of {norm(s.node)[:60]} [{E.short}]")
    ctx.count("R18.1/enc", n, 4, "(entry, enc.encrypt) iv+cek slices")
    # the b"" initialiser of the CEK cannot be seen by any key-wrapping call
    m = 0
    for E in entries(eng, JWE_PRODUCE):
        for fn in scope_of(eng, E):
            if fn.name == "<module>":
                continue
            cfg = None
            for st in fn_nodes(fn):
                if isinstance(st, (ast.Assign, ast.AnnAssign)) and isinstance(st.value, ast.Constant) and isinstance(st.value.value, (bytes, str)):
                    t = st.targets[0] if isinstance(st, ast.Assign) else st.target
                    if not isinstance(t, ast.Name):
                        continue
                    cekv = t.id
                    if not any(isinstance(s_.node, ast.Call) and s_.attr in T.CRYPTO_OPS and any(isinstance(a_, ast.Name) and a_.id == cekv for a_ in s_.node.args) for s_ in eng.cg.calls_in(fn)):
                        continue
                    cfg = cfg or cfg_of(fn)
                    I = cfg.node_of(st)
                    others = [cfg.node_of(x) for x in fn_nodes(fn) if isinstance(x, (ast.Assign, ast.AnnAssign)) and x is not st
                              and any(isinstance(tt, ast.Name) and tt.id == cekv for tt in (x.targets if isinstance(x, ast.Assign) else [x.target]))]
                    others = [o for o in others if o is not None]
                    for s in eng.cg.calls_in(fn):
                        if isinstance(s.node, ast.Call) and s.attr in T.CRYPTO_OPS and any(isinstance(a, ast.Name) and a.id == cekv for a in s.node.args):
                            U = cfg.node_of(s.node)
                            m += 1
                            # on paths that passed no other assignment the variable still holds the falsy initialiser:
                            # the truthy edge of a test on the bare variable is infeasible there
                            def ef(a, b, lab, _v=cekv):
                                return not (a.kind == "test" and isinstance(a.ast, ast.Name) and a.ast.id == _v and lab == "true")
                            ok = I is not None and U is not None and cfg.must_pass(I, U, others, edge_filter=ef)
                            ctx.check(ok, "R18.1", fn, s.node, f"{fn.short} :: {norm(s.node)[:50]}", "a key-management call can see the constant CEK initialiser",
                                      "a generated / agreed CEK is assigned on every path from the initialiser")
    ctx.count("R18.1/init", m, 1, "uses of the CEK after its constant initialiser")
    # ---- GCM key-wrap IV and PBES2 salt
    gcm = P.cls("rfc7518.jwe_algs:AESGCMAlgModel").methods.get("encrypt_cek")
    pb = P.cls("rfc7518.jwe_algs:PBES2HSAlgModel").methods.get("encrypt_cek")
    if gcm is None or pb is None:
        raise AnalysisError("AESGCMAlgModel.encrypt_cek / PBES2HSAlgModel.encrypt_cek vanished")
    modes = [s for s in eng.cg.calls_in(gcm) if isinstance(s.node, ast.Call) and any(x.endswith("modes.GCM") for x in s.ext)]
    if not modes:
        raise AnalysisError("no GCM(...) in AESGCMAlgModel.encrypt_cek")
    for s in modes:
        res = eng.flow.slice(gcm, s.node.args[0], [gcm], [gcm])
        bad = [l for l in res.leaves if not _src_ok(l)]
        ctx.check(not bad and bool(res.leaves), "R18.1", gcm, s.node, f"{gcm.short} :: GCM iv", f"the AES-GCM key-wrap IV is not purely CSPRNG output: {sorted(repr(b) for b in bad)[:4]}",
                  "leaves = " + res.describe(3), construct="GCM key-wrap iv")
    # salt: every definition of the salt input that is not taken from the caller's header is a CSPRNG call
    kd = [s for s in eng.cg.calls_in(pb) if isinstance(s.node, ast.Call) and s.attr == "compute_derived_key"]
    if not kd:
        raise AnalysisError("PBES2 encrypt_cek does not call compute_derived_key")
    for s in kd:
        a = None
        for c in s.callees:
            a = a or eng.cg.arg_for_param(s, c, "p2s")
        if a is None or not isinstance(a, ast.Name):
            raise AnalysisError("compute_derived_key call without a local p2s")
        defs = [d for d in eng.flow._defs(pb).get(a.id, []) if d[0] == "assign"]
        gen = 0
        for kind, dn, extra in defs:
            site = eng.cg.site_of.get(id(dn)) if isinstance(dn, ast.Call) else None
            if site is not None and not site.callees and any(_is_csprng(x) for x in site.ext):
                gen += 1
                ctx.ok("R18.1", f"{pb.short} :: {a.id} = {norm(dn)[:40]}", "generated salt input = CSPRNG call")
            elif all(".headers()['p2s']" in t_ for t_ in resolve_all(eng, pb, dn)):
                ctx.ok("R18.1", f"{pb.short} :: {a.id} = {norm(dn)[:40]}", "caller-chosen header value (not generated)")
            else:
                ctx.fail("R18.1", pb, dn, "a PBES2 salt input that is neither the caller's header value nor CSPRNG output", construct=f"PBES2 salt input {norm(dn)[:60]}")
        if gen == 0:
            ctx.fail("R18.1", pb, s.node, "no CSPRNG-generated PBES2 salt input when the caller gave none", construct="PBES2 generated salt")
    # ---- key generation
    kb = P.cls("rfc7517.models:BaseKey")
    gens = [f for f in eng.prog.implementations(kb, "generate_key") if not f.is_abstract and f.cls is not kb]
    ctx.count("R18.1/generate_key", len(gens), 4, "generate_key implementations")
    for G in gens:
        ctors = [s for s in eng.cg.calls_in(G) if s.kind == "ctor" and isinstance(s.node, ast.Call) and s.node.args]
        if not ctors:
            ctx.fail("R18.1", G, G.node, "generate_key does not construct a key object", construct="generate_key ctor")
            continue
        for s in ctors:
            res = eng.flow.slice(G, s.node.args[0], eng.cg.reachable([G]), [G])
            srcs = [l for l in res.leaves if _src_ok(l)]
            bad = [l for l in res.leaves if not _src_ok(l) and l.kind in ("const", "field", "unknown") and l.name not in ("None",)]
            # public halves derive from the freshly generated private key: raw_key.public_key()
            ctx.check(bool(srcs) and not [b for b in bad if b.kind != "const"], "R18.1", G, s.node, f"{G.short} :: {norm(s.node)[:40]}",
                      f"the generated key material does not come from a CSPRNG-backed generator: {res.describe(6)}", "raw key <- " + ",".join(sorted({l.name.split('.')[-1] for l in srcs})),
                      construct=f"key material of {norm(s.node)[:50]}")
    # ---- in the activation: no CSPRNG call at import time / in defaults / cached / stored on shared objects
    fx = Effects(P, eng.cg)
    shared = shared_classes(eng)
    k = 0
    for fn in P.all_functions():
        for s in eng.cg.calls_in(fn):
            if not isinstance(s.node, ast.Call) or s.callees:
                continue
            nm = (s.ext or ["?"])[0]
            if not (_is_csprng(nm) or (s.attr == "generate" and "asymmetric" in nm)):
                continue
            k += 1
            inst = f"{fn.short} :: {norm(s.node)[:50]}"
            own = P.owner(s.node)
            if fn.name == "<module>" or own is not fn:
                ctx.fail("R18.1", fn, s.node, "a CSPRNG value is drawn once at import / definition time (module level, class body, default argument or decorator), not per operation")
                continue
            if fn.is_cached or (fn.parent is not None and fn.parent.is_cached):
                ctx.fail("R18.1", fn, s.node, "a CSPRNG value is drawn inside a cached function: it is reused across calls")
                continue
            # stored on a shared object?
            par = P.parent(s.node)
            stored = None
            if isinstance(par, (ast.Assign, ast.AnnAssign)):
                for ef in fx.of(fn):
                    if ef.node is par and any(r.kind in ("self", "cls", "global") and (r.kind == "global" or any(c in shared for c in r.classes)) for r in ef.roots):
                        stored = norm(par)[:60]
            ctx.check(stored is None, "R18.1", fn, s.node, inst, f"a CSPRNG value is stored on shared state ({stored}) and can be reused by later calls",
                      "drawn in a function body, bound to a local / per-call object")
    ctx.count("R18.1/csprng", k, 8, "CSPRNG call sites")
    # locals holding CSPRNG output must not be module-cached via a guard on self (hasattr / is None on self.x)
    # ---- R18.4 allow-list for the `random` module
    r = 0
    for fn in P.all_functions():
        for s in eng.cg.calls_in(fn):
            for x in s.ext:
                if x == "random" or x.startswith("random."):
                    r += 1
                    ok = fn.short == "_keys:KeySet.pick_random_key" and x != "random.seed"
                    ctx.check(ok, "R18.4", fn, s.node, f"{fn.short} :: {x}", f"the non-cryptographic `random` module is used outside KeySet.pick_random_key ({x})",
                              "key selection only")
        for node in fn_nodes(fn):
            if isinstance(node, ast.Attribute) and isinstance(node.value, ast.Name) and node.value.id == "random" and node.attr in ("seed", "setstate"):
                ctx.fail("R18.4", fn, node, "random generator state is (re)set")
    ctx.count("R18.4", r, 1, "uses of the random module")


# ----------------------------------------------------------------------------------------------- R18.2
def _token_bytes_arg(v) -> Optional[int]:
    if isinstance(v, ExtVal) and v.called and v.name in ("secrets.token_bytes", "os.urandom") and v.args and isinstance(v.args[0], int):
        return v.args[0]
    return None


def r18_2(ctx) -> None:
    eng = ctx.eng
    P = eng.prog
    F = eng.folder
    from ..fold import FuncVal
    jwe = F.class_attr(P.cls("rfc7516.registry:JWERegistry"), "algorithms")
    insts: List[Tuple[str, Inst]] = []
    if isinstance(jwe, dict):
        insts.extend(jwe["enc"].items())
    d2 = F.module_value(P.mod("drafts.jwe_chacha20"), "JWE_ENC_MODELS")
    if isinstance(d2, list):
        for i in d2:
            insts.append((F.get_attr(i, "name"), i))
    spec = dict(T.JWE_ENCS)
    spec.update(T.JWE_DRAFT_ENCS)
    ctx.count("R18.2/enc", len(insts), 8, "content-encryption models")
    for name, inst in insts:
        if name not in spec:
            continue
        cek_bits, iv_bits = spec[name][0], spec[name][1]
        for meth, bits, what in (("generate_iv", iv_bits, "IV"), ("generate_cek", cek_bits, "CEK")):
            m_ = inst.cls.lookup(meth)
            if m_ is None:
                raise AnalysisError(f"{inst.cls.name}.{meth} vanished")
            v = F.call(FuncVal(m_, None, inst), [], {})
            got = _token_bytes_arg(v)
            # the size is the model's own: nothing a caller passes can change it
            extra = [p_ for p_ in m_.params if p_ != m_.self_name]
            argsites = [s_ for f_ in P.all_functions() for s_ in eng.cg.calls_in(f_) if m_ in s_.callees and isinstance(s_.node, ast.Call) and (s_.node.args or s_.node.keywords)]
            ctx.check(not extra and not argsites, "R18.2", m_, m_.node, f"{name} {meth} :: parameters", f"{inst.cls.name}.{meth} takes {extra}: the size of the generated {what} can be chosen by the "
                      f"caller ({[norm(s_.node)[:50] for s_ in argsites][:2]}) instead of being exactly the {bits} bits the algorithm requires", f"{meth}(self)", construct=f"{what} size chosen by the caller of {meth}")
            ctx.check_folded(v, got == bits // 8, "R18.2", m_, m_.node, f"{name} {meth}", f"{name}: generated {what} folds to {v!r}; required {bits // 8} octets from a CSPRNG",
                      f"token_bytes({got})", construct=f"{what} size of {name}")
        for attr, bits in (("iv_size", iv_bits), ("cek_size", cek_bits)):
            got = F.get_attr(inst, attr)
            ctx.check(got == bits, "R18.2", None, None, f"{name}.{attr}", f"{name}.{attr} folds to {got!r}, required {bits}", f"= {got}", construct=f"{name}.{attr}")
    # GCM key-wrap IV: 96 bit
    gcm = P.cls("rfc7518.jwe_algs:AESGCMAlgModel").methods["encrypt_cek"]
    tb = [s for s in eng.cg.calls_in(gcm) if isinstance(s.node, ast.Call) and any(x in ("secrets.token_bytes", "os.urandom") for x in s.ext)]
    ok = False
    for s in tb:
        txt = _resolve_local(eng, gcm, s.node.args[0]) if s.node.args else ""
        try:
            val = eval(compile(ast.Expression(ast.parse(txt, mode="eval").body), "<fold>", "eval"), {"__builtins__": {}}, {})
        except Exception:
            val = None
        if val == 12:
            ok = True
    ctx.check(ok, "R18.2", gcm, gcm.node, "A*GCMKW iv size", "the AES-GCM key-wrap IV is not 96 bits", "token_bytes(96 // 8)", construct="GCM key-wrap iv size")
    # PBES2 salt >= 8 octets, default count >= 1000
    pb = P.cls("rfc7518.jwe_algs:PBES2HSAlgModel")
    enc = pb.methods["encrypt_cek"]
    tb = [s for s in eng.cg.calls_in(enc) if isinstance(s.node, ast.Call) and any(x in ("secrets.token_bytes", "os.urandom") for x in s.ext)]
    sizes = [const_value(s.node.args[0]) if s.node.args else None for s in tb]
    ctx.check(bool(sizes) and all(isinstance(x, int) and x >= 8 for x in sizes), "R18.2", enc, enc.node, "PBES2 salt size", f"generated PBES2 salt input sizes {sizes} (>= 8 octets required)",
              f"token_bytes({sizes})", construct="PBES2 salt size")
    p2c = F.class_attr(pb, "DEFAULT_P2C")
    ctx.check(isinstance(p2c, int) and p2c >= 1000, "R18.2", None, None, "PBES2 DEFAULT_P2C", f"default PBES2 iteration count folds to {p2c!r} (>= 1000 required)", f"= {p2c}",
              construct="DEFAULT_P2C")
    # the default is what is used and recorded when the caller gave none
    uses = [n for n in fn_nodes(enc) if isinstance(n, ast.Attribute) and n.attr == "DEFAULT_P2C"]
    ctx.check(bool(uses), "R18.2", enc, enc.node, "PBES2 default count used", "PBES2 encrypt_cek does not use DEFAULT_P2C", "p2c = self.DEFAULT_P2C", construct="DEFAULT_P2C use")
    # every count the library itself chooses (what it records as "p2c" when the header named none) folds to >= 1000, for secrets of every length
    import re as _re
    sn_ = enc.self_name or "self"
    nrec = 0
    for node in fn_nodes(enc):
        if isinstance(node, ast.Call) and isinstance(node.func, ast.Attribute) and node.func.attr in ("add_header", "__setitem__") and len(node.args) == 2 \
                and const_value(node.args[0]) == "p2c":
            a1 = node.args[1]
            rv = reaching_values(enc, a1.id, node) if isinstance(a1, ast.Name) and a1.id not in enc.params else None
            for txt in [t_ for v_ in (rv if rv else [a1]) for t_ in resolve_all(eng, enc, v_)]:
                nrec += 1
                m = _re.fullmatch(rf"{sn_}\.(\w+)", txt)
                val = F.class_attr(pb, m.group(1)) if m else (const_value(ast.parse(txt, mode="eval").body) if txt.lstrip("-").isdigit() else None)
                ctx.check(isinstance(val, int) and not isinstance(val, bool) and val >= 1000, "R18.2", enc, node, f"PBES2 recorded p2c `{txt}`",
                          f"the iteration count the library chooses by itself can be `{txt}` = {val!r} (a default of at least 1000 is required for every secret)", ">= 1000",
                          construct=f"library-chosen p2c {txt}")
    ctx.count("R18.2/p2c", nrec, 1, "iteration counts the library records by itself")
    # oct / RSA / EC / OKP generation arguments
    oct_ = P.cls("rfc7518.oct_key:OctKey").methods["generate_key"]
    cfg = cfg_of(oct_)
    tb = [s for s in eng.cg.calls_in(oct_) if isinstance(s.node, ast.Call) and any(x in ("secrets.token_bytes", "os.urandom") for x in s.ext)]
    kp = oct_.pos_params[1]
    okk = bool(tb) and all(s.node.args and norm(s.node.args[0]) == f"{kp} // 8" for s in tb)
    guard = False
    for t in cfg.nodes:
        if t.kind == "test" and isinstance(t.ast, ast.Compare) and norm(t.ast.left) == f"{kp} % 8" \
                and const_value(t.ast.comparators[0]) == 0 and isinstance(t.ast.ops[0], (ast.NotEq, ast.Eq)):
            bad_lab = "true" if isinstance(t.ast.ops[0], ast.NotEq) else "false"
            if not can_reach_exit(cfg, succ_by_label(cfg, t, bad_lab)) and all(cfg.must_pass(cfg.entry, cfg.node_of(s.node), [t]) for s in tb):
                guard = True
    ctx.check(okk and guard, "R18.2", oct_, oct_.node, "OctKey.generate_key size", "generated oct keys do not have exactly key_size bits (token_bytes(key_size // 8) behind a % 8 guard)",
              "token_bytes(key_size // 8), raise unless key_size % 8 == 0", construct="oct key size")
    rsa = P.cls("rfc7518.rsa_key:RSAKey").methods["generate_key"]
    g = [s for s in eng.cg.calls_in(rsa) if isinstance(s.node, ast.Call) and any(x.endswith("rsa.generate_private_key") for x in s.ext)]
    okr = False
    for s in g:
        kw = {k.arg: k.value for k in s.node.keywords}
        ks = kw.get("key_size") or (s.node.args[1] if len(s.node.args) > 1 else None)
        pe = kw.get("public_exponent") or (s.node.args[0] if s.node.args else None)
        if ks is not None and norm(ks) == rsa.pos_params[1] and pe is not None and const_value(pe) == 65537:
            okr = True
    ctx.check(okr, "R18.2", rsa, rsa.node, "RSAKey.generate_key", "RSA keys are not generated with the requested key_size and e = 65537", "generate_private_key(65537, key_size)",
              construct="RSA generation parameters")
    ecb = P.cls("rfc7518.ec_key:ECBinding").methods["generate_private_key"]
    g = [s for s in eng.cg.calls_in(ecb) if isinstance(s.node, ast.Call) and any(x.endswith("ec.generate_private_key") for x in s.ext)]
    oke = False
    for s in g:
        kw = {k.arg: k.value for k in s.node.keywords}
        cv = kw.get("curve") or (s.node.args[0] if s.node.args else None)
        if cv is not None:
            txt = _resolve_local(eng, ecb, cv)
            if txt == f"{ecb.self_name}._dss_curves[{ecb.pos_params[1]}]()":
                oke = True
    ctx.check(oke, "R18.2", ecb, ecb.node, "ECBinding.generate_private_key", "EC keys are not generated on the requested curve", "generate_private_key(curve=_dss_curves[name]())",
              construct="EC generation curve")
    eck = P.cls("rfc7518.ec_key:ECKey").methods["generate_key"]
    gk = [s for s in eng.cg.calls_in(eck) if isinstance(s.node, ast.Call) and ecb in s.callees]
    ctx.check(bool(gk) and all(s.node.args and norm(s.node.args[0]) == eck.pos_params[1] for s in gk), "R18.2", eck, eck.node, "ECKey.generate_key",
              "ECKey.generate_key does not pass the requested curve on", "binding.generate_private_key(crv)", construct="ECKey.generate_key curve")
    okp = P.cls("rfc8037.okp_key:OKPKey").methods["generate_key"]
    g = [s for s in eng.cg.calls_in(okp) if isinstance(s.node, ast.Call) and s.attr == "generate"]
    okk2 = False
    for s in g:
        txt = _resolve_local(eng, okp, s.node.func.value)  # type: ignore[union-attr]
        if txt == f"PRIVATE_KEYS_MAP[{okp.pos_params[1]}]":
            okk2 = True
    ctx.check(okk2, "R18.2", okp, okp.node, "OKPKey.generate_key", "OKP keys are not generated with the class of the requested curve", "PRIVATE_KEYS_MAP[crv].generate()",
              construct="OKP generation curve")
    km = F.module_value(P.mod("rfc8037.okp_key"), "PRIVATE_KEYS_MAP")
    want = {c: f"{c}PrivateKey" for c in T.OKP_CURVES}
    got = {k: (v.name.split(".")[-1] if isinstance(v, ExtVal) else repr(v)) for k, v in km.items()} if isinstance(km, dict) else {}
    ctx.check(got == want, "R18.2", None, None, "PRIVATE_KEYS_MAP", f"OKP curve table differs: {got}", "4 curves -> their private key classes", construct="PRIVATE_KEYS_MAP")
    curves = F.class_attr(P.cls("rfc7518.ec_key:ECBinding"), "_dss_curves")
    gotc = {k: (v.name.split(".")[-1] if isinstance(v, ExtVal) else repr(v)) for k, v in curves.items()} if isinstance(curves, dict) else {}
    ctx.check(gotc == T.EC_CURVES, "R18.2", None, None, "ECBinding._dss_curves", f"EC curve table differs: {gotc}", "P-256/384/521, secp256k1", construct="_dss_curves")


# ----------------------------------------------------------------------------------------------- R18.3
def r18_3(ctx) -> None:
    eng = ctx.eng
    P = eng.prog
    ka = P.cls("rfc7516.models:JWEKeyAgreement")
    fs = eng.prog.implementations(ka, "prepare_ephemeral_key")
    ctx.count("R18.3", len(fs), 1, "prepare_ephemeral_key implementations")
    for fn in fs:
        rp = fn.pos_params[1]
        gens = [s for s in eng.cg.calls_in(fn) if isinstance(s.node, ast.Call) and s.attr == "generate_key"]
        ok = False
        for s in gens:
            recv = _resolve_local(eng, fn, s.node.func.value)  # type: ignore[union-attr]
            a0 = _resolve_local(eng, fn, s.node.args[0]) if s.node.args else ""
            priv = [k.value for k in s.node.keywords if k.arg == "private"] + list(s.node.args[2:3])
            if recv == f"{rp}.recipient_key" and a0 == f"{rp}.recipient_key.curve_name" and (not priv or is_const(priv[0], True)):
                ok = True
        ctx.check(ok, "R18.3", fn, fn.node, f"{fn.short} :: curve", "the ephemeral key is not generated as a private key on the recipient key's own curve",
                  "recipient_key.generate_key(recipient_key.curve_name, private=True)", construct="ephemeral key curve")
        # stored only on the per-call recipient
        fx = Effects(P, eng.cg)
        bad = []
        stores = 0
        for ef in fx.of(fn):
            if ef.field == "ephemeral_key":
                stores += 1
                if not all(r.kind == "param" and r.name.endswith("." + rp) and not r.via for r in ef.roots):
                    bad.append(norm(ef.node))
            elif any(r.kind in ("self", "cls", "global") for r in ef.roots):
                bad.append(norm(ef.node))
        ctx.check(stores >= 1 and not bad, "R18.3", fn, fn.node, f"{fn.short} :: storage", f"the ephemeral key is kept somewhere other than the per-call Recipient: {bad}",
                  "recipient.ephemeral_key only", construct="ephemeral key storage")
        # generated when absent: the guard must not let a *model-level* key through
        cfg = cfg_of(fn)
        tests = [t for t in cfg.nodes if t.kind == "test" and isinstance(t.ast, ast.Compare) and norm(t.ast.left) == f"{rp}.ephemeral_key"]
        ctx.check(bool(tests) or stores >= 1, "R18.3", fn, fn.node, f"{fn.short} :: per recipient", "ephemeral key handling not per recipient", "guard on recipient.ephemeral_key",
                  construct="ephemeral key guard")


# ----------------------------------------------------------------------------------------------- R18.5
def _mutable_default(d: Optional[ast.AST]) -> bool:
    return isinstance(d, (ast.List, ast.Dict, ast.Set, ast.ListComp, ast.DictComp, ast.SetComp)) or \
        (isinstance(d, ast.Call) and not (isinstance(d.func, ast.Name) and d.func.id in ("frozenset", "tuple")))


def _shared_object_origin(eng, fn: FunctionInfo, e: ast.AST, depth: int, seen: Set[Tuple[int, str]]) -> Optional[str]:
    """why the object denoted by e (in fn) may be one object shared between calls, or None.
    Object identity only (not member values): a parameter is followed to its default and to the arguments of its call sites."""
    if depth > 5:
        return None
    if isinstance(e, ast.IfExp):
        return _shared_object_origin(eng, fn, e.body, depth, seen) or _shared_object_origin(eng, fn, e.orelse, depth, seen)
    if isinstance(e, ast.BoolOp):
        for v in e.values:
            w = _shared_object_origin(eng, fn, v, depth, seen)
            if w:
                return w
        return None
    if not isinstance(e, ast.Name):
        return None  # display / call result / attribute of a per-call object
    name = e.id
    if name in fn.params:
        key = (id(fn), name)
        if key in seen:
            return None
        seen.add(key)
        d = fn.param_default(name)
        if _mutable_default(d):
            return f"default value `{norm(d)}` of parameter {name!r} of {fn.short} (one object for every call that omits it)"
        for s in sites_calling(eng, [fn]):
            a = eng.cg.arg_for_param(s, fn, name)
            if a is not None:
                w = _shared_object_origin(eng, s.fn, a, depth + 1, seen)
                if w:
                    return w
        return None
    if name in eng.cg.local_names(fn):
        for kind, dn, extra in eng.flow._defs(fn).get(name, []):
            if kind == "assign" and not extra and isinstance(dn, ast.AST):
                w = _shared_object_origin(eng, fn, dn, depth, seen)
                if w:
                    return w
        return None
    # a module-level object
    if name in ("None", "True", "False"):
        return None
    return f"module-level object `{name}` (shared by every call)"


def r18_5(ctx) -> None:
    """the header objects that receive the library-written p2s / p2c / epk / iv / tag are per message: a shared one makes
    `if "p2s" not in headers` find the previous message's salt"""
    eng = ctx.eng
    P = eng.prog
    n = 0
    for cname, attr in (("rfc7516.models:Recipient", "header"), ("rfc7516.models:CompactEncryption", "protected"), ("rfc7516.models:BaseJSONEncryption", "protected"),
                        ("rfc7516.models:BaseJSONEncryption", "unprotected")):
        c = P.cls(cname)
        for m in c.methods.values():
            sn = m.self_name
            if sn is None:
                continue
            for node in fn_nodes(m):
                if isinstance(node, (ast.Assign, ast.AnnAssign)):
                    tgs = node.targets if isinstance(node, ast.Assign) else [node.target]
                    for tg in tgs:
                        if isinstance(tg, ast.Attribute) and tg.attr == attr and norm(tg.value) == sn and node.value is not None:
                            n += 1
                            why = _shared_object_origin(eng, m, node.value, 0, set())
                            ctx.check(why is None, "R18.5", m, node, f"{m.short} :: {sn}.{attr} = {norm(node.value)[:40]}",
                                      f"the header object that receives the library-written p2s / p2c / epk / iv / tag can be an object shared between messages: {why}; "
                                      "a later encryption then finds the earlier salt input in its headers and re-uses it", "per-message object (caller's argument for this call or a fresh dict)",
                                      construct=f"{c.name}.{attr} object")
    ctx.count("R18.5", n, 5, "stores of per-message header objects")


def r18_6(ctx) -> None:
    """an ephemeral key only ever comes from a generator call made for that recipient: every store to `.ephemeral_key` in the
    library is None (initial) or the result of generate_key(...) - never a value kept from an earlier recipient / message"""
    eng = ctx.eng
    n = 0
    for fn in eng.prog.all_functions():
        for node in fn_nodes(fn):
            tgs = []
            if isinstance(node, ast.Assign):
                tgs = node.targets
            elif isinstance(node, ast.AnnAssign) and node.value is not None:
                tgs = [node.target]
            for tg in tgs:
                if isinstance(tg, ast.Attribute) and tg.attr == "ephemeral_key":
                    n += 1
                    vals = resolve_all(eng, fn, node.value)
                    ok = all(v == "None" or ".generate_key(" in v for v in vals)
                    ctx.check(ok, "R18.6", fn, node, f"{fn.short} :: {norm(tg)} = {norm(node.value)[:40]}", f"an ephemeral key is assigned from {vals[:2]}: not a key generated for this recipient "
                              "(a key kept in a cache / dict is shared between recipients or messages)", "None or <key>.generate_key(curve, private=True)", construct=f"ephemeral_key store in {fn.short}")
            if isinstance(node, ast.Call) and isinstance(node.func, ast.Name) and node.func.id == "setattr" and len(node.args) == 3 and const_value(node.args[1]) == "ephemeral_key":
                n += 1
                ctx.fail("R18.6", fn, node, "ephemeral key stored through setattr", construct=f"setattr ephemeral_key in {fn.short}")
    ctx.count("R18.6", n, 2, "stores to .ephemeral_key")


def run(ctx) -> None:
    from .c14 import r14_6_7 as _r14_6_7
    ctx.guard_as("R18.9", _r14_6_7, "jwe")  # the fresh iv / epk is the one that is emitted (add_header stores the new value in every branch)
    # generated keys are pairwise distinct and of the requested size: a key's JWK view is built from its own native key, never inside an object shared with other keys
    from .c20 import r20_1, key_class_functions
    from ..effects import Effects
    ctx.guard_as("R18.7", r20_1, Effects(ctx.eng.prog, ctx.eng.cg), key_class_functions(ctx.eng))
    # "of the requested size or curve": the size / curve / private flag the caller asked for reaches the generator unchanged
    from .common import forwarding_discipline
    ctx.guard(forwarding_discipline, "R18.8", ['crv', 'key_size', 'crv_or_size', 'private', 'key_type'], 15)
    from .common import in_family as _inf
    ctx.guard_as("R18.11", r20_1, Effects(ctx.eng.prog, ctx.eng.cg), {f for f in ctx.eng.prog.all_functions() if _inf(f, "jwe")})  # the fresh IV that is emitted is this message's own (no class-level segment containers)
    from .common import ignored_parameters
    ctx.guard(ignored_parameters, "R18.10", lambda f: "generate" in f.name, 20)  # "of the requested size or curve": the size / curve / flags asked for are not dropped on the way
    ctx.guard(r18_6)
    ctx.guard(r18_1)
    ctx.guard(r18_2)
    ctx.guard(r18_3)
    ctx.guard(r18_5)
    ctx.assume("secrets.token_bytes / os.urandom / pyca key generators are cryptographically strong sources")
    ctx.note("'pairwise distinct, no fixed bits' is statistical; decided instead: no constant, counter, cache, parameter or field can reach the sinks")
