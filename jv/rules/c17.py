"""C17 - decompression of JWE plaintext is bounded.

R17.1 every inflate call is bounded by max_length == 256000; one-shot zlib.decompress is a disallowed API
R17.2 completion is established (eof / a second pull), not assumed from unconsumed_tail alone
R17.3 raw DEFLATE out, raw-or-zlib-headed in      R17.4 decompress only the output of enc.decrypt
R17.5 the whole bounded result is returned (no slicing)
"""
from __future__ import annotations
import ast
from typing import List, Optional, Set

from ..program import AnalysisError, FunctionInfo, fn_nodes, norm
from ..cfg import cfg_of, CNode
from ..fold import is_unknown
from ..spec import tables as T
from .common import resolve_all, is_const, JWE_CONSUME, can_reach_exit, entries, impls, scope_of, sites_calling, succ_by_label, names_in

ZIP = "rfc7516.models:JWEZipModel"


def _is_decompress_obj(eng, fn: FunctionInfo, recv: ast.expr) -> bool:
    td = eng.types.of(fn.module, recv)
    if any("zlib" in c and "ecompress" in c for c in td.classes):
        return True
    # untyped (e.g. it came through a helper annotated Any): every value the name can hold here is a zlib.decompressobj(...) call
    from .common import resolve_all as _ra
    texts = _ra(eng, fn, recv)
    return bool(texts) and all(t_.startswith(("zlib.decompressobj(", "decompressobj(")) for t_ in texts)


def r17_1(ctx) -> None:
    eng = ctx.eng
    F = eng.folder
    n = 0
    bounded = 0
    for fn in eng.prog.all_functions():
        for s in eng.cg.calls_in(fn):
            if not isinstance(s.node, ast.Call):
                continue
            if any(x in ("zlib.decompress", "gzip.decompress", "bz2.decompress", "lzma.decompress") for x in s.ext):
                n += 1
                ctx.fail("R17.1", fn, s.node, "one-shot decompression without an output bound (disallowed API)")
            if s.attr == "decompress" and not s.callees and isinstance(s.node.func, ast.Attribute) and \
                    _is_decompress_obj(eng, fn, s.node.func.value):
                n += 1
                ml = None
                if len(s.node.args) >= 2:
                    ml = s.node.args[1]
                for k in s.node.keywords:
                    if k.arg == "max_length":
                        ml = k.value
                if ml is None:
                    ctx.fail("R17.1", fn, s.node, "inflate call without max_length: the output is unbounded")
                    continue
                v = F.expr(ml, {}, fn.module)
                ok = isinstance(v, int) and not isinstance(v, bool) and 0 < v <= T.MAX_DECOMPRESSED
                if ok:
                    bounded += 1
                ctx.check(ok, "R17.1", fn, s.node, f"{fn.short} :: {norm(s.node)[:60]}", f"max_length folds to {v!r}; the limit is {T.MAX_DECOMPRESSED}",
                          f"max_length folds to {v}")
            if s.attr == "flush" and not s.callees and isinstance(s.node.func, ast.Attribute) and _is_decompress_obj(eng, fn, s.node.func.value):
                if not s.node.args:
                    n += 1
                    ctx.fail("R17.1", fn, s.node, "flush() of an inflater without a length bound materialises all pending output")
    ctx.count("R17.1", bounded, 1, "bounded inflate calls")
    ms = F.module_value(eng.prog.mod("rfc7518.jwe_zips"), "MAX_SIZE")
    ctx.check(ms == T.MAX_DECOMPRESSED, "R17.1", None, None, "MAX_SIZE", f"MAX_SIZE folds to {ms!r}, the documented limit is {T.MAX_DECOMPRESSED}",
              f"= {ms}", construct="MAX_SIZE")


def _decompress_impls(eng) -> List[FunctionInfo]:
    out = impls(eng, ZIP, "decompress")
    if not out:
        raise AnalysisError("no JWEZipModel.decompress implementation")
    return out


def r17_2_5(ctx) -> None:
    eng = ctx.eng
    n = 0
    for D in _decompress_impls(eng):
        cfg = cfg_of(D)
        bcalls = [s for s in eng.cg.calls_in(D) if isinstance(s.node, ast.Call) and s.attr == "decompress" and not s.callees
                  and isinstance(s.node.func, ast.Attribute) and _is_decompress_obj(eng, D, s.node.func.value)]
        if not bcalls:
            raise AnalysisError(f"{D.short}: no inflate call found")
        first = None
        for s in sorted(bcalls, key=lambda x: (x.node.lineno, x.node.col_offset)):
            par = eng.prog.parent(s.node)
            if isinstance(par, (ast.Assign, ast.AnnAssign, ast.Return)):
                first = first or (s, par)
        if first is None:
            raise AnalysisError(f"{D.short}: cannot interpret how the inflated value is bound")
        s, par = first
        B = cfg.node_of(s.node)
        objtxt = norm(s.node.func.value)  # type: ignore[union-attr]
        var = None
        if isinstance(par, ast.Assign) and isinstance(par.targets[0], ast.Name):
            var = par.targets[0].id
        elif isinstance(par, ast.AnnAssign) and isinstance(par.target, ast.Name):
            var = par.target.id
        # completion gates (each a test whose "incomplete" edge only raises):
        #   (1) `not <obj>.eof`                      (2) a second pull that is given <obj>.unconsumed_tail
        #   (3) a second pull with other input, provided a test of <obj>.unconsumed_tail (truthy -> raise) is also on every path
        #   (4) a local bound to an `or` of those (tail or pull / … or not eof)
        gates: List[CNode] = []
        weak: List[CNode] = []
        tail_tests: List[CNode] = []
        pulls_need_tail: List[CNode] = []
        for t in cfg.nodes:
            if t.kind != "test" or t.ast is None or t is B:
                continue
            e = t.ast
            kind = _gate_kind(eng, D, e, objtxt, s.node)
            if kind == "eof":      # the atom is <obj>.eof : false edge = incomplete
                if not can_reach_exit(cfg, succ_by_label(cfg, t, "false")):
                    gates.append(t)
            elif kind in ("pull-tail", "or-complete"):
                if not can_reach_exit(cfg, succ_by_label(cfg, t, "true")):
                    gates.append(t)
            elif kind == "pull":
                if not can_reach_exit(cfg, succ_by_label(cfg, t, "true")):
                    pulls_need_tail.append(t)
            elif kind == "tail":
                if not can_reach_exit(cfg, succ_by_label(cfg, t, "true")):
                    tail_tests.append(t)
                weak.append(t)
        for r0 in cfg.returns():
            pass
        # (3): a bare pull counts only together with a tail test on every path from the bounded call to each return
        for pt in pulls_need_tail:
            if tail_tests and all(cfg.must_pass(B, r0, tail_tests) for r0 in cfg.returns() if r0 in cfg.reachable(B)) and cfg.must_pass(B, pt, tail_tests):
                gates.append(pt)
        for r in cfg.returns():
            v = r.ast.value  # type: ignore[union-attr]
            if v is None:
                continue
            n += 1
            inst = f"{D.short} :: {norm(r.ast)}"
            if not (B is not None and (r is B or B in [x for x in cfg.nodes if r in cfg.reachable(x)])):
                pass
            # R17.5 whole result
            whole = _is_alias_of(eng, D, v, s.node)
            ctx.check(whole, "R17.5", D, r.ast, inst, "decompress() does not return exactly the bounded inflate result "
                      "(sliced / combined values can hide truncation or exceed the bound)", "returns the bounded result unchanged")
            # R17.2
            if r is B:
                ok = False
            else:
                ok = bool(gates) and B is not None and cfg.must_pass(B, r, gates)
            if not ok:
                hint = " (only `unconsumed_tail` is tested: zlib may have consumed all input while output is still pending - " \
                       "256001 x b'a' inflates to exactly max_length with an empty tail)" if weak else ""
                ctx.fail("R17.2", D, r.ast, "the inflated data is returned without establishing that the stream is complete" + hint,
                         construct=f"completion before {norm(r.ast)}")
            else:
                ctx.ok("R17.2", inst, "a raise guarded by " + " / ".join(norm(g.ast)[:50] for g in gates) + " lies on every path from the bounded call")
        # R17.6 the limit applies to the *decompressed* size: every raise of the exceeded-size error lies after the bounded call
        for node in cfg.nodes:
            if node.kind == "stmt" and isinstance(node.ast, ast.Raise) and node.ast.exc is not None:
                nm = norm(node.ast.exc.func if isinstance(node.ast.exc, ast.Call) else node.ast.exc).split(".")[-1]
                if nm == "ExceededSizeError":
                    ok6 = B is not None and cfg.must_pass(cfg.entry, node, [B])
                    ctx.check(ok6, "R17.6", D, node.ast, f"{D.short} :: {norm(node.ast)[:40]} after inflation", "ExceededSizeError is raised from a condition on the compressed input, before "
                              "anything was inflated: incompressible plaintexts within the limit (DEFLATE adds framing) are refused", "raised only after the bounded inflate call",
                              construct="exceeded-size raise before inflation")
        # the refusal is the exceeded-size error
        for g in gates:
            lab = "false" if any(isinstance(x, ast.Attribute) and x.attr == "eof" for x in ast.walk(g.ast)) else "true"  # type: ignore[arg-type]
            for sx in succ_by_label(cfg, g, lab):
                for node in cfg.reachable(sx):
                    if node.kind == "stmt" and isinstance(node.ast, ast.Raise):
                        nm = norm(node.ast.exc.func if isinstance(node.ast.exc, ast.Call) else node.ast.exc) if node.ast.exc is not None else ""
                        ctx.check(nm.split(".")[-1] == "ExceededSizeError", "R17.2", D, node.ast, f"{D.short} :: {norm(node.ast)[:50]}",
                                  f"over-limit data is refused with {nm}, not the exceeded-size error", "raises ExceededSizeError")
    ctx.count("R17.2/5", n, 1, "returns of decompress()")


def _is_pull(x: ast.AST, objtxt: str, first_call: ast.Call) -> bool:
    return isinstance(x, ast.Call) and isinstance(x.func, ast.Attribute) and x.func.attr in ("decompress", "flush") \
        and norm(x.func.value) == objtxt and x is not first_call


def _gate_kind(eng, fn: FunctionInfo, e: ast.AST, objtxt: str, first_call: ast.Call, depth: int = 0):
    """classify a test expression: 'eof' | 'tail' | 'pull' | 'pull-tail' | 'or-complete' | None"""
    if isinstance(e, ast.Call) and isinstance(e.func, ast.Name) and e.func.id == "bool" and len(e.args) == 1:
        return _gate_kind(eng, fn, e.args[0], objtxt, first_call, depth)
    if isinstance(e, ast.Attribute) and norm(e.value) == objtxt:
        if e.attr == "eof":
            return "eof"
        if e.attr == "unconsumed_tail":
            return "tail"
    if _is_pull(e, objtxt, first_call):
        a0 = e.args[0] if e.args else None
        if a0 is not None and norm(a0) == f"{objtxt}.unconsumed_tail":
            return "pull-tail"
        return "pull"
    if isinstance(e, ast.BoolOp) and isinstance(e.op, ast.Or):
        kinds = [_gate_kind(eng, fn, v, objtxt, first_call, depth) for v in e.values]
        kinds += ["not-eof" for v in e.values if isinstance(v, ast.UnaryOp) and isinstance(v.op, ast.Not) and _gate_kind(eng, fn, v.operand, objtxt, first_call, depth) == "eof"]
        # (a further pull - even of nothing - resets `unconsumed_tail`: the tail counts only when it is read BEFORE the pull)
        if "not-eof" in kinds or "pull-tail" in kinds or "or-complete" in kinds or ("tail" in kinds and "pull" in kinds and kinds.index("tail") < kinds.index("pull")):
            return "or-complete"
        return None
    if isinstance(e, ast.UnaryOp) and isinstance(e.op, ast.Not) and _gate_kind(eng, fn, e.operand, objtxt, first_call, depth) == "eof":
        return "or-complete"
    if isinstance(e, ast.Name) and depth < 3 and e.id not in fn.params:
        defs = [d for d in eng.flow._defs(fn).get(e.id, [])]
        if len(defs) == 1 and defs[0][0] == "assign" and not defs[0][2] and isinstance(defs[0][1], ast.AST):
            k = _gate_kind(eng, fn, defs[0][1], objtxt, first_call, depth + 1)
            if k == "eof":
                return None  # `x = obj.eof` tested later: not an accepted idiom
            return k
        # `x = A ; if not x: x = B`  is  `x = A or B`  (the short-circuit `or` written in two steps)
        plain = [d for d in defs if d[0] == "assign" and not d[2] and isinstance(d[1], ast.AST) and id(d[1]) in eng.flow._rhs_stmt]
        if len(defs) == 2 and len(plain) == 2:
            s1, s2 = eng.flow._rhs_stmt[id(plain[0][1])], eng.flow._rhs_stmt[id(plain[1][1])]
            if s1.lineno > s2.lineno:
                s1, s2, plain = s2, s1, [plain[1], plain[0]]
            par = eng.prog.parent(s2)
            neg_here = isinstance(par, ast.If) and ((s2 in par.body and isinstance(par.test, ast.UnaryOp) and isinstance(par.test.op, ast.Not) and norm(par.test.operand) == e.id and not par.orelse)
                                                    or (s2 in par.orelse and norm(par.test) == e.id and all(isinstance(x, ast.Pass) for x in par.body)))
            if neg_here and eng.prog.parent(s1) is eng.prog.parent(par):
                both = ast.BoolOp(op=ast.Or(), values=[plain[0][1], plain[1][1]])
                return _gate_kind(eng, fn, both, objtxt, first_call, depth + 1)
            # `if T: x = True else: x = B`  is  `x = T or B`
            p1, p2 = eng.prog.parent(s1), eng.prog.parent(s2)
            if isinstance(p1, ast.If) and p1 is p2 and len(p1.body) >= 1 and len(p1.orelse) >= 1:
                tb = [s_ for s_ in (s1, s2) if s_ in p1.body]
                eb = [s_ for s_ in (s1, s2) if s_ in p1.orelse]
                if len(tb) == 1 and len(eb) == 1:
                    if is_const(tb[0].value, True):
                        both = ast.BoolOp(op=ast.Or(), values=[p1.test, eb[0].value])
                        return _gate_kind(eng, fn, both, objtxt, first_call, depth + 1)
                    if is_const(eb[0].value, True) and isinstance(p1.test, ast.UnaryOp) and isinstance(p1.test.op, ast.Not):
                        both = ast.BoolOp(op=ast.Or(), values=[p1.test.operand, tb[0].value])
                        return _gate_kind(eng, fn, both, objtxt, first_call, depth + 1)
    return None


def _completion_facts(eng, fn: FunctionInfo, e: ast.AST, objtxt: str, first_call: ast.Call, depth: int):
    """(mentions a second pull on the object, mentions `not obj.eof`) - following local definitions"""
    second = not_eof = False
    for x in ast.walk(e):
        if isinstance(x, ast.Call) and isinstance(x.func, ast.Attribute) and x.func.attr in ("decompress", "flush") \
                and norm(x.func.value) == objtxt and x is not first_call:
            second = True
        if isinstance(x, ast.UnaryOp) and isinstance(x.op, ast.Not) and isinstance(x.operand, ast.Attribute) and x.operand.attr == "eof" \
                and norm(x.operand.value) == objtxt:
            not_eof = True
        if isinstance(x, ast.Name) and depth < 3 and x.id not in fn.params:
            for kind, dn, extra in eng.flow._defs(fn).get(x.id, []):
                if kind == "assign" and isinstance(dn, ast.AST) and dn is not first_call:
                    s2, n2 = _completion_facts(eng, fn, dn, objtxt, first_call, depth + 1)
                    second = second or s2
                    not_eof = not_eof or n2
    return second, not_eof


def _is_alias_of(eng, fn: FunctionInfo, v: ast.AST, call: ast.Call, depth: int = 0) -> bool:
    """v is the call itself or a local name every definition of which is (an alias of) it"""
    if v is call:
        return True
    if isinstance(v, ast.Name) and depth < 5 and v.id not in fn.params:
        defs = eng.flow._defs(fn).get(v.id, [])
        if not defs:
            return False
        for kind, dn, extra in defs:
            if kind != "assign" or extra or not isinstance(dn, ast.AST) or not _is_alias_of(eng, fn, dn, call, depth + 1):
                return False
        return True
    return False


def r17_3(ctx) -> None:
    eng = ctx.eng
    F = eng.folder
    for D in _decompress_impls(eng):
        cfg = cfg_of(D)
        objs = [s for s in eng.cg.calls_in(D) if isinstance(s.node, ast.Call) and any(x == "zlib.decompressobj" for x in s.ext)]
        if not objs:
            raise AnalysisError(f"{D.short}: no zlib.decompressobj()")
        raw = []
        headed = []  # (call site, CFG node whose reachability decides that the zlib-framed variant is chosen)
        from .common import reaching_values
        for s in objs:
            wb = s.node.args[0] if s.node.args else None
            for k in s.node.keywords:
                if k.arg == "wbits":
                    wb = k.value
            if wb is None:
                headed.append((s, cfg.node_of(s.node)))
                continue
            # the window size may be chosen first and the inflater created once: every value that reaches the call is one variant
            variants = [(wb, cfg.node_of(s.node))]
            if isinstance(wb, ast.Name) and wb.id not in D.params:
                rv = reaching_values(D, wb.id, s.node)
                if rv:
                    variants = [(v_, cfg.node_of(v_)) for v_ in rv]
            for v_, at in variants:
                txt = norm(v_)
                if txt in ("-zlib.MAX_WBITS", "-15", "-MAX_WBITS"):
                    raw.append(s)
                elif txt in ("zlib.MAX_WBITS", "15", "MAX_WBITS"):
                    headed.append((s, at))
                else:
                    ctx.fail("R17.3", D, s.node, f"inflater created with wbits={txt}: neither raw DEFLATE nor the default zlib framing")
        ctx.check(bool(raw), "R17.3", D, D.node, f"{D.short} :: raw inflater", "no raw-DEFLATE (negative wbits) inflater: RFC 1951 streams cannot be read",
                  "zlib.decompressobj(-MAX_WBITS)", construct="raw inflater")
        # a headed inflater is only chosen when the input starts with the zlib header
        sp = D.pos_params[1]
        for s, cn in headed:
            okh = False
            for t in cfg.nodes:
                if t.kind == "test" and isinstance(t.ast, ast.Call) and isinstance(t.ast.func, ast.Attribute) and t.ast.func.attr == "startswith" \
                        and norm(t.ast.func.value) == sp and t.ast.args:
                    v = F.expr(t.ast.args[0], {}, D.module)
                    if isinstance(v, bytes) and len(v) == 2 and v[0] == 0x78 and cn is not None and \
                            cn not in cfg.reachable(cfg.entry, edge_filter=lambda a, b, lab, _t=t: not (a is _t and lab == "true")):
                        okh = True
            ctx.check(okh, "R17.3", D, s.node, f"{D.short} :: zlib-headed inflater", "the zlib-framed inflater is not restricted to inputs that start with the zlib header",
                      "guarded by s.startswith(<0x78 ..>)", construct="headed inflater guard")
    for C in impls(eng, ZIP, "compress"):
        rets = [r for r in cfg_of(C).returns()]
        comp = [s for s in eng.cg.calls_in(C) if isinstance(s.node, ast.Call) and any(x in ("zlib.compress", "zlib.compressobj") for x in s.ext)]
        ok = False
        for s in comp:
            if s.ext[0] == "zlib.compressobj":
                wb = [k.value for k in s.node.keywords if k.arg == "wbits"] + list(s.node.args[2:3])
                ok = any(norm(w) in ("-15", "-zlib.MAX_WBITS") for w in wb)
            else:
                # zlib.compress(...)[2:-4] : strip the 2-byte header and the 4-byte adler32
                wb = [k.value for k in s.node.keywords if k.arg == "wbits"] + list(s.node.args[2:3])
                if any(norm(w) in ("-15", "-zlib.MAX_WBITS") for w in wb):
                    ok = True
                par = eng.prog.parent(s.node)
                var = par.targets[0].id if isinstance(par, ast.Assign) and isinstance(par.targets[0], ast.Name) else None
                for r in rets:
                    v = r.ast.value  # type: ignore[union-attr]
                    if isinstance(v, ast.Subscript) and isinstance(v.slice, ast.Slice) and v.slice.lower is not None and v.slice.upper is not None \
                            and norm(v.slice.lower) == "2" and norm(v.slice.upper) == "-4" and (norm(v.value) == var or v.value is s.node):
                        ok = True
        # ... and every return hands out the compressor's output (an empty input still becomes a complete DEFLATE stream)
        sp_ = C.pos_params[1]
        for r in rets:
            tx = resolve_all(eng, C, r.ast.value) if r.ast.value is not None else [""]  # type: ignore[union-attr]
            if not all("zlib.compress" in t_ or ".compress(" in t_ or ".flush(" in t_ for t_ in tx):
                ok = False
        ctx.check(ok, "R17.3", C, C.node, f"{C.short} :: raw DEFLATE out", "compress() does not emit a raw DEFLATE stream (zlib header/checksum not stripped, no negative wbits)",
                  "zlib.compress(s)[2:-4] or wbits=-15", construct="raw DEFLATE emission")


def r17_4(ctx) -> None:
    eng = ctx.eng
    dec = impls(eng, "rfc7516.models:JWEEncModel", "decrypt", include_abstract=True)
    zips = impls(eng, ZIP, "decompress", include_abstract=True)
    n = 0
    for E in entries(eng, JWE_CONSUME):
        scope = scope_of(eng, E)
        for s in sites_calling(eng, zips, scope):
            if not isinstance(s.node, ast.Call) or not s.node.args:
                continue
            n += 1
            res = eng.flow.slice(s.fn, s.node.args[0], scope, [E], stop_at=dec)
            bad = [l for l in res.leaves if not (l.kind == "barrier" and l.name == "decrypt") and l.kind not in ("const",)]
            ok = not bad and any(l.kind == "barrier" for l in res.leaves)
            ctx.check(ok, "R17.4", s.fn, s.node, f"{E.short} -> {s.fn.short}: {norm(s.node)}", "data other than the authenticated output of enc.decrypt is "
                      f"decompressed: {sorted(repr(b) for b in bad)[:4]}", "argument = result of enc.decrypt only", construct=f"{norm(s.node)} [{E.short}]")
    ctx.count("R17.4", n, 2, "(entry, zip.decompress site) pairs")


def run(ctx) -> None:
    ctx.guard(r17_1)
    ctx.guard(r17_2_5)
    ctx.guard(r17_3)
    ctx.guard(r17_4)
    from .c04 import r04_2
    ctx.guard_as("R17.7", r04_2)  # compress-before-encrypt / decompress-after-decrypt under one condition, on the caller's plaintext
    ctx.assume("zlib honours max_length (peak memory bounded by its documentation) and sets eof at the end of a complete stream")
